//! Rust / C / C++ expressions: wrapped into batch functions of the operand's
//! declared type, compiled into a shared object (rustc; clang / g++ with
//! `-fsanitize=undefined -fno-sanitize-recover=all`) and executed in a forked
//! child so that a sanitizer abort is observed instead of killing the harness.
use crate::ir::Ty;
use std::ffi::{c_char, c_int, c_void, CString};
use std::path::{Path, PathBuf};
use std::process::Command;

#[derive(Clone, Copy, PartialEq, Eq, Debug)]
pub enum NLang {
    Rust,
    C,
    Cpp,
}

impl NLang {
    pub fn of(backend: &str) -> Option<NLang> {
        match backend {
            "rust" => Some(NLang::Rust),
            "c" => Some(NLang::C),
            "cpp" => Some(NLang::Cpp),
            _ => None,
        }
    }
}

pub fn type_by_name(lang: NLang, name: &str) -> Option<Ty> {
    let n: String = name.chars().filter(|c| !c.is_whitespace()).collect();
    use crate::ir::*;
    Some(match lang {
        NLang::Rust => match n.as_str() {
            "bool" => Ty::Bool,
            "i8" => I8,
            "u8" => U8,
            "i16" => I16,
            "u16" => U16,
            "i32" => I32,
            "u32" => U32,
            "i64" => I64,
            "u64" => U64,
            "usize" => U64,
            "isize" => I64,
            "f32" => Ty::F32,
            "f64" => Ty::F64,
            "char" => Ty::Char,
            "*mutu8" | "*constu8" => Ty::Ptr { bits: 64 },
            "::core::mem::MaybeUninit<u64>" => Ty::P64,
            _ => return None,
        },
        NLang::C | NLang::Cpp => match n.as_str() {
            "bool" | "_Bool" => Ty::Bool,
            "int8_t" => I8,
            "uint8_t" => U8,
            "int16_t" => I16,
            "uint16_t" => U16,
            "int32_t" => I32,
            "uint32_t" | "char32_t" => U32,
            "int64_t" => I64,
            "uint64_t" | "size_t" | "uintptr_t" => U64,
            "float" => Ty::F32,
            "double" => Ty::F64,
            "uint8_t*" | "void*" => Ty::Ptr { bits: 64 },
            _ => return None,
        },
    })
}

#[derive(Clone, Debug)]
pub struct NCase {
    pub id: usize,
    /// expression text over the variable `opnd0` (run::VAR)
    pub expr: String,
    pub operand_ty: String,
    pub result_ty: String,
    /// Rust only: let the compiler infer the expression's type (used when the
    /// expression does not type-check against the declared type)
    pub infer: bool,
}

pub const RUST_TAGS: [(&str, Ty); 16] = [
    ("bool", Ty::Bool),
    ("i8", crate::ir::I8),
    ("u8", crate::ir::U8),
    ("i16", crate::ir::I16),
    ("u16", crate::ir::U16),
    ("i32", crate::ir::I32),
    ("u32", crate::ir::U32),
    ("i64", crate::ir::I64),
    ("u64", crate::ir::U64),
    ("f32", Ty::F32),
    ("f64", Ty::F64),
    ("char", Ty::Char),
    ("usize", crate::ir::U64),
    ("isize", crate::ir::I64),
    ("*mut u8", Ty::Ptr { bits: 64 }),
    ("::core::mem::MaybeUninit<u64>", Ty::P64),
];

pub type BatchFn = unsafe extern "C" fn(*const u64, *mut u64, *mut u8, usize);

fn rust_decode(ty: Ty, tyname: &str) -> String {
    match ty {
        Ty::Bool => "(raw & 1) != 0".into(),
        Ty::Int { bits, .. } => {
            if bits == 64 {
                format!("raw as {tyname}")
            } else {
                format!("(raw as u{bits}) as {tyname}")
            }
        }
        Ty::F32 => "f32::from_bits(raw as u32)".into(),
        Ty::F64 => "f64::from_bits(raw)".into(),
        Ty::Char => "match char::from_u32(raw as u32) { Some(c) => c, None => { *st.add(i) = 2; continue; } }".into(),
        Ty::Ptr { .. } => format!("raw as usize as {tyname}"),
        Ty::P64 => "::core::mem::MaybeUninit::<u64>::new(raw)".into(),
    }
}

fn rust_encode(ty: Ty) -> String {
    match ty {
        Ty::Bool => "v as u64".into(),
        Ty::Int { bits, .. } => {
            if bits == 64 {
                "v as u64".into()
            } else {
                format!("(v as u{bits}) as u64")
            }
        }
        Ty::F32 => "v.to_bits() as u64".into(),
        Ty::F64 => "v.to_bits()".into(),
        Ty::Char => "v as u32 as u64".into(),
        Ty::Ptr { .. } => "v as usize as u64".into(),
        Ty::P64 => "unsafe { ::core::mem::transmute::<::core::mem::MaybeUninit<u64>, u64>(v) }".into(),
    }
}

pub fn rust_source(cases: &[NCase], rt_module: &str) -> String {
    let mut s = String::from("#![allow(warnings)]\nuse std::panic::{catch_unwind, AssertUnwindSafe};\n");
    s.push_str(rt_module);
    s.push_str("\n#[no_mangle]\npub unsafe extern \"C\" fn exprsem_init() { std::panic::set_hook(Box::new(|_| {})); }\n");
    s.push_str("trait ToRaw { const TAG: u32; fn to_raw(self) -> u64; }\nfn tag_of<T: ToRaw>(_f: &dyn Fn() -> T) -> u32 { T::TAG }\n");
    for (tag, (name, ty)) in RUST_TAGS.iter().enumerate() {
        s.push_str(&format!("impl ToRaw for {name} {{ const TAG: u32 = {tag}; fn to_raw(self) -> u64 {{ let v = self; {} }} }}\n", rust_encode(*ty)));
    }
    for c in cases {
        if c.infer {
            let ot = type_by_name(NLang::Rust, &c.operand_ty).unwrap();
            s.push_str(&format!(
                "#[no_mangle]\npub unsafe extern \"C\" fn case_{id}(inp: *const u64, out: *mut u64, st: *mut u8, n: usize) {{\n  for i in 0..n {{\n    let raw: u64 = *inp.add(i);\n    let opnd0: {oty} = {dec};\n    let r = catch_unwind(AssertUnwindSafe(|| {{ #[allow(unused_unsafe)] unsafe {{ {expr} }} }}));\n    match r {{ Ok(v) => {{ *out.add(i) = ToRaw::to_raw(v); *st.add(i) = 0; }} Err(_) => {{ *st.add(i) = 1; }} }}\n  }}\n}}\n#[no_mangle]\npub unsafe extern \"C\" fn case_{id}_tag() -> u32 {{ let opnd0: {oty} = ::core::mem::zeroed(); tag_of(&|| {{ #[allow(unused_unsafe)] unsafe {{ {expr} }} }}) }}\n",
                id = c.id,
                oty = c.operand_ty,
                dec = rust_decode(ot, &c.operand_ty),
                expr = c.expr,
            ));
            continue;
        }
        let ot = type_by_name(NLang::Rust, &c.operand_ty).unwrap();
        let rt = type_by_name(NLang::Rust, &c.result_ty).unwrap();
        s.push_str(&format!(
            "#[no_mangle]\npub unsafe extern \"C\" fn case_{id}(inp: *const u64, out: *mut u64, st: *mut u8, n: usize) {{\n  for i in 0..n {{\n    let raw: u64 = *inp.add(i);\n    let opnd0: {oty} = {dec};\n    let r = catch_unwind(AssertUnwindSafe(|| -> {rty} {{ #[allow(unused_unsafe)] unsafe {{ {expr} }} }}));\n    match r {{ Ok(v) => {{ *out.add(i) = {enc}; *st.add(i) = 0; }} Err(_) => {{ *st.add(i) = 1; }} }}\n  }}\n}}\n",
            id = c.id,
            oty = c.operand_ty,
            rty = c.result_ty,
            dec = rust_decode(ot, &c.operand_ty),
            enc = rust_encode(rt),
            expr = c.expr,
        ));
    }
    s
}

pub fn c_source(cases: &[NCase], prelude: &str, cpp: bool) -> String {
    let mut s = String::new();
    if cpp {
        s.push_str("#include <cstdint>\n#include <cstddef>\n#include <cstring>\n#include <bit>\n#include <utility>\n");
    } else {
        s.push_str("#include <stdint.h>\n#include <stdbool.h>\n#include <stddef.h>\n#include <string.h>\n");
    }
    s.push_str(prelude);
    s.push('\n');
    for c in cases {
        s.push_str(&format!(
            "{ext} void case_{id}(const uint64_t *in, uint64_t *out, uint8_t *st, size_t n) {{\n  for (size_t i = 0; i < n; i++) {{\n    {oty} opnd0; memcpy(&opnd0, &in[i], sizeof opnd0);\n    {rty} r = {expr};\n    uint64_t o = 0; memcpy(&o, &r, sizeof r); out[i] = o; st[i] = 0;\n  }}\n}}\n",
            ext = if cpp { "extern \"C\"" } else { "" },
            id = c.id,
            oty = c.operand_ty,
            rty = c.result_ty,
            expr = c.expr,
        ));
    }
    s
}

pub struct Built {
    pub lib: PathBuf,
    pub log: String,
}

fn run(cmd: &mut Command) -> Result<String, String> {
    match cmd.output() {
        Ok(o) => {
            let txt = format!("{}{}", String::from_utf8_lossy(&o.stdout), String::from_utf8_lossy(&o.stderr));
            if o.status.success() {
                Ok(txt)
            } else {
                Err(txt)
            }
        }
        Err(e) => Err(format!("cannot run {:?}: {e}", cmd.get_program())),
    }
}

/// Compile `src` into a shared object.  `profile` (Rust only): "debug" enables
/// debug assertions and overflow checks, "release" disables them.
pub fn build(lang: NLang, dir: &Path, stem: &str, src: &str, profile: &str) -> Result<Built, String> {
    let ext = match lang {
        NLang::Rust => "rs",
        NLang::C => "c",
        NLang::Cpp => "cpp",
    };
    let srcp = dir.join(format!("{stem}.{ext}"));
    std::fs::write(&srcp, src).map_err(|e| e.to_string())?;
    let lib = dir.join(format!("lib{stem}.so"));
    let log = match lang {
        NLang::Rust => {
            let mut c = Command::new("rustc");
            c.args(["--edition", "2021", "--crate-type", "cdylib", "--crate-name", stem, "-C", "panic=unwind", "-A", "warnings"]);
            if profile == "debug" {
                c.args(["-C", "opt-level=1", "-C", "debug-assertions=on", "-C", "overflow-checks=on"]);
            } else {
                c.args(["-C", "opt-level=2", "-C", "debug-assertions=off", "-C", "overflow-checks=off"]);
            }
            c.arg("-o").arg(&lib).arg(&srcp);
            c.env_remove("RUSTFLAGS").env_remove("CARGO_ENCODED_RUSTFLAGS");
            run(&mut c)?
        }
        NLang::C => {
            let rt = run(Command::new("clang-14").arg("--print-file-name=libclang_rt.ubsan_standalone-x86_64.so")).unwrap_or_default();
            let rtdir = Path::new(rt.trim()).parent().map(|p| p.to_path_buf()).unwrap_or_default();
            let mut c = Command::new("clang-14");
            c.args(["-std=c11", "-O1", "-fPIC", "-shared", "-fsanitize=undefined", "-fno-sanitize-recover=all", "-shared-libsan", "-Wno-everything"]);
            c.arg(format!("-Wl,-rpath,{}", rtdir.display()));
            c.arg("-o").arg(&lib).arg(&srcp);
            run(&mut c)?
        }
        NLang::Cpp => {
            let mut c = Command::new("g++-12");
            // -fpermissive: a pointer -> int32_t cast is ill-formed only because native pointers are 64 bits wide
            c.args(["-std=c++20", "-O1", "-fPIC", "-shared", "-fsanitize=undefined", "-fno-sanitize-recover=all", "-fpermissive", "-w"]);
            c.arg("-o").arg(&lib).arg(&srcp);
            run(&mut c)?
        }
    };
    Ok(Built { lib, log })
}

extern "C" {
    fn dlopen(filename: *const c_char, flag: c_int) -> *mut c_void;
    fn dlsym(handle: *mut c_void, symbol: *const c_char) -> *mut c_void;
    fn dlerror() -> *const c_char;
    pub fn fork() -> c_int;
    pub fn waitpid(pid: c_int, status: *mut c_int, options: c_int) -> c_int;
    pub fn _exit(code: c_int) -> !;
    pub fn dup2(a: c_int, b: c_int) -> c_int;
    pub fn open(path: *const c_char, flags: c_int, mode: c_int) -> c_int;
}

pub struct Lib {
    handle: *mut c_void,
}
unsafe impl Send for Lib {}
unsafe impl Sync for Lib {}

impl Lib {
    pub fn open(path: &Path) -> Result<Lib, String> {
        let c = CString::new(path.to_str().unwrap()).unwrap();
        let h = unsafe { dlopen(c.as_ptr(), 2 /* RTLD_NOW */) };
        if h.is_null() {
            let e = unsafe { dlerror() };
            let msg = if e.is_null() { "dlopen failed".to_string() } else { unsafe { std::ffi::CStr::from_ptr(e) }.to_string_lossy().to_string() };
            return Err(msg);
        }
        Ok(Lib { handle: h })
    }
    pub fn sym(&self, name: &str) -> Option<*mut c_void> {
        let c = CString::new(name).unwrap();
        let p = unsafe { dlsym(self.handle, c.as_ptr()) };
        if p.is_null() {
            None
        } else {
            Some(p)
        }
    }
    pub fn batch(&self, id: usize) -> Option<BatchFn> {
        self.sym(&format!("case_{id}")).map(|p| unsafe { std::mem::transmute::<*mut c_void, BatchFn>(p) })
    }
    /// inferred result type of an `infer` case
    pub fn tag(&self, id: usize) -> Option<Ty> {
        let p = self.sym(&format!("case_{id}_tag"))?;
        let f: unsafe extern "C" fn() -> u32 = unsafe { std::mem::transmute(p) };
        let t = unsafe { f() } as usize;
        RUST_TAGS.get(t).map(|x| x.1)
    }
    pub fn init(&self) {
        if let Some(p) = self.sym("exprsem_init") {
            let f: unsafe extern "C" fn() = unsafe { std::mem::transmute(p) };
            unsafe { f() };
        }
    }
}

/// extract `mod _rt { ... }` (brace matched) from generated Rust
pub fn rust_rt_module(files: &[(String, String)]) -> Option<String> {
    for (_, text) in files {
        if let Some(p) = text.find("\nmod _rt {") {
            let start = p + 1;
            let mut depth = 0i32;
            for (k, ch) in text[start..].char_indices() {
                match ch {
                    '{' => depth += 1,
                    '}' => {
                        depth -= 1;
                        if depth == 0 {
                            return Some(text[start..start + k + 1].to_string());
                        }
                    }
                    _ => {}
                }
            }
        }
    }
    None
}

/// `union x { ... };` definitions emitted by the C backend
pub fn c_unions(files: &[(String, String)]) -> String {
    let mut out = String::new();
    for (name, text) in files {
        if !name.ends_with(".c") && !name.ends_with(".h") {
            continue;
        }
        for l in text.lines() {
            let t = l.trim();
            if t.starts_with("union ") && t.ends_with("};") && t.contains('{') && !out.contains(t) {
                out.push_str(t);
                out.push('\n');
            }
        }
    }
    out
}
