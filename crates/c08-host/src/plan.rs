//! Call planner, drivers of async tasks, and the C08 oracles.
use crate::acall::{self, with_acall, AExport, AImport};
use crate::AsyncTables;
use cabi_ref::{Abi, CoreVal, Memory, SigKind, Val};
use rsguest_host::mem::ProcMem;
use rsguest_host::norm::{self, Cmp};
use rsguest_host::plan::{self as rplan, Dir, Func};
use rsguest_host::run::{check_sig, trunc, type_has_handle, with_shared, Host, Shared, PTR, SHARED};
use rsguest_host::{ExportEntry, Tables};
use rsguest_support::{alloc as galloc, obs};
use rt_host::alloc as malloc;
use rt_host::host::{self as mh, TaskSt};
use rt_host::sched;
use serde_json::{json, Value};
use std::collections::BTreeMap;
use vkit::{Args, Report, Rng};
use wit_parser::{Resolve, Type};

/// Known defect (C02 `call:async-export:indirect-param-record-never-freed`): an
/// async-lifted export with more than 16 flat parameters never frees the
/// caller-allocated parameter record.  Seen end-to-end as a leak of exactly that
/// record on every call.
pub const SIG_INDIRECT_RECORD: &str = "rust-async:export:indirect-param-record-never-freed";

struct Ctl<'a> {
    host: Host<'a>,
    at: &'static AsyncTables,
    seed: u64,
    /// reference: mismatches of the sync variant of the same world (`--ref`)
    reference: Option<BTreeMap<String, String>>,
    cancel_pct: u64,
    vectors: std::collections::BTreeSet<u64>,
    code_seqs: std::collections::BTreeSet<String>,
    stop: bool,
    samples_left: usize,
}

fn key_of(f: &Func) -> String {
    format!("{}|{}|{}", f.dir.name(), f.module, f.name)
}

fn seed_for(seed: u64, key: &str, k: usize, what: &str) -> u64 {
    vkit::hash64(format!("{seed}|{key}|{k}|{what}").as_bytes())
}

enum Mode {
    SyncExport,
    SyncImport,
    AsyncExport(&'static ExportEntry, unsafe fn(u32, u32, u32) -> u32),
    AsyncImport(usize),
    Missing,
}

impl<'a> Ctl<'a> {
    fn mode_of(&self, f: &Func) -> Mode {
        let sym = f.symbol();
        match f.dir {
            Dir::Export => {
                let a = format!("[async-lift]{sym}");
                if let Some(e) = self.host.exports.get(a.as_str()) {
                    let cbn = format!("[callback]{a}");
                    match self.at.callbacks.iter().find(|c| c.0 == cbn) {
                        Some(c) => Mode::AsyncExport(*e, c.1),
                        None => Mode::Missing,
                    }
                } else if self.host.exports.contains_key(sym.as_str()) {
                    Mode::SyncExport
                } else {
                    Mode::Missing
                }
            }
            Dir::Import => {
                let a = format!("verif_import|{}|[async-lower]{}", f.module, f.name);
                if let Some(i) = self.host.imports.get(a.as_str()) {
                    Mode::AsyncImport(*i)
                } else if self.host.imports.contains_key(sym.as_str()) {
                    Mode::SyncImport
                } else {
                    Mode::Missing
                }
            }
        }
    }

    fn replay(&self, f: &Func, k: usize, extra: Value) -> Value {
        json!({"world": self.host.world_tag, "seed": self.seed, "set": k, "func": key_of(f), "opts": serde_json::from_str::<Value>(self.host.tables.opts).unwrap_or(Value::Null),
               "wit": self.host.tables.wit, "detail": extra})
    }

    /// A difference between what the reference host expects and what was
    /// observed through an async binding.  Not a C08 matter if the sync binding
    /// of the same function shows exactly the same difference.
    fn differs(&mut self, f: &Func, k: usize, what: &str, index: usize, sig: String, msg: String, observed: &str, detail: Value) {
        let key = format!("{}|{}|{}|{}", key_of(f), k, what, index);
        match &self.reference {
            None => {
                self.host.rep.count("mismatch_without_sync_reference");
                self.host.rep.inconclusive("an async observation differs from the reference host but no sync reference run is available for this world");
            }
            Some(r) => {
                if r.get(&key).map(|o| o == observed).unwrap_or(false) {
                    self.host.rep.count("differences_shared_with_the_sync_binding");
                    self.host.rep.inconclusive("an async binding differs from the reference host exactly as the sync binding does (not a C08 matter)");
                } else {
                    let sched = with_acall(|a| a.ctx_prefix.clone());
                    let rp = self.replay(f, k, json!({"what": what, "index": index, "detail": detail, "ctx": sched}));
                    self.host.rep.violation(&sig, &msg, rp);
                }
            }
        }
    }

    fn judge(&mut self, f: &Func, k: usize, what: &str, ty: &Type, index: usize, expected: &str, observed: &str) {
        self.host.rep.count(match (f.dir, what) {
            (Dir::Export, "param") => "compared_async_export_param",
            (Dir::Export, _) => "compared_async_export_result",
            (Dir::Import, "param") => "compared_async_import_param",
            (Dir::Import, _) => "compared_async_import_result",
        });
        self.host.rep.count_n("bytes_compared", expected.len() as u64);
        match norm::compare(expected, observed) {
            Cmp::Equal => {}
            Cmp::NanOnly => {
                self.host.rep.count("nan_payload_only_differences");
                self.host.rep.inconclusive("a NaN payload changed across the boundary (canonicalisation is permitted)");
            }
            other => {
                let class = match (norm::parse(expected), norm::parse(observed)) {
                    (Ok(a), Ok(b)) => rplan::diff_class(&self.host.abi, ty, &a, &b),
                    _ => rplan::shape_class(&self.host.abi, ty, 0),
                };
                let sig = format!("rust-async:{}:{}:{}", f.dir.name(), what, rplan::focus(&class));
                let msg = format!(
                    "async {} {} of `{}` (index {}, type shape {}) differs from its sync binding / the reference host: expected {} observed {}{} [opts {}]",
                    f.dir.name(),
                    what,
                    key_of(f),
                    index,
                    self.host.abi.shape_key(ty),
                    trunc(expected, 600),
                    trunc(observed, 600),
                    if let Cmp::Malformed(e) = &other { format!(" (malformed: {e})") } else { String::new() },
                    self.host.tables.opts
                );
                self.differs(f, k, what, index, sig, msg, observed, json!({"expected": trunc(expected, 4000), "observed": trunc(observed, 4000)}));
            }
        }
    }

    fn fail(&mut self, f: &Func, k: usize, sig: &str, msg: &str) {
        let m = format!("async {} `{}`: {} [opts {}]", f.dir.name(), key_of(f), msg, self.host.tables.opts);
        let sched = with_acall(|a| a.ctx_prefix.clone());
        let rp = self.replay(f, k, json!({"error": msg, "ctx": sched}));
        self.host.rep.violation(sig, &m, rp);
    }

    fn host_trap(&mut self, f: &Func, k: usize) -> bool {
        let trap = mh::with(|h| h.trap.clone());
        if let Some((kind, what)) = trap {
            if kind == mh::TrapKind::TaskReturnTwice || what.starts_with("task.cancel called although") {
                // reported by the task accounting with its own signature (task-return:twice / with-cancel, task-cancel:unrequested)
                return false;
            }
            let tail: Vec<String> = mh::with(|h| h.log.iter().rev().take(25).map(|e| rt_host::trace::fmt_ev(e)).collect::<Vec<_>>().into_iter().rev().collect());
            self.fail(f, k, &format!("rust-async:host-trap:{}", kind.name()), &format!("the mock component-model host trapped: {what}; last events: {tail:?}"));
            self.stop = true;
            return true;
        }
        false
    }

    fn balance(&mut self, f: &Func, k: usize, before: galloc::Snap, after: galloc::Snap, what: &str, indirect_record: Option<(u64, usize, usize)>) {
        if !self.host.alloc_ok {
            return;
        }
        self.host.rep.count("heap_balance_checks");
        if before == after {
            return;
        }
        let blocks = galloc::tracked_blocks(12);
        let (db, dy) = (after.blocks - before.blocks, after.bytes - before.bytes);
        let kind = if db > 0 || dy > 0 { "leak" } else { "over-free" };
        // the known defect: exactly the caller-allocated parameter record of an async export stays live
        if let Some((base, size, align)) = indirect_record {
            if db == 1 && dy == size as isize && galloc::block_info(base as usize) == Some((size, align, true)) {
                // the host takes the record back so that the ledger (and Miri's / valgrind's leak
                // check at exit) stay meaningful for everything else
                unsafe { std::alloc::dealloc(base as usize as *mut u8, std::alloc::Layout::from_size_align(size, align).unwrap()) };
                self.host.rep.count("known_indirect_param_record_leaks");
                let msg = format!(
                    "async export `{}` ({} flat parameters > 16): the caller-allocated parameter record ({} bytes) is never freed by the generated async-lift glue ({}) [opts {}]",
                    key_of(f),
                    f.params.iter().map(|t| self.host.abi.flatten(t).len()).sum::<usize>(),
                    size,
                    what,
                    self.host.tables.opts
                );
                let rp = self.replay(f, k, json!({"record_bytes": size}));
                self.host.rep.violation(SIG_INDIRECT_RECORD, &msg, rp);
                return;
            }
        }
        let sig = format!("rust-async:mem:{}:{}:{}", kind, f.dir.name(), what);
        let msg = format!(
            "async {} `{}`: guest heap not restored after the call completed ({}): live blocks {:+}, bytes {:+}; some live guest blocks (size, align): {:?}; heap class {} [opts {}]",
            f.dir.name(),
            key_of(f),
            what,
            db,
            dy,
            blocks,
            self.host.heap_class(f),
            self.host.tables.opts
        );
        self.differs(f, k, "balance", 0, sig, msg, &format!("{db},{dy}"), json!({"blocks": db, "bytes": dy}));
    }

    fn set_ctx(&mut self, f: &Func, k: usize, plan: &str) {
        let class = self.host.heap_class(f);
        self.host.ctx(f, "call", &class);
        let s = format!(
            "{{\"call\":{},\"dir\":\"{}\",\"func\":\"{}\",\"phase\":\"call\",\"shape\":\"{}\",\"world\":\"{}\",\"set\":{},\"plan\":\"{}\"}}",
            self.host.call_no,
            f.dir.name(),
            key_of(f).replace('\\', "/").replace('"', "'"),
            class.replace('"', "'"),
            self.host.world_tag,
            k,
            plan
        );
        eprintln!("CTX {s}");
        with_acall(|a| a.ctx_prefix = s);
    }

    fn end_schedule(&mut self, plan: &str) -> Vec<u32> {
        let taken = sched::end();
        let v = sched::vector(&taken);
        // a schedule = the oracle's choices + the guest-side plan + what they led to (callback
        // codes of the task, statuses the guest learnt about its subtask and through which channel)
        let mut hv = v.clone();
        hv.push(vkit::hash64(plan.as_bytes()) as u32);
        mh::with(|h| {
            for t in h.tasks.iter().skip(1) {
                hv.push(0xffff_0000);
                hv.extend(t.codes.iter().map(|c| c & 0xf));
            }
            for r in &h.subcalls {
                hv.push(0xffff_0001);
                for (st, via) in &r.seen {
                    hv.push(*st | (via.len() as u32) << 8);
                }
            }
        });
        self.vectors.insert(sched::hash_vector(&hv));
        v
    }

    /// Drive task `t` (already started, first code `code`) the way a
    /// component-model host does.  Returns the callback codes.
    fn drive(&mut self, t: u32, first: u32, cb: unsafe fn(u32, u32, u32) -> u32, mut cancel: bool) -> (Vec<u32>, bool, bool) {
        let mut codes = vec![first];
        let mut cancelled = false;
        let mut stuck = false;
        note_code(t, first);
        let mut steps = 0;
        loop {
            steps += 1;
            if steps > 400 || mh::with(|h| h.violated()) {
                break;
            }
            #[derive(Clone, Copy)]
            enum Act {
                Resume,
                Deliver(u32),
                Host(mh::HostAct),
                Cancel,
            }
            let mut acts: Vec<Act> = vec![];
            let st = mh::with(|h| h.tasks[t as usize].st);
            mh::with(|h| {
                match st {
                    TaskSt::Yielded => acts.push(Act::Resume),
                    TaskSt::Waiting(s) => {
                        if !h.pending_in_set(s).is_empty() {
                            acts.push(Act::Deliver(s));
                        }
                    }
                    _ => {}
                }
                if st != TaskSt::Exited {
                    for a in h.host_actions() {
                        acts.push(Act::Host(a));
                    }
                }
            });
            if st == TaskSt::Exited {
                break;
            }
            if cancel && matches!(st, TaskSt::Yielded | TaskSt::Waiting(_)) {
                acts.push(Act::Cancel);
            }
            if acts.is_empty() {
                stuck = true;
                break;
            }
            let act = acts[sched::choose(acts.len(), "step")];
            let run = |e0: u32, e1: u32, e2: u32| -> u32 {
                mh::with(|h| {
                    h.cur_task = t;
                    h.tasks[t as usize].st = TaskSt::Running;
                });
                let code = {
                    let _g = malloc::guest_mode();
                    unsafe { cb(e0, e1, e2) }
                };
                mh::with(|h| h.cur_task = 0);
                note_code(t, code);
                code
            };
            match act {
                Act::Resume => codes.push(run(mh::EVENT_NONE, 0, 0)),
                Act::Deliver(s) => {
                    let ev = mh::with(|h| {
                        h.cur_task = t;
                        let ev = h.deliver_from_set(s, "callback");
                        h.cur_task = 0;
                        ev
                    });
                    if let Some((e0, e1, e2)) = ev {
                        codes.push(run(e0, e1, e2));
                    }
                }
                Act::Host(a) => mh::with(|h| h.apply(a)),
                Act::Cancel => {
                    cancel = false;
                    cancelled = true;
                    mh::with(|h| h.tasks[t as usize].cancel_delivered = true);
                    codes.push(run(mh::EVENT_CANCEL, 0, 0));
                }
            }
        }
        let seq: Vec<String> = codes.iter().map(|c| match c & 0xf { 0 => "E".to_string(), 1 => "Y".to_string(), 2 => "W".to_string(), o => format!("?{o}") }).collect();
        self.code_seqs.insert(seq.join(""));
        (codes, cancelled, stuck)
    }

    /// task accounting shared by async exports and driver tasks
    fn task_accounting(&mut self, f: &Func, k: usize, t: u32, cancelled: bool, stuck: bool, returns: u32, who: &str) -> bool {
        let (st, host_returns, cancels) = mh::with(|h| {
            let task = &h.tasks[t as usize];
            (task.st, task.returned, task.task_cancel_calls)
        });
        let _ = host_returns;
        self.host.rep.count_n("task_return_calls", returns as u64);
        self.host.rep.count_n("task_cancel_calls", cancels as u64);
        let mut ok = true;
        if stuck || st != TaskSt::Exited {
            self.fail(f, k, &format!("rust-async:host-trap:task-never-exits"), &format!("the {who} task was left suspended ({st:?}) although nothing can wake it any more"));
            self.stop = true;
            return false;
        }
        if returns > 1 {
            self.fail(f, k, "rust-async:export:task-return:twice", &format!("the {who} task called task.return {returns} times"));
            ok = false;
        }
        if returns >= 1 && cancels >= 1 {
            self.fail(f, k, "rust-async:export:task-return:with-cancel", &format!("the {who} task called task.return ({returns}x) and task.cancel ({cancels}x)"));
            ok = false;
        }
        if cancels > 1 {
            self.fail(f, k, "rust-async:export:task-cancel:twice", &format!("the {who} task called task.cancel {cancels} times"));
            ok = false;
        }
        if returns == 0 && cancels == 0 {
            self.fail(f, k, "rust-async:export:task-return:missing", &format!("the {who} task exited without task.return{}", if cancelled { " or task.cancel although the host had cancelled it" } else { "" }));
            ok = false;
        }
        if !cancelled && cancels >= 1 && returns == 0 {
            self.fail(f, k, "rust-async:export:task-cancel:unrequested", &format!("the {who} task called task.cancel although the host never cancelled it"));
            ok = false;
        }
        if cancelled && returns == 0 && cancels == 1 {
            self.host.rep.count("tasks_cancelled_by_host");
        }
        if cancelled && returns == 1 {
            self.host.rep.count("cancel_raced_with_completion");
        }
        ok
    }

    fn leftover_handles(&mut self, f: &Func, k: usize) {
        let left = mh::with(|h| h.live_guest_handles());
        if !left.is_empty() {
            let kinds: Vec<String> = left.iter().map(|l| l.1.split('(').next().unwrap_or("?").to_string()).collect();
            self.fail(f, k, &format!("rust-async:mem:leak:{}:handle-{}", f.dir.name(), kinds[0]), &format!("after the call completed the guest still holds host handles {left:?}"));
        }
    }

    fn begin_call(&mut self, f: &Func, k: usize) {
        let key = key_of(f);
        self.host.rng = Rng::new(seed_for(self.seed, &key, k, "values"));
        self.host.call_key = format!("{key}|{k}");
        mh::reset(false);
        mh::with(|h| h.sub_hook = Some(acall::sub_hook));
        with_acall(|a| {
            *a = Default::default();
        });
    }

    // ------------------------------------------------------------ async export

    fn call_export_async(&mut self, f: &Func, k: usize, entry: &'static ExportEntry, cb: unsafe fn(u32, u32, u32) -> u32) {
        self.host.call_no += 1;
        let key = key_of(f);
        let sig = self.host.abi.signature(&f.params, f.result.as_ref(), SigKind::AsyncLiftCallback);
        if let Err(e) = check_sig(entry.params, &sig.params).and_then(|_| check_sig(entry.results, &sig.results)) {
            self.fail(f, k, "rust-async:export:signature:async-lift", &e);
            return;
        }
        let (mut args, _) = self.host.gen_args(f, false);
        let (result, _) = self.host.gen_result(f, false);
        let mut lent = vec![];
        let mut next_handle = 100 + 10 * (k as u32 % 50);
        for a in args.iter_mut() {
            uniquify_handles(a, &mut next_handle, &mut lent);
        }
        self.host.workload(&args);
        if let Some(r) = &result {
            self.host.workload(std::slice::from_ref(r));
        }
        let sent: Vec<String> = args.iter().map(|v| self.host.text(v)).collect();
        let scripted = result.as_ref().map(|v| self.host.text(v));
        obs::clear();
        obs::push_script(scripted.clone().unwrap_or_default());
        if !lent.is_empty() {
            self.host.rep.count("async_export_calls_with_borrows");
            self.host.rep.count_n("borrows_lent", lent.len() as u64);
        }
        let lent_copy = lent.clone();
        // guest-side plan
        let mut prng = Rng::new(seed_for(self.seed, &key, k, "plan"));
        let y0 = [0u32, 0, 1, 2][prng.usize(4)];
        let y1 = [0u32, 0, 1][prng.usize(3)];
        let cancel = (y0 + y1) > 0 && prng.below(100) < self.cancel_pct;
        let plan = format!("export:y{y0}+{y1}{}", if cancel { ":cancel" } else { "" });
        with_acall(|a| {
            a.yields = [y0, y1];
            a.lent = lent_copy.clone();
            a.exp = Some(AExport { tr_link: format!("verif_import|[export]{}|[task-return]{}", f.module, f.name), result: f.result, returns: vec![] });
        });
        sched::begin(vec![], 0, seed_for(self.seed, &key, k, "sched"), 96);
        let before = galloc::snapshot();
        let mut record: Option<(u64, usize, usize)> = None;
        let flat: Result<Vec<CoreVal>, String> = with_shared(|sh| {
            let mem = &mut sh.mem;
            mem.begin_call();
            let abi = &self.host.abi;
            if sig.indirect_params {
                let (size, align) = abi.record_layout(&f.params);
                let base = mem.alloc(size, align)?;
                record = Some((base, size, align));
                let offs = abi.field_offsets(&f.params);
                for ((v, t), o) in args.iter().zip(&f.params).zip(offs) {
                    abi.store(mem, v, t, base + o as u64)?;
                }
                Ok(vec![if PTR == 4 { CoreVal::I32(base as u32) } else { CoreVal::I64(base) }])
            } else {
                let mut out = vec![];
                for (v, t) in args.iter().zip(&f.params) {
                    out.extend(abi.lower_flat(mem, v, t)?);
                }
                Ok(out)
            }
        });
        let flat = match flat {
            Ok(f) => f,
            Err(e) => {
                self.host.rep.inconclusive(&format!("host could not lower its own arguments: {e}"));
                sched::end();
                return;
            }
        };
        if sig.indirect_params {
            self.host.rep.count("async_export_indirect_params");
        }
        self.set_ctx(f, k, &plan);
        let t = mh::with(|h| {
            let t = h.new_task(false);
            h.cur_task = t;
            h.tasks[t as usize].st = TaskSt::Running;
            t
        });
        let first = {
            let _g = malloc::guest_mode();
            unsafe { (entry.call)(&flat) }
        };
        mh::with(|h| h.cur_task = 0);
        let first = first.map(|v| v.bits() as u32).unwrap_or(0);
        let (codes, cancelled, stuck) = self.drive(t, first, cb, cancel);
        let after = galloc::snapshot();
        self.host.rep.eval();
        self.host.rep.count("async_export_calls");
        self.host.rep.count_n("callbacks", codes.len() as u64);
        let vector = self.end_schedule(&plan);
        let class = self.host.heap_class(f);
        self.host.ctx(f, "after", &class);
        if self.host_trap(f, k) {
            return;
        }
        let ex = with_acall(|a| a.exp.take()).unwrap();
        let unexpected = with_acall(|a| std::mem::take(&mut a.unexpected));
        for u in unexpected {
            self.fail(f, k, "rust-async:export:dispatch:unexpected-import", &format!("`{u}` was called during this export call"));
        }
        let ok = self.task_accounting(f, k, t, cancelled, stuck, ex.returns.len() as u32, "export");
        if self.stop {
            return;
        }
        if !lent.is_empty() {
            let (held, dropped, bad, events) = with_acall(|a| (a.held_at_return.clone(), a.dropped.clone(), a.bad_drops.clone(), a.borrow_events.clone()));
            self.host.rep.count("borrow_accounting_checks");
            if let Some(h) = held {
                if !h.is_empty() {
                    self.fail(f, k, "rust-async:export:task-return:borrow-still-held", &format!("task.return was called while the borrowed handles {h:?} lent to this call were still held (a trap in the canonical ABI); host log: {events:?}"));
                }
            }
            let never: Vec<u32> = lent.iter().copied().filter(|h| !dropped.contains(h)).collect();
            if !never.is_empty() {
                self.fail(f, k, "rust-async:export:borrow:never-dropped", &format!("the task exited without dropping the borrowed handles {never:?}; host log: {events:?}"));
            }
            if !bad.is_empty() {
                self.fail(f, k, "rust-async:export:borrow:dropped-twice-or-unknown", &format!("resource.drop of handles {bad:?} that were not lent to this call or were already dropped; host log: {events:?}"));
            }
        }
        // observations of the user implementation
        let log = obs::take_log();
        let mut seen_args = vec![];
        let mut enters = 0;
        for e in &log {
            match e {
                obs::Event::Enter(_) => enters += 1,
                obs::Event::Arg(a) => seen_args.push(a.clone()),
                _ => {}
            }
        }
        let args_observed = !(cancelled && seen_args.is_empty() && y0 > 0);
        if enters != 1 {
            self.fail(f, k, "rust-async:export:dispatch:entered", &format!("the user implementation was entered {enters} times for one call"));
        } else if args_observed {
            if seen_args.len() != sent.len() {
                self.fail(f, k, "rust-async:export:dispatch:arguments", &format!("the user implementation received {} arguments, the host sent {}", seen_args.len(), sent.len()));
            } else {
                for (i, (ty, exp)) in f.params.iter().zip(&sent).enumerate() {
                    let got = seen_args[i].clone();
                    self.judge(f, k, "param", ty, i, exp, &got);
                }
            }
        }
        let returned = ex.returns.len();
        if returned >= 1 {
            match (&ex.returns[0], &f.result, &scripted) {
                (Ok(Some(v)), Some(ty), Some(scripted)) => {
                    let got = self.host.text(v);
                    self.judge(f, k, "result", ty, 0, scripted, &got);
                }
                (Ok(None), None, _) => {}
                (Err(e), ty, _) => {
                    let class = ty.as_ref().map(|t| rplan::focus(&rplan::shape_class(&self.host.abi, t, 0))).unwrap_or_else(|| "-".into());
                    let msg = format!("async export `{}`: the host could not lift the task.return value: {e} [opts {}]", key, self.host.tables.opts);
                    self.differs(f, k, "result", 0, format!("rust-async:export:result:{class}"), msg, &format!("unliftable:{e}"), json!({"error": e}));
                }
                _ => self.fail(f, k, "rust-async:export:dispatch:result-arity", "task.return value and the function's result type do not agree"),
            }
            if obs::script_len() != 0 {
                self.fail(f, k, "rust-async:export:dispatch:script", "the user implementation did not consume its scripted result");
            }
        }
        let _ = ok;
        let what = if cancelled && returned == 0 { "cancelled-export" } else { "export" };
        self.balance(f, k, before, after, what, record);
        self.leftover_handles(f, k);
        obs::clear();
        self.sample(f, k, &sent, scripted.as_deref(), &plan, &vector, &codes);
        self.distinct(f, "async-export");
    }

    // ------------------------------------------------------------ async import

    fn call_import_async(&mut self, f: &Func, k: usize, idx: usize) {
        self.host.call_no += 1;
        let key = key_of(f);
        let entry = &self.host.tables.imports[idx];
        let link = entry.link;
        let Some(driver) = entry.driver else {
            self.host.rep.inconclusive("no public Rust function wraps an async import declaration (no driver)");
            return;
        };
        let task_driver = self.at.task_drivers.iter().find(|d| d.0 == link).map(|d| d.1);
        let sig = self.host.abi.signature(&f.params, f.result.as_ref(), SigKind::AsyncLower);
        if let Err(e) = check_sig(entry.params, &sig.params).and_then(|_| check_sig(entry.results, &sig.results)) {
            self.fail(f, k, "rust-async:import:signature:async-lower", &e);
            return;
        }
        let (args, _) = self.host.gen_args(f, false);
        let (result, _) = self.host.gen_result(f, false);
        self.host.workload(&args);
        if let Some(r) = &result {
            self.host.workload(std::slice::from_ref(r));
        }
        let scripted: Vec<String> = args.iter().map(|v| self.host.text(v)).collect();
        let host_result = result.as_ref().map(|v| self.host.text(v));
        obs::clear();
        for s in &scripted {
            obs::push_script(s.clone());
        }
        let mut prng = Rng::new(seed_for(self.seed, &key, k, "plan"));
        let as_task = task_driver.is_some() && prng.chance(1, 2);
        let cancel = as_task && prng.below(100) < self.cancel_pct;
        let plan = format!("import:{}{}", if as_task { "task" } else { "block_on" }, if cancel { ":cancel" } else { "" });
        with_acall(|a| {
            a.imp = Some(AImport {
                link: link.to_string(),
                params: f.params.clone(),
                result: f.result,
                result_val: result.clone(),
                calls: 0,
                flat: vec![],
                early: None,
                late: None,
                reads: 0,
                writes: 0,
                lower_error: None,
                start_status: None,
                token: 0,
            })
        });
        with_shared(|sh| sh.mem.begin_call());
        sched::begin(vec![], 0, seed_for(self.seed, &key, k, "sched"), 96);
        let before = galloc::snapshot();
        self.set_ctx(f, k, &plan);
        let mut cancelled = false;
        let mut codes = vec![];
        if as_task {
            let t = mh::with(|h| {
                let t = h.new_task(false);
                h.cur_task = t;
                h.tasks[t as usize].st = TaskSt::Running;
                t
            });
            let first = {
                let _g = malloc::guest_mode();
                (task_driver.unwrap())()
            };
            mh::with(|h| h.cur_task = 0);
            let (c, was_cancelled, stuck) = self.drive(t, first, self.at.rt_callback, cancel);
            codes = c;
            cancelled = was_cancelled;
            let returns = with_acall(|a| a.driver_returns);
            if !mh::with(|h| h.violated()) {
                self.task_accounting(f, k, t, cancelled, stuck, returns, "import-driver");
            }
        } else {
            let _g = malloc::guest_mode();
            driver();
        }
        let after = galloc::snapshot();
        self.host.rep.eval();
        self.host.rep.count("async_import_calls");
        self.host.rep.count(if as_task { "async_import_calls_as_task" } else { "async_import_calls_block_on" });
        let vector = self.end_schedule(&plan);
        let class = self.host.heap_class(f);
        self.host.ctx(f, "after", &class);
        if self.host_trap(f, k) || self.stop {
            return;
        }
        let p = with_acall(|a| a.imp.take()).unwrap();
        let unexpected = with_acall(|a| std::mem::take(&mut a.unexpected));
        for u in unexpected {
            self.fail(f, k, "rust-async:import:dispatch:unexpected-import", &format!("`{u}` was called during this import call"));
        }
        if let Some(e) = &p.lower_error {
            self.host.rep.inconclusive(&format!("host could not lower its own result: {e}"));
            return;
        }
        // what the mock host saw of the subtask
        let rec = mh::with(|h| h.subcalls.first().cloned());
        if let Some(r) = &rec {
            let statuses: Vec<u32> = r.seen.iter().map(|s| s.0).collect();
            self.host.rep.count(&format!("subtask_start_status_{}", ["starting", "started", "returned", "started-cancelled", "returned-cancelled"][(p.start_status.unwrap_or(2) as usize).min(4)]));
            self.host.rep.count_n("subtask_events", r.seen.iter().filter(|s| s.1 == "event").count() as u64);
            self.host.rep.count_n("subtask_cancels", r.cancels as u64);
            if r.handle != 0 && r.drops != 1 {
                self.fail(f, k, "rust-async:import:subtask-drop:not-exactly-once", &format!("subtask.drop was called {} times for one async import call (statuses {statuses:?})", r.drops));
            }
        }
        let was_cancelled_early = cancelled && p.calls == 0;
        if p.calls != 1 && !was_cancelled_early {
            self.fail(f, k, "rust-async:import:dispatch:calls", &format!("the binding called its import {} times for one call", p.calls));
        }
        if p.reads > 1 || p.writes > 1 {
            self.host.rep.inconclusive("harness: the mock host read parameters / wrote results more than once");
        }
        match &p.early {
            Some(Ok(vals)) => {
                for (i, ((t, exp), v)) in f.params.iter().zip(&scripted).zip(vals).enumerate() {
                    let got = self.host.text(v);
                    self.judge(f, k, "param", t, i, exp, &got);
                }
                // the parameters as the callee reads them when it starts
                match &p.late {
                    Some(Ok(late)) => {
                        self.host.rep.count("params_checked_at_callee_start");
                        if p.start_status == Some(mh::STATUS_STARTING) {
                            self.host.rep.count("params_checked_at_callee_start_after_starting");
                        }
                        let a: Vec<String> = vals.iter().map(|v| self.host.text(v)).collect();
                        let b: Vec<String> = late.iter().map(|v| self.host.text(v)).collect();
                        if a != b {
                            let msg = format!("async import `{}`: the lowered parameters changed between the call and the moment the callee started: at call {} at start {} [opts {}]", key, trunc(&a.join(" ; "), 500), trunc(&b.join(" ; "), 500), self.host.tables.opts);
                            self.differs(f, k, "params-at-start", 0, "rust-async:import:params-clobbered-before-start".into(), msg, &b.join(";"), json!({"at_call": a, "at_start": b}));
                        }
                    }
                    Some(Err(e)) => {
                        let msg = format!("async import `{}`: the lowered parameters could be lifted at the call but not when the callee started: {e} [opts {}]", key, self.host.tables.opts);
                        self.differs(f, k, "params-at-start", 0, "rust-async:import:params-clobbered-before-start".into(), msg, &format!("unliftable:{e}"), json!({"error": e}));
                    }
                    None => {}
                }
            }
            Some(Err(e)) => {
                let class = f.params.first().map(|t| rplan::focus(&rplan::shape_class(&self.host.abi, t, 0))).unwrap_or_else(|| "-".into());
                let msg = format!("async import `{}`: the host could not lift the arguments: {e} [opts {}]", key, self.host.tables.opts);
                self.differs(f, k, "param", 0, format!("rust-async:import:param:{class}"), msg, &format!("unliftable:{e}"), json!({"error": e}));
            }
            None => {}
        }
        let log = obs::take_log();
        let rets: Vec<&String> = log.iter().filter_map(|e| if let obs::Event::Ret(r) = e { Some(r) } else { None }).collect();
        let completed = !cancelled || with_acall(|a| a.driver_returns) > 0;
        if completed {
            match (&f.result, &host_result, rets.as_slice()) {
                (Some(ty), Some(exp), [got]) => {
                    let got = (*got).clone();
                    self.judge(f, k, "result", ty, 0, exp, &got);
                }
                (None, _, [_]) | (None, _, []) => {}
                (_, _, other) => self.fail(f, k, "rust-async:import:dispatch:results", &format!("the driver logged {} results", other.len())),
            }
            if p.writes != 1 && p.calls == 1 {
                self.fail(f, k, "rust-async:import:dispatch:completed-without-return", &format!("the call completed although the callee returned {} times", p.writes));
            }
        } else if !rets.is_empty() {
            self.fail(f, k, "rust-async:import:dispatch:result-after-cancel", "the cancelled call produced a result");
        }
        let what = if cancelled && !completed {
            let st = rec.as_ref().and_then(|r| r.seen.last().map(|s| s.0));
            match st {
                Some(mh::STATUS_STARTED_CANCELLED) => "cancelled-before-start",
                Some(mh::STATUS_RETURNED_CANCELLED) => "cancelled-after-start",
                Some(mh::STATUS_RETURNED) => "cancel-raced-with-return",
                _ => "cancelled",
            }
        } else {
            "import"
        };
        if cancelled && !completed {
            self.host.rep.count(&format!("async_import_{}", what.replace('-', "_")));
        }
        self.balance(f, k, before, after, what, None);
        self.leftover_handles(f, k);
        obs::clear();
        self.sample(f, k, &scripted, host_result.as_deref(), &plan, &vector, &codes);
        self.distinct(f, "async-import");
    }

    fn distinct(&mut self, f: &Func, kind: &str) {
        let key = format!("{kind}|{}|{}|{}|{}", key_of(f), f.params.iter().map(|t| self.host.abi.shape_key(t)).collect::<Vec<_>>().join(","), f.result.as_ref().map(|t| self.host.abi.shape_key(t)).unwrap_or_default(), self.host.tables.opts);
        if self.host.keyed.insert(key.clone()) {
            self.host.rep.distinct(&key);
        }
    }

    fn sample(&mut self, f: &Func, k: usize, args: &[String], result: Option<&str>, plan: &str, vector: &[u32], codes: &[u32]) {
        if self.samples_left > 0 && (vector.len() > 1 || codes.len() > 1) {
            self.samples_left -= 1;
            self.host.rep.sample(json!({"world": self.host.world_tag, "func": key_of(f), "set": k, "opts": self.host.tables.opts, "plan": plan, "choice_vector": vector,
                "callback_codes": codes, "args": args.iter().map(|a| trunc(a, 200)).collect::<Vec<_>>(), "result": result.map(|r| trunc(r, 200))}));
        }
    }

    fn call(&mut self, f: &Func, k: usize) {
        self.begin_call(f, k);
        match self.mode_of(f) {
            Mode::SyncExport => {
                self.host.call_export(f, false);
                self.host.rep.count("sync_calls");
            }
            Mode::SyncImport => {
                self.host.call_import(f, false);
                self.host.rep.count("sync_calls");
            }
            Mode::AsyncExport(e, cb) => self.call_export_async(f, k, e, cb),
            Mode::AsyncImport(i) => self.call_import_async(f, k, i),
            Mode::Missing => self.host.rep.inconclusive("a function of the world has neither a sync nor an async symbol in the generated bindings"),
        }
        self.host.call_key.clear();
    }
}

/// give every handle in the arguments its own index (a real host creates one
/// handle-table entry per lent borrow); returns the indices
fn uniquify_handles(v: &mut Val, next: &mut u32, out: &mut Vec<u32>) {
    match v {
        Val::Handle(h) => {
            *h = *next;
            out.push(*next);
            *next += 1;
        }
        Val::List(xs) | Val::Record(xs) => xs.iter_mut().for_each(|x| uniquify_handles(x, next, out)),
        Val::Map(xs) => xs.iter_mut().for_each(|(k, x)| {
            uniquify_handles(k, next, out);
            uniquify_handles(x, next, out)
        }),
        Val::Variant(_, Some(p)) => uniquify_handles(p, next, out),
        _ => {}
    }
}

/// every handle inside `ty` is a `borrow<R>`
fn only_borrows(abi: &Abi, ty: &Type, depth: usize) -> bool {
    use cabi_ref::{HandleKind, Shape};
    if depth > 8 {
        return false;
    }
    match abi.shape(ty) {
        Shape::Handle(HandleKind::Borrow) => true,
        Shape::Handle(_) => false,
        Shape::List(t) | Shape::FixedList(t, _) => only_borrows(abi, &t, depth + 1),
        Shape::Map(k, v) => only_borrows(abi, &k, depth + 1) && only_borrows(abi, &v, depth + 1),
        Shape::Record(fs) => fs.iter().all(|f| only_borrows(abi, f, depth + 1)),
        Shape::Variant(cs, _) => cs.iter().flatten().all(|f| only_borrows(abi, f, depth + 1)),
        _ => true,
    }
}

fn note_code(t: u32, code: u32) {
    mh::with(|h| {
        let task = &mut h.tasks[t as usize];
        task.codes.push(code);
        task.callbacks += 1;
        let st = match code & 0xf {
            0 if code == 0 => TaskSt::Exited,
            1 if code == 1 => TaskSt::Yielded,
            2 => {
                let s = code >> 4;
                if !matches!(h.table.get(s as usize), Some(Some(mh::Obj::Set { .. }))) {
                    h.trap(mh::TrapKind::UnknownHandle, format!("callback returned WAIT({s}) but {s} is not a waitable set"));
                }
                TaskSt::Waiting(s)
            }
            _ => {
                h.trap(mh::TrapKind::Other, format!("callback returned unknown code {code:#x}"));
                TaskSt::Exited
            }
        };
        h.tasks[t as usize].st = st;
    });
}

/// Main of every async-mode test crate.
pub fn run(tables: &'static Tables, at: &'static AsyncTables) {
    galloc::set_tracking(false);
    malloc::set_mode_hook(|guest| {
        galloc::set_tracking(guest);
    });
    let args = Args::parse();
    let seed = args.seed();
    let sets = args.u64("sets", 8) as usize;
    let world_tag = args.str("world", "w");
    let mut rep = Report::new("one evaluation = one call through the generated bindings (async export: lower, [async-lift] entry, callbacks per returned code, task.return lifted by the host; async import: driver under block_on or as a task, subtask schedule from the mock host's choice oracle; sync functions as in C05); distinct = (binding kind, function, canonical shape key of parameter and result types, generator options)");
    rep.max_samples = 4;
    let (resolve, world) = {
        let mut resolve = Resolve::default();
        resolve.all_features = true;
        let pkg = resolve.push_str("world.wit", tables.wit).expect("the world's WIT must parse");
        let world = resolve.select_world(&[pkg], Some(tables.world)).expect("world");
        (resolve, world)
    };
    let view = rplan::world_view(&resolve, world);
    let opts: Value = serde_json::from_str(tables.opts).unwrap_or(Value::Null);
    let raw_strings = opts.get("raw_strings").and_then(|v| v.as_bool()).unwrap_or(false);
    let alloc_ok = galloc::installed();
    if !alloc_ok {
        rep.inconclusive("the checking allocator is not installed: heap balance not observed");
    }
    let reference: Option<BTreeMap<String, String>> = args.get("ref").and_then(|p| std::fs::read_to_string(p).ok()).and_then(|s| serde_json::from_str::<Value>(&s).ok()).map(|v| {
        v["mismatches"].as_array().map(|a| a.iter().filter_map(|e| Some((e[0].as_str()?.to_string(), e[1].as_str()?.to_string()))).collect()).unwrap_or_default()
    });
    SHARED.with(|s| *s.borrow_mut() = Some(Shared { resolve: &resolve, tables, pending: None, unexpected: vec![], mem: ProcMem::new() }));
    let host = Host {
        tables,
        resolve: &resolve,
        abi: Abi::new(&resolve, PTR),
        view,
        raw_strings,
        rng: Rng::new(seed),
        rep,
        exports: tables.exports.iter().map(|e| (e.name, e)).collect(),
        imports: tables.imports.iter().enumerate().map(|(i, e)| (e.link, i)).collect(),
        call_no: 0,
        seed,
        max_list: args.u64("max-list", 4) as usize,
        big: 0,
        world_tag,
        alloc_ok,
        samples_left: 1,
        verbose: args.get("verbose").is_some(),
        class_cache: BTreeMap::new(),
        keyed: Default::default(),
        call_key: String::new(),
        mismatches: vec![],
    };
    let mut ctl = Ctl { host, at, seed, reference, cancel_pct: args.u64("cancel-pct", 25), vectors: Default::default(), code_seqs: Default::default(), stop: false, samples_left: 3 };
    let funcs: Vec<Func> = ctl.host.view.funcs.clone();
    let mut usable = vec![];
    for f in funcs {
        let handle = f.params.iter().chain(f.result.iter()).any(|t| type_has_handle(&ctl.host.abi, t, 0));
        // handles are only admitted as `borrow<imported resource>` parameters of exports (the
        // "no borrow outlives task.return" rule); everything else with handles is C07 territory
        let borrows_ok = f.dir == Dir::Export
            && f.resource().is_none()
            && f.result.as_ref().map(|t| !type_has_handle(&ctl.host.abi, t, 0)).unwrap_or(true)
            && f.params.iter().all(|t| only_borrows(&ctl.host.abi, t, 0))
            && ctl.host.view.resources.iter().all(|r| r.dir == Dir::Import);
        if (handle && !borrows_ok) || f.resource().is_some() {
            ctl.host.rep.count("skipped_handle_functions");
            continue;
        }
        usable.push(f);
    }
    let mut kinds: BTreeMap<&'static str, u64> = BTreeMap::new();
    for f in &usable {
        let k = match ctl.mode_of(f) {
            Mode::SyncExport => "sync_export",
            Mode::SyncImport => "sync_import",
            Mode::AsyncExport(..) => "async_export",
            Mode::AsyncImport(_) => "async_import",
            Mode::Missing => "missing",
        };
        *kinds.entry(k).or_insert(0) += 1;
    }
    let only = args.get("only").map(|s| s.to_string());
    if usable.is_empty() {
        ctl.host.rep.inconclusive("world has no callable handle-free function");
    }
    'outer: for k in 0..sets {
        for f in &usable {
            if let Some(o) = &only {
                if !key_of(f).contains(o.as_str()) {
                    continue;
                }
            }
            ctl.call(f, k);
            if ctl.stop {
                ctl.host.rep.inconclusive("the run of this world ended early after a host trap");
                break 'outer;
            }
        }
    }
    let unexpected = with_shared(|sh| std::mem::take(&mut sh.unexpected));
    for u in unexpected {
        ctl.host.rep.inconclusive(&format!("import `{u}` was called while the host expected no such call"));
    }
    let (allocs, frees, _) = galloc::stats();
    ctl.host.rep.count_n("guest_heap_allocations", allocs as u64);
    ctl.host.rep.count_n("guest_heap_frees", frees as u64);
    ctl.host.rep.extra.insert("pointer_widths".into(), json!([PTR * 8]));
    ctl.host.rep.extra.insert("functions_by_binding_kind".into(), json!(kinds));
    ctl.host.rep.extra.insert("schedule_hashes".into(), json!(ctl.vectors.iter().map(|v| format!("{v:016x}")).collect::<Vec<_>>()));
    ctl.host.rep.extra.insert("callback_code_sequences".into(), json!(ctl.code_seqs));
    if let Some(p) = args.get("dump") {
        let v = json!({"mismatches": ctl.host.mismatches});
        let _ = std::fs::write(p, serde_json::to_string(&v).unwrap());
    }
    let out = args.out();
    let rep = std::mem::take(&mut ctl.host.rep);
    drop(ctl);
    SHARED.with(|s| *s.borrow_mut() = None);
    mh::reset(false);
    obs::clear();
    rep.write(&out);
    eprintln!("CTX {}", json!({"phase": "done"}));
}
