//! Per-call state shared between the planner, the `verif_import|..` symbols the
//! guest calls (`[async-lower]f`, `[task-return]f`) and rt-host's subtask hook.
use cabi_ref::{Abi, CoreVal, SigKind, Val};
use rsguest_host::run::{with_shared, PTR};
use rt_host::alloc as malloc;
use rt_host::host as mh;
use std::cell::RefCell;
use wit_parser::{Resolve, Type};

/// An async-lowered import call in flight.
pub struct AImport {
    /// `verif_import|<module>|[async-lower]<name>`
    pub link: String,
    pub params: Vec<Type>,
    pub result: Option<Type>,
    pub result_val: Option<Val>,
    /// how often the binding called the import
    pub calls: u32,
    /// flat core arguments of the call (params.., results pointer)
    pub flat: Vec<CoreVal>,
    /// parameters lifted at the moment of the call
    pub early: Option<Result<Vec<Val>, String>>,
    /// parameters lifted when the callee started (the moment a real host reads them)
    pub late: Option<Result<Vec<Val>, String>>,
    pub reads: u32,
    pub writes: u32,
    pub lower_error: Option<String>,
    /// status returned by the call itself
    pub start_status: Option<u32>,
    pub token: u32,
}

/// An async-lifted export call in flight.
pub struct AExport {
    /// `verif_import|[export]<module>|[task-return]<name>`
    pub tr_link: String,
    pub result: Option<Type>,
    /// every `task.return` the guest made: the lifted value (None: no result type)
    pub returns: Vec<Result<Option<Val>, String>>,
}

#[derive(Default)]
pub struct ACall {
    /// suspension points of the running async export body: before the arguments
    /// are observed / after the result was built
    pub yields: [u32; 2],
    pub yields_done: [u32; 2],
    pub imp: Option<AImport>,
    pub exp: Option<AExport>,
    /// `task.return` of a driver task (async import run as a task)
    pub driver_returns: u32,
    pub unexpected: Vec<String>,
    /// phase label for CTX lines printed from inside host callbacks
    pub ctx_prefix: String,
    /// borrow handles (of imported resources) lent to the running async export call
    pub lent: Vec<u32>,
    /// ... and those the guest has dropped so far (`resource.drop`)
    pub dropped: Vec<u32>,
    /// borrows still held at the moment of `task.return` (a trap in the canonical ABI)
    pub held_at_return: Option<Vec<u32>>,
    /// `resource.drop` of a handle that was not lent / already dropped
    pub bad_drops: Vec<u32>,
    pub borrow_events: Vec<String>,
}

thread_local! {
    pub static ACALL: RefCell<ACall> = RefCell::new(ACall::default());
}

pub fn with_acall<R>(f: impl FnOnce(&mut ACall) -> R) -> R {
    ACALL.with(|a| f(&mut a.borrow_mut()))
}

fn ctx_phase(phase: &str) {
    let p = with_acall(|a| a.ctx_prefix.clone());
    if !p.is_empty() {
        eprintln!("CTX {}", p.replace("\"phase\":\"call\"", &format!("\"phase\":\"{phase}\"")));
    }
}

/// Entry points called by the generated glue while guest code runs.
pub mod guest {
    use super::*;
    /// how many times the async export body suspends at `phase`
    pub fn yields(phase: u32) -> u32 {
        let _g = malloc::host_mode();
        with_acall(|a| {
            let n = a.yields[phase as usize & 1];
            a.yields_done[phase as usize & 1] = n;
            n
        })
    }
    /// the driver task of an async import finished its body
    pub fn driver_task_return() {
        let _g = malloc::host_mode();
        with_acall(|a| a.driver_returns += 1);
        mh::with(|h| h.task_return(0));
    }
}

fn resolve_and<R>(f: impl FnOnce(&Abi, &mut rsguest_host::mem::ProcMem) -> R) -> R {
    with_shared(|sh| {
        let resolve: &Resolve = unsafe { &*sh.resolve };
        let abi = Abi::new(resolve, PTR);
        f(&abi, &mut sh.mem)
    })
}

fn lift_params(params: &[Type], result: Option<&Type>, flat: &[CoreVal]) -> Result<Vec<Val>, String> {
    resolve_and(|abi, mem| {
        let sig = abi.signature(params, result, SigKind::AsyncLower);
        let nparams = if sig.retptr { flat.len().saturating_sub(1) } else { flat.len() };
        if sig.indirect_params {
            let base = match flat.first() {
                Some(v) => v.bits(),
                None => return Err("no parameter pointer".to_string()),
            };
            let offs = abi.field_offsets(params);
            let mut out = vec![];
            for (t, o) in params.iter().zip(offs) {
                out.push(abi.load(mem, t, base + o as u64)?);
            }
            Ok(out)
        } else {
            let mut it = flat[..nparams].iter();
            let mut out = vec![];
            for t in params {
                out.push(abi.lift_flat(mem, &mut it, t)?);
            }
            if it.next().is_some() {
                return Err("more flat arguments than the canonical ABI defines".to_string());
            }
            Ok(out)
        }
    })
}

/// rt-host calls this when the callee of the async import call starts
/// (`write == false`: the host lifts the lowered parameters *now*) and when it
/// returns (`write == true`: the host lowers the result into the guest's result
/// area *now*).  Runs inside `mh::with`.
pub fn sub_hook(_token: u32, write: bool) {
    let snap = with_acall(|a| a.imp.as_ref().map(|i| (i.params.clone(), i.result, i.result_val.clone(), i.flat.clone())));
    let Some((params, result, result_val, flat)) = snap else { return };
    if !write {
        ctx_phase("host-reads-params-at-start");
        let late = lift_params(&params, result.as_ref(), &flat);
        with_acall(|a| {
            if let Some(i) = a.imp.as_mut() {
                i.late = Some(late);
                i.reads += 1;
            }
        });
        ctx_phase("call");
    } else {
        ctx_phase("host-writes-results-at-return");
        let mut err = None;
        if let (Some(ty), Some(val)) = (&result, &result_val) {
            let rp = flat.last().map(|v| v.bits()).unwrap_or(0);
            if let Err(e) = resolve_and(|abi, mem| abi.store(mem, val, ty, rp)) {
                err = Some(e);
            }
        }
        with_acall(|a| {
            if let Some(i) = a.imp.as_mut() {
                i.writes += 1;
                if err.is_some() {
                    i.lower_error = err;
                }
            }
        });
        ctx_phase("call");
    }
}

fn async_lower_called(link: &str, flat: &[CoreVal]) -> Option<CoreVal> {
    let known = with_acall(|a| match a.imp.as_mut() {
        Some(i) if i.link == link => {
            i.calls += 1;
            i.flat = flat.to_vec();
            Some((i.params.clone(), i.result, i.calls))
        }
        _ => {
            if a.unexpected.len() < 8 {
                a.unexpected.push(link.to_string());
            }
            None
        }
    });
    let Some((params, result, calls)) = known else {
        // answer "returned" so that the guest can wind down
        return Some(CoreVal::I32(mh::STATUS_RETURNED));
    };
    if calls > 1 {
        return Some(CoreVal::I32(mh::STATUS_RETURNED));
    }
    let early = lift_params(&params, result.as_ref(), flat);
    with_acall(|a| a.imp.as_mut().unwrap().early = Some(early));
    // the mock host decides the schedule (immediate RETURNED / STARTING / STARTED); reading the
    // parameters and writing the results happen through `sub_hook`
    let (packed, token) = mh::with(|h| h.subtask_start());
    with_acall(|a| {
        let i = a.imp.as_mut().unwrap();
        i.start_status = Some(packed & 0xf);
        i.token = token;
    });
    Some(CoreVal::I32(packed))
}

fn task_return_called(link: &str, flat: &[CoreVal]) -> Option<CoreVal> {
    let known = with_acall(|a| match a.exp.as_ref() {
        Some(e) if e.tr_link == link => Some(e.result),
        _ => {
            if a.unexpected.len() < 8 {
                a.unexpected.push(link.to_string());
            }
            None
        }
    });
    let Some(result) = known else { return None };
    with_acall(|a| {
        if !a.lent.is_empty() && a.held_at_return.is_none() {
            let held: Vec<u32> = a.lent.iter().copied().filter(|h| !a.dropped.contains(h)).collect();
            a.held_at_return = Some(held);
        }
        a.borrow_events.push("task.return".to_string());
    });
    ctx_phase("host-lifts-task-return");
    let lifted: Result<Option<Val>, String> = match &result {
        None => {
            if flat.is_empty() {
                Ok(None)
            } else {
                Err(format!("task.return of a function without result was given {} core values", flat.len()))
            }
        }
        Some(ty) => resolve_and(|abi, mem| {
            let sig = abi.signature(&[], Some(ty), SigKind::TaskReturn);
            if flat.len() != sig.params.len() {
                return Err(format!("task.return was given {} core values, the canonical ABI defines {}", flat.len(), sig.params.len()));
            }
            if sig.indirect_params {
                abi.load(mem, ty, flat[0].bits()).map(Some)
            } else {
                let mut it = flat.iter();
                abi.lift_flat(mem, &mut it, ty).map(Some)
            }
        }),
    };
    with_acall(|a| a.exp.as_mut().unwrap().returns.push(lifted));
    // the mock host's own accounting (traps on a second task.return / after task.cancel);
    // only the first one is forwarded so that a duplicate is reported by the planner with its
    // own signature instead of poisoning the rest of the execution
    let first = with_acall(|a| a.exp.as_ref().unwrap().returns.len() == 1);
    if first {
        mh::with(|h| h.task_return(0));
    }
    ctx_phase("call");
    None
}

/// Entry point of every `verif_import|..` symbol of an async-mode glue.
pub fn import_called(index: usize, flat: &[CoreVal]) -> Option<CoreVal> {
    let _g = malloc::host_mode();
    let link: &'static str = with_shared(|sh| sh.tables.imports[index].link);
    if link.contains("|[async-lower]") {
        async_lower_called(link, flat)
    } else if link.contains("|[task-return]") {
        task_return_called(link, flat)
    } else if link.contains("|[resource-drop]") {
        // borrow accounting of the running async export call (resources are only used as
        // borrowed parameters of exports in C08 worlds)
        let h = flat.first().map(|v| v.bits() as u32).unwrap_or(0);
        with_acall(|a| {
            if a.exp.is_some() {
                if a.lent.contains(&h) && !a.dropped.contains(&h) {
                    a.dropped.push(h);
                } else {
                    a.bad_drops.push(h);
                }
                a.borrow_events.push(format!("resource.drop({h})"));
            }
        });
        None
    } else {
        rsguest_host::import_called(index, flat)
    }
}
