//! c08-host: reference host for the *async* bindings of the rsguest echo machine
//! (property C08).
//!
//! The test binary links
//!   * the generated bindings + glue (`rsguest gen --mode async`),
//!   * `rsguest-host` (cabi-ref value oracle over live process memory, the
//!     checking allocator's heap balance) for *values*,
//!   * `rt-host` (mock component-model host: waitable sets, subtasks, context
//!     slot, `task.return`/`task.cancel` accounting, choice oracle) for the
//!     canonical built-ins the async runtime imports (hook H2).
//!
//! Call plan: for value set `k` and function `f` the arguments / results are a
//! pure function of (`--seed`, direction, module, name, `k`), whatever the
//! binding mode of `f` — so the sync variant of a world (everything bound sync)
//! and every async variant see the same values, and the mismatches of the sync
//! run (`--dump`) are the reference (`--ref`) the async run is judged against:
//! an async observation that differs from the reference host in exactly the way
//! the sync binding does is not a C08 matter.
//!
//! Host schedule of one call = the choice vector of rt-host's oracle (seeded per
//! call) + the guest-side plan chosen here (suspension points of an async export
//! body, block_on vs task driver for an async import, cancellation).
pub mod acall;
pub mod plan;

pub use acall::{guest, import_called};
pub use plan::run;

/// Glue-provided entry points that only exist in async mode.
pub struct AsyncTables {
    /// `[callback][async-lift]<export>` symbols
    pub callbacks: &'static [(&'static str, unsafe fn(u32, u32, u32) -> u32)],
    /// for every `[async-lower]` import link: a driver that runs the import's
    /// wrapper as a task (`start_task`), returning the first callback code
    pub task_drivers: &'static [(&'static str, fn() -> u32)],
    /// `wit_bindgen::rt::async_support::callback` (for driver tasks)
    pub rt_callback: unsafe fn(u32, u32, u32) -> u32,
}
