//! The independent host of checks C10/C11: linked (staticlib) with the
//! generated C bindings of one world and its echo machine.  It is the
//! component-model side of every call: it lowers/lifts with `cabi-ref`
//! (pointer width 8 = the native width the C code was compiled for), scripts
//! the values, keeps the allocation ledger and the resource tables, and judges.
//!
//! Single-threaded and re-entrant (host -> C -> host): state lives behind raw
//! globals and no reference is held across a call into C.
#![allow(static_mut_refs)]
use cabi_ref::{Abi, CoreTy, CoreVal, GenCfg, Memory, Shape, SigKind, StringEncoding, Val};
use cguest::emit::*;
use cguest::plan::{self, FuncRef, Opts, ResRef};
use cguest::tokens::{self, DecodeError, Reader, Tok};
use serde_json::{json, Value};
use std::collections::{BTreeMap, BTreeSet, VecDeque};
use std::ffi::{c_char, c_void, CStr};
use std::io::Write;
use wit_parser::{Handle, Resolve, Type, TypeDefKind, TypeId, WorldId};

extern "C" {
    fn malloc(n: usize) -> *mut c_void;
    fn free(p: *mut c_void);
    fn realloc(p: *mut c_void, n: usize) -> *mut c_void;
    fn mmap(addr: *mut c_void, len: usize, prot: i32, flags: i32, fd: i32, off: i64) -> *mut c_void;
    // provided by the echo machine
    fn cg_guest_realloc(p: *mut c_void, old: usize, align: usize, new: usize) -> *mut c_void;
    fn cg_call_export(idx: u32, args: *const u64, ret: *mut u64);
    fn cg_call_post_return(idx: u32, args: *const u64);
    fn cg_drive_import(idx: u32);
    fn cg_guest_drop_own(res: u32, h: i32);
    fn cg_call_dtor(res: u32, rep: i32);
}

// ------------------------------------------------------------------ ledger

#[derive(Clone, Debug)]
struct Block {
    size: usize,
    seq: u64,
}

#[derive(Default)]
struct Ledger {
    live: BTreeMap<usize, Block>,
    seq: u64,
    /// frees / reallocs of pointers that are not live guest blocks
    anomalies: Vec<String>,
    freed_recently: BTreeMap<usize, u64>,
    mallocs: u64,
    frees: u64,
    bytes: u64,
    phase: &'static str,
}

static mut LEDGER: Option<Ledger> = None;

fn ledger() -> &'static mut Ledger {
    unsafe {
        if LEDGER.is_none() {
            LEDGER = Some(Ledger { phase: "idle", ..Default::default() });
        }
        LEDGER.as_mut().unwrap()
    }
}

#[no_mangle]
pub unsafe extern "C" fn cg_malloc(n: usize) -> *mut c_void {
    let p = malloc(if n == 0 { 1 } else { n });
    let l = ledger();
    l.seq += 1;
    l.mallocs += 1;
    l.bytes += n as u64;
    l.freed_recently.remove(&(p as usize));
    l.live.insert(p as usize, Block { size: n, seq: l.seq });
    p
}

#[no_mangle]
pub unsafe extern "C" fn cg_calloc(a: usize, b: usize) -> *mut c_void {
    let n = a.saturating_mul(b);
    let p = cg_malloc(n);
    std::ptr::write_bytes(p as *mut u8, 0, n);
    p
}

#[no_mangle]
pub unsafe extern "C" fn cg_free(p: *mut c_void) {
    if p.is_null() {
        return;
    }
    let l = ledger();
    match l.live.remove(&(p as usize)) {
        Some(_) => {
            l.frees += 1;
            l.seq += 1;
            l.freed_recently.insert(p as usize, l.seq);
            free(p);
        }
        None => {
            let how = if l.freed_recently.contains_key(&(p as usize)) { "double free" } else { "free of a pointer that is not a live guest block" };
            l.anomalies.push(format!("{how}: {:#x} during {}", p as usize, l.phase));
        }
    }
}

#[no_mangle]
pub unsafe extern "C" fn cg_realloc(p: *mut c_void, n: usize) -> *mut c_void {
    if p.is_null() {
        return cg_malloc(n);
    }
    let l = ledger();
    if l.live.remove(&(p as usize)).is_none() {
        l.anomalies.push(format!("realloc of a pointer that is not a live guest block: {:#x} during {}", p as usize, l.phase));
        return cg_malloc(n);
    }
    let q = realloc(p, if n == 0 { 1 } else { n });
    let l = ledger();
    l.seq += 1;
    l.freed_recently.remove(&(q as usize));
    l.live.insert(q as usize, Block { size: n, seq: l.seq });
    q
}

/// identity of one allocation: (address, allocation sequence number) -- the
/// address alone is reused by the allocator as soon as a block is freed
type BlockId = (usize, u64);

fn live_set() -> BTreeSet<BlockId> {
    ledger().live.iter().map(|(p, b)| (*p, b.seq)).collect()
}

fn purge_to(base: &BTreeSet<BlockId>) {
    let extra: Vec<usize> = ledger().live.iter().filter(|(p, b)| !base.contains(&(**p, b.seq))).map(|(p, _)| *p).collect();
    for p in extra {
        ledger().live.remove(&p);
        unsafe { free(p as *mut c_void) };
    }
    ledger().anomalies.clear();
}

// ------------------------------------------------------------- guest memory

struct GuestMem {
    trusted: Vec<(u64, u64)>,
}

impl GuestMem {
    fn check(&self, addr: u64, len: usize) -> Result<(), String> {
        if len == 0 {
            return Ok(());
        }
        let end = addr.checked_add(len as u64).ok_or("address overflow")?;
        for (a, n) in &self.trusted {
            if addr >= *a && end <= a + n {
                return Ok(());
            }
        }
        if let Some((p, b)) = ledger().live.range(..=(addr as usize)).next_back() {
            if end as usize <= p + b.size {
                return Ok(());
            }
            if (addr as usize) < p + b.size {
                return Err(format!("guest range {addr:#x}+{len} runs past the end of its {}-byte block", b.size));
            }
        }
        Err(format!("guest range {addr:#x}+{len} is not inside a live guest allocation"))
    }
}

impl Memory for GuestMem {
    fn read(&self, addr: u64, len: usize) -> Result<Vec<u8>, String> {
        self.check(addr, len)?;
        if len == 0 {
            return Ok(vec![]);
        }
        Ok(unsafe { std::slice::from_raw_parts(addr as usize as *const u8, len) }.to_vec())
    }
    fn write(&mut self, addr: u64, bytes: &[u8]) -> Result<(), String> {
        self.check(addr, bytes.len())?;
        if !bytes.is_empty() {
            unsafe { std::ptr::copy_nonoverlapping(bytes.as_ptr(), addr as usize as *mut u8, bytes.len()) };
        }
        Ok(())
    }
    fn alloc(&mut self, size: usize, align: usize) -> Result<u64, String> {
        let p = unsafe { cg_guest_realloc(std::ptr::null_mut(), 0, align, size) };
        if size > 0 && (p as usize) % align != 0 {
            return Err(format!("cabi_realloc returned {:#x}, not aligned to {align}", p as usize));
        }
        Ok(p as usize as u64)
    }
}

// ------------------------------------------------------------------- state

#[derive(Clone, Debug)]
struct Entry {
    res: usize,
    own: bool,
    /// exported resources: the rep; imported: 0
    rep: u32,
    /// the export call this borrow / own was lent or given for
    call: Option<u64>,
}

#[derive(Clone, Debug)]
struct RepState {
    res: usize,
    id: u32,
    live: bool,
    destroyed: u32,
    dtor_skipped: bool,
}

#[derive(Default)]
struct ResTables {
    table: BTreeMap<u32, Entry>,
    next: u32,
    dropped: BTreeSet<u32>,
    /// exported objects the host currently owns (by rep)
    host_owned: Vec<(usize, u32)>,
    /// own handles of imported resources sitting in the guest's table that nobody consumed yet
    guest_owned: Vec<(usize, u32)>,
    /// live own handles the guest holds that no export call is ever lent
    bystanders: Vec<(usize, u32)>,
    reps: BTreeMap<u32, RepState>,
    arena: usize,
    arena_off: usize,
    next_id: u32,
    drops: u64,
    dtors: u64,
}

#[derive(PartialEq, Clone, Copy, Debug)]
enum Dir {
    Export,
    Import,
}

struct Call {
    id: u64,
    dir: Dir,
    fi: usize,
    set: u64,
    args: Vec<Val>,
    result: Option<Val>,
    base: BTreeSet<BlockId>,
    /// blocks allocated for arguments (host-made for exports, echo-made for imports)
    a_blocks: BTreeSet<BlockId>,
    indirect_area: Option<usize>,
    r_blocks: BTreeSet<BlockId>,
    tokens_before: Vec<Tok>,
    failed: bool,
    import_seen: bool,
    ret_bits: u64,
    /// handle indices lent / given to the guest for this (export) call
    lent: BTreeSet<u32>,
}

struct Host {
    resolve: Resolve,
    world: WorldId,
    funcs: Vec<FuncRef>,
    resources: Vec<ResRef>,
    plan: Value,
    opts: Opts,
    wit: String,
    seed: u64,
    mode_c11: bool,
    report: vkit::Report,
    script: VecDeque<Tok>,
    obs: Vec<Tok>,
    call: Option<Call>,
    next_call: u64,
    res: ResTables,
    progress: Option<std::fs::File>,
    viol_count: usize,
    protocol_errors: Vec<String>,
    world_hash: u64,
}

static mut HOST: Option<Box<Host>> = None;

fn h() -> &'static mut Host {
    unsafe { HOST.as_mut().expect("host not initialised") }
}

fn abi() -> Abi<'static> {
    let hh = h();
    let r: &'static Resolve = unsafe { &*(&hh.resolve as *const Resolve) };
    let mut a = Abi::new(r, 8);
    if hh.opts.utf16 {
        a.enc = StringEncoding::Utf16;
    }
    a
}

fn progress(s: &str) {
    if let Some(f) = h().progress.as_mut() {
        let _ = writeln!(f, "{s}");
        let _ = f.flush();
    }
}

fn func_label(fi: usize) -> String {
    let f = &h().funcs[fi];
    format!("{} {}::{}", if f.import { "import" } else { "export" }, f.module, f.func.name)
}

fn replay_json(fi: usize, set: u64, extra: Value) -> Value {
    let hh = h();
    json!({
        "wit": hh.wit, "opts": hh.opts.label(), "seed": hh.seed, "func_index": fi, "func": func_label(fi), "set": set,
        "detail": extra,
    })
}

fn violation(sig: &str, what: &str, extra: Value) {
    let (fi, set) = match &h().call {
        Some(c) => (c.fi, c.set),
        None => (usize::MAX, 0),
    };
    let rp = if fi == usize::MAX { json!({"wit": h().wit, "opts": h().opts.label(), "seed": h().seed, "detail": extra}) } else { replay_json(fi, set, extra) };
    let what = if fi == usize::MAX { what.to_string() } else { format!("{} [{} set {}; options {}]", what, func_label(fi), set, h().opts.label()) };
    progress(&format!("VIOLATION {sig} {what}"));
    if !h().report.has_violation(sig) {
        h().viol_count += 1;
    }
    h().report.violation(sig, &what, rp);
    h().report.count(&format!("violation_events:{sig}"));
    if let Some(c) = h().call.as_mut() {
        c.failed = true;
    }
}

fn call_failed() -> bool {
    h().call.as_ref().map_or(true, |c| c.failed)
}

fn inconclusive(why: &str) {
    h().report.inconclusive(why);
    if let Some(c) = h().call.as_mut() {
        c.failed = true;
    }
}

fn suffix() -> &'static str {
    if h().opts.utf16 {
        ":utf16"
    } else {
        ""
    }
}

// ------------------------------------------------------------ C entry points

#[no_mangle]
pub extern "C" fn cg_put_u64(v: u64) {
    h().obs.push(Tok::U(v));
}

#[no_mangle]
pub unsafe extern "C" fn cg_put_bytes(p: *const u8, n: usize) {
    if n > 0 {
        if let Err(e) = (GuestMem { trusted: vec![] }).check(p as usize as u64, n) {
            h().obs.push(Tok::Bad(e));
            return;
        }
    }
    let v = if n == 0 || p.is_null() { vec![] } else { std::slice::from_raw_parts(p, n).to_vec() };
    h().obs.push(Tok::B(v));
}

#[no_mangle]
pub extern "C" fn cg_check_range(p: *const u8, count: usize, size: usize) -> i32 {
    if count == 0 {
        return 1;
    }
    let bad = match count.checked_mul(size) {
        None => Some(format!("length {count} x element size {size} overflows")),
        Some(n) => (GuestMem { trusted: vec![] }).check(p as usize as u64, n).err(),
    };
    match bad {
        None => 1,
        Some(e) => {
            h().obs.push(Tok::Bad(format!("pointer/length pair ({:#x}, {count}) received by the guest code is not valid: {e}", p as usize)));
            0
        }
    }
}

fn host_panicked(where_: &str) {
    h().protocol_errors.push(format!("the host panicked in {where_} (see stderr)"));
    if let Some(c) = h().call.as_mut() {
        c.failed = true;
    }
}

#[no_mangle]
pub extern "C" fn cg_get_u64() -> u64 {
    match h().script.pop_front() {
        Some(Tok::U(x)) => x,
        other => {
            h().protocol_errors.push(format!("script underflow/mismatch: wanted a number, had {other:?}"));
            0
        }
    }
}

#[no_mangle]
pub unsafe extern "C" fn cg_get_bytes(dst: *mut u8, n: usize) {
    match h().script.pop_front() {
        Some(Tok::B(b)) if b.len() == n => {
            if n > 0 && !dst.is_null() {
                std::ptr::copy_nonoverlapping(b.as_ptr(), dst, n);
            }
        }
        other => h().protocol_errors.push(format!("script mismatch: wanted {n} bytes, had {other:?}")),
    }
}

#[no_mangle]
pub extern "C" fn cg_host_unexpected(what: u32, idx: u32) {
    h().protocol_errors.push(format!("unexpected call into the harness: kind {what} index {idx}"));
}

fn decode_obs(tys: &[Type]) -> Result<Vec<Val>, DecodeError> {
    let a = abi();
    let mut q: VecDeque<Tok> = std::mem::take(&mut h().obs).into();
    let mut out = vec![];
    for t in tys {
        let mut r = Reader { toks: &mut q };
        out.push(tokens::decode(&a, t, &mut r)?);
    }
    if !q.is_empty() {
        return Err(DecodeError::Protocol(format!("{} tokens left over", q.len())));
    }
    Ok(out)
}

/// Compare what one side sent with what the other side saw.
fn compare(dir: &str, pos: &str, tys: &[Type], want: &[Val], got: Result<Vec<Val>, DecodeError>) {
    let a = abi();
    match got {
        Err(DecodeError::Protocol(e)) => {
            h().protocol_errors.push(format!("{dir} {pos}: {e}"));
            inconclusive("harness protocol error while reading an observation");
        }
        Err(DecodeError::Invalid { what, class }) => {
            let texts: Vec<String> = want.iter().map(|v| v.text()).collect();
            violation(
                &format!("c-e2e:{dir}:{pos}:{class}{}", if class == "string" { suffix() } else { "" }),
                &format!("{dir} {pos}: the receiving side observed an invalid value ({what}); sent {}", texts.join(" ")),
                json!({"sent": texts, "invalid": what}),
            );
        }
        Ok(got) => {
            for (i, ((t, w), g)) in tys.iter().zip(want).zip(&got).enumerate() {
                if w == g {
                    continue;
                }
                if tokens::differs_only_in_nan(w, g) {
                    inconclusive("NaN payload changed in transit (canonicalisation is permitted)");
                    return;
                }
                let mut path = String::new();
                let (class, path) = tokens::first_diff(&a, t, w, g, &mut path).unwrap_or(("value".into(), String::new()));
                violation(
                    &format!("c-e2e:{dir}:{pos}:{class}{}", if class == "string" { suffix() } else { "" }),
                    &format!("{dir} {pos} #{i} (type shape {}) changed in transit at `{path}`: sent {} observed {}", a.shape_key(t), w.text(), g.text()),
                    json!({"index": i, "sent": w.text(), "observed": g.text(), "path": path}),
                );
                return;
            }
        }
    }
}

fn param_types(fi: usize) -> Vec<Type> {
    h().funcs[fi].func.params.iter().map(|p| p.ty).collect()
}

fn anomalies_since(mark: usize) -> Vec<String> {
    ledger().anomalies[mark.min(ledger().anomalies.len())..].to_vec()
}

fn describe(ps: &BTreeSet<BlockId>) -> String {
    let l = ledger();
    let mut v: Vec<usize> = ps.iter().map(|p| l.live.get(&p.0).map_or(0, |b| b.size)).collect();
    v.sort();
    let v: Vec<String> = v.iter().take(8).map(|x| x.to_string()).collect();
    format!("{} block(s) of {} bytes", ps.len(), v.join("/"))
}

static mut ANOMALY_MARK: usize = 0;

/// Name the cause of a leak left behind by generated `*_free` helpers, using the
/// generator-side static scan of the helpers (plan.json `omissions`): a helper
/// that does not call the helper of a member whose type owns memory.
fn free_helper_leak_sig(fi: usize) -> (String, String, bool) {
    let oms = h().plan["funcs"][fi]["omissions"].as_array().cloned().unwrap_or_default();
    if oms.is_empty() {
        return ("c-mem:leak:free-helper:other".into(), String::new(), false);
    }
    let desc: Vec<String> = oms.iter().map(|o| format!("`{}` free helper: member of type `{}` {}", o["parent"].as_str().unwrap_or("?"), o["member"].as_str().unwrap_or("?"), o["kind"].as_str().unwrap_or("?"))).collect();
    let all_shared = oms.iter().all(|o| o["shared_anon"].as_bool().unwrap_or(false));
    if all_shared {
        ("c-mem:leak:free-helper:shared-anonymous-type".into(), desc.join("; "), true)
    } else if oms.iter().any(|o| o["kind"] == "missing-helper") {
        ("c-mem:leak:free-helper:missing-helper".into(), desc.join("; "), false)
    } else {
        ("c-mem:leak:free-helper:nested-helper-not-called".into(), desc.join("; "), false)
    }
}

/// report a free-helper leak; a leak with a pinned-down static cause does not
/// stop the rest of the call from being judged (the leftovers are released here)
fn report_free_helper_leak(fi: usize, what: String, left: &BTreeSet<BlockId>) {
    let (sig, why, tolerate) = free_helper_leak_sig(fi);
    let was_failed = call_failed();
    violation(&sig, &format!("{what}{}{why}", if why.is_empty() { "" } else { " -- static scan of the generated helpers: " }), json!({"left": left.len(), "cause": why}));
    if tolerate && !was_failed {
        if let Some(c) = h().call.as_mut() {
            c.failed = false;
        }
        for p in left {
            if ledger().live.remove(&p.0).is_some() {
                unsafe { free(p.0 as *mut c_void) };
            }
        }
    }
}

#[no_mangle]
pub extern "C" fn cg_event(kind: u32, idx: u32) -> i32 {
    match std::panic::catch_unwind(|| cg_event_inner(kind, idx)) {
        Ok(r) => r,
        Err(_) => {
            host_panicked("cg_event");
            0
        }
    }
}

fn cg_event_inner(kind: u32, idx: u32) -> i32 {
    let fi = idx as usize;
    if h().call.as_ref().map_or(true, |c| c.fi != fi) {
        h().protocol_errors.push(format!("event {kind} for function {idx} outside its call"));
        return 0;
    }
    let c11 = h().mode_c11;
    match kind {
        EV_EXPORT_ARGS => {
            let tys = param_types(fi);
            let got = decode_obs(&tys);
            if !call_failed() {
                let want = h().call.as_ref().unwrap().args.clone();
                compare("export", "param", &tys, &want, got);
            }
        }
        EV_EXPORT_FREE_BEGIN => {
            ledger().phase = "free-helper";
            unsafe { ANOMALY_MARK = ledger().anomalies.len() };
        }
        EV_EXPORT_FREE_END => {
            ledger().phase = "export-wrapper";
            if c11 && !call_failed() {
                let an = anomalies_since(unsafe { ANOMALY_MARK });
                if !an.is_empty() {
                    violation("c-mem:double-free:free-helper", &format!("releasing the arguments of an export with the generated *_free helpers: {}", an.join("; ")), json!({"anomalies": an}));
                } else {
                    let c = h().call.as_ref().unwrap();
                    let mut left: BTreeSet<BlockId> = live_set().intersection(&c.a_blocks).copied().collect();
                    if let Some(p) = c.indirect_area {
                        left.retain(|x| x.0 != p);
                    }
                    if !left.is_empty() {
                        let what = format!("after the generated *_free helpers released every argument of the export, {} of the arguments are still allocated", describe(&left));
                        report_free_helper_leak(fi, what, &left);
                    }
                }
            }
        }
        EV_EXPORT_RESULT_BUILT => {
            if !h().script.is_empty() {
                h().protocol_errors.push(format!("export result script not fully consumed ({} tokens left)", h().script.len()));
                inconclusive("harness protocol error (script not consumed)");
            }
            let c = h().call.as_mut().unwrap();
            let now = live_set();
            c.r_blocks = now.difference(&c.base).copied().filter(|p| !c.a_blocks.contains(p)).collect();
        }
        EV_IMPORT_ARGS_BEFORE => {
            let tys = param_types(fi);
            let toks = h().obs.clone();
            let got = decode_obs(&tys);
            let c = h().call.as_mut().unwrap();
            c.tokens_before = toks;
            let now = live_set();
            c.a_blocks = now.difference(&c.base).copied().collect();
            // echo self-consistency: what it built from the script is what it serialises
            match got {
                Ok(g) if g == c.args => {}
                Ok(g) => {
                    let t: Vec<String> = g.iter().map(|v| v.text()).collect();
                    h().protocol_errors.push(format!("echo machine built different import arguments than scripted: {t:?}"));
                    inconclusive("harness self-check failed (echo de/ser round trip)");
                }
                Err(e) => {
                    h().protocol_errors.push(format!("echo machine import argument observation unreadable: {e:?}"));
                    inconclusive("harness self-check failed (echo de/ser round trip)");
                }
            }
            ledger().phase = "import-wrapper";
            unsafe { ANOMALY_MARK = ledger().anomalies.len() };
        }
        EV_IMPORT_RETURNED => {
            ledger().phase = "echo";
            if call_failed() {
                return 0;
            }
            if !h().call.as_ref().unwrap().import_seen {
                violation("c-e2e:import:param:call-missing", "the import binding returned without calling the core import", json!({}));
                return 0;
            }
            let an = anomalies_since(unsafe { ANOMALY_MARK });
            let c = h().call.as_ref().unwrap();
            let now = live_set();
            let gone: BTreeSet<BlockId> = c.a_blocks.difference(&now).copied().collect();
            if !gone.is_empty() || !an.is_empty() {
                if c11 {
                    violation(
                        "c-mem:arg-freed:import-wrapper",
                        &format!("the import binding freed memory of its arguments (the caller keeps ownership): {} argument block(s) gone; {}", gone.len(), an.join("; ")),
                        json!({"gone": gone.len(), "anomalies": an}),
                    );
                } else {
                    inconclusive("import binding freed argument memory (judged by C11)");
                }
                return 0;
            }
            if c11 {
                let expected: BTreeSet<BlockId> = c.base.union(&c.a_blocks).copied().chain(c.r_blocks.iter().copied()).collect();
                let extra: BTreeSet<BlockId> = now.difference(&expected).copied().collect();
                if !extra.is_empty() {
                    violation("c-mem:leak:import-wrapper", &format!("the import binding allocated memory it did not hand to the caller: {}", describe(&extra)), json!({}));
                    return 0;
                }
                let lost: BTreeSet<BlockId> = c.r_blocks.difference(&now).copied().collect();
                if !lost.is_empty() {
                    violation("c-mem:result-freed:import-wrapper", &format!("the import binding freed {} block(s) of the result it returns to the caller", lost.len()), json!({}));
                    return 0;
                }
            }
        }
        EV_IMPORT_ARGS_AFTER => {
            let toks = std::mem::take(&mut h().obs);
            if c11 && !call_failed() && toks != h().call.as_ref().unwrap().tokens_before {
                violation("c-mem:arg-modified:import-wrapper", "the arguments of an import differ after the call (they must be left untouched)", json!({}));
            }
        }
        EV_IMPORT_RESULT => {
            let f = &h().funcs[fi];
            let tys: Vec<Type> = f.func.result.iter().copied().collect();
            let got = decode_obs(&tys);
            if !call_failed() {
                let want: Vec<Val> = h().call.as_ref().unwrap().result.iter().cloned().collect();
                compare("import", "result", &tys, &want, got);
            }
            ledger().phase = "free-helper";
            unsafe { ANOMALY_MARK = ledger().anomalies.len() };
        }
        EV_IMPORT_RESULT_FREED => {
            if c11 && !call_failed() {
                let an = anomalies_since(unsafe { ANOMALY_MARK });
                let c = h().call.as_ref().unwrap();
                let left: BTreeSet<BlockId> = live_set().intersection(&c.r_blocks).copied().collect();
                if !an.is_empty() {
                    violation("c-mem:double-free:free-helper", &format!("freeing an import's result with the generated helper: {}", an.join("; ")), json!({"anomalies": an}));
                } else if !left.is_empty() {
                    let what = format!("after freeing an import's result with the generated *_free helper {} of the result are still allocated", describe(&left));
                    report_free_helper_leak(fi, what, &left);
                } else {
                    let gone: BTreeSet<BlockId> = c.a_blocks.difference(&live_set()).copied().collect();
                    if !gone.is_empty() {
                        violation("c-mem:over-free:free-helper", "freeing an import's result also freed blocks of the arguments", json!({}));
                    }
                }
            }
            unsafe { ANOMALY_MARK = ledger().anomalies.len() };
        }
        EV_IMPORT_ARGS_FREED => {
            if c11 && !call_failed() {
                let an = anomalies_since(unsafe { ANOMALY_MARK });
                let c = h().call.as_ref().unwrap();
                let left: BTreeSet<BlockId> = live_set().difference(&c.base).copied().collect();
                if !an.is_empty() {
                    violation("c-mem:double-free:free-helper", &format!("freeing import arguments with the generated helpers: {}", an.join("; ")), json!({"anomalies": an}));
                } else if !left.is_empty() {
                    let what = format!("after freeing the import's arguments with the generated *_free helpers {} are still allocated", describe(&left));
                    report_free_helper_leak(fi, what, &left);
                }
            }
            ledger().phase = "echo";
        }
        _ => h().protocol_errors.push(format!("unknown event {kind}")),
    }
    // 0 tells the echo machine to stop touching the values of this call
    (!call_failed()) as i32
}

fn core_val(t: CoreTy, bits: u64) -> CoreVal {
    CoreVal::from_bits(t, bits)
}

/// the core import of function `idx` was called by the generated binding
#[no_mangle]
pub unsafe extern "C" fn cg_host_import(idx: u32, args: *const u64, nargs: u32, ret: *mut u64) {
    let raw: Vec<u64> = (0..nargs as usize).map(|i| *args.add(i)).collect();
    let mut r: u64 = 0;
    if std::panic::catch_unwind(std::panic::AssertUnwindSafe(|| cg_host_import_inner(idx, &raw, &mut r))).is_err() {
        host_panicked("cg_host_import");
    }
    *ret = r;
}

fn cg_host_import_inner(idx: u32, raw: &[u64], ret: &mut u64) {
    let nargs = raw.len() as u32;
    let fi = idx as usize;
    if h().call.as_ref().map_or(true, |c| c.fi != fi || c.dir != Dir::Import) {
        h().protocol_errors.push(format!("core import {idx} called outside its driver"));
        return;
    }
    h().call.as_mut().unwrap().import_seen = true;
    if call_failed() {
        return;
    }
    let a = abi();
    let f = h().funcs[fi].clone();
    let tys = param_types(fi);
    let sig = a.signature(&tys, f.func.result.as_ref(), SigKind::SyncLower);
    if sig.params.len() != nargs as usize {
        inconclusive("core import arity differs from the reference signature");
        return;
    }
    let mut mem = GuestMem { trusted: vec![] };
    // ---- lift the parameters
    let lifted: Result<Vec<Val>, String> = (|| {
        let mut out = vec![];
        if sig.indirect_params {
            let (size, _) = a.record_layout(&tys);
            mem.trusted.push((raw[0], size as u64));
            let offs = a.field_offsets(&tys);
            for (t, o) in tys.iter().zip(offs) {
                out.push(a.load(&mem, t, raw[0] + o as u64)?);
            }
        } else {
            let n = if sig.retptr { sig.params.len() - 1 } else { sig.params.len() };
            let cv: Vec<CoreVal> = sig.params[..n].iter().zip(raw.iter()).map(|(t, b)| core_val(*t, *b)).collect();
            let mut it = cv.iter();
            for t in &tys {
                out.push(a.lift_flat(&mem, &mut it, t)?);
            }
        }
        Ok(out)
    })();
    let want = h().call.as_ref().unwrap().args.clone();
    match lifted {
        Err(e) => {
            violation(
                &format!("c-e2e:import:param:unliftable"),
                &format!("the host could not lift the arguments the import binding passed: {e}; scripted {}", want.iter().map(|v| v.text()).collect::<Vec<_>>().join(" ")),
                json!({"error": e}),
            );
            return;
        }
        Ok(got) => {
            let got = res_check_lifted_import_args(fi, &tys, got);
            compare("import", "param", &tys, &want, Ok(got));
        }
    }
    if call_failed() {
        return;
    }
    // ---- lower the scripted result
    let before = live_set();
    if let (Some(rt), Some(rv)) = (f.func.result.as_ref(), h().call.as_ref().unwrap().result.clone()) {
        let r: Result<(), String> = (|| {
            if sig.retptr {
                let p = *raw.last().unwrap();
                mem.trusted.push((p, a.elem_size(rt) as u64));
                if p as usize % a.alignment(rt) != 0 {
                    return Err(format!("return pointer {p:#x} is not aligned to {}", a.alignment(rt)));
                }
                a.store(&mut mem, &rv, rt, p)
            } else {
                let flat = a.lower_flat(&mut mem, &rv, rt)?;
                if flat.len() == 1 {
                    *ret = flat[0].bits();
                }
                Ok(())
            }
        })();
        if let Err(e) = r {
            violation("c-e2e:import:result:unstorable", &format!("the host could not store the import's result: {e}"), json!({"error": e}));
        }
    }
    let now = live_set();
    h().call.as_mut().unwrap().r_blocks = now.difference(&before).copied().collect();
}

// ---------------------------------------------------------------- resources

const PROT_RW: i32 = 3;
const MAP_PRIVATE_ANON_32BIT: i32 = 0x02 | 0x20 | 0x40;

fn res_by_type(fi: usize, rid: TypeId) -> Option<usize> {
    let hh = h();
    let f = &hh.funcs[fi];
    let exported = plan::resource_is_exported(&hh.resolve, hh.world, f.import, f.iface.is_none(), rid);
    let id = plan::dealias_id(&hh.resolve, rid);
    hh.resources.iter().find(|r| r.id == id && r.exported == exported).map(|r| r.idx)
}

fn res_name(res: usize) -> String {
    let r = &h().resources[res];
    format!("{}{}/{}", if r.exported { "exported " } else { "imported " }, r.module, r.name)
}

fn new_index(e: Entry) -> u32 {
    let t = &mut h().res;
    t.next += 1;
    let i = t.next;
    t.table.insert(i, e);
    i
}

#[no_mangle]
pub unsafe extern "C" fn cg_rep_alloc(res: u32) -> *mut c_void {
    let t = &mut h().res;
    if t.arena == 0 {
        let p = mmap(std::ptr::null_mut(), 1 << 22, PROT_RW, MAP_PRIVATE_ANON_32BIT, -1, 0);
        if p as isize == -1 || (p as usize) >= (1usize << 31) {
            h().protocol_errors.push("no MAP_32BIT arena".into());
            return std::ptr::null_mut();
        }
        t.arena = p as usize;
        t.arena_off = 16;
    }
    let p = t.arena + t.arena_off;
    t.arena_off += 16;
    t.next_id += 1;
    let id = t.next_id;
    *(p as *mut u32) = 0xC0FFEE;
    *((p + 4) as *mut u32) = id;
    t.reps.insert(p as u32, RepState { res: res as usize, id, live: true, destroyed: 0, dtor_skipped: false });
    p as *mut c_void
}

#[no_mangle]
pub extern "C" fn cg_rep_seen(res: u32, rep: *const c_void, id: u32) {
    let ok = match h().res.reps.get(&(rep as usize as u32)) {
        Some(r) => (rep as usize) < (1usize << 32) && r.live && r.res == res as usize && r.id == id,
        None => false,
    };
    if !ok && !call_failed() {
        violation(
            "c-res:wrong-object",
            &format!("the guest was handed {:#x} as a {} object, which is not a live object of that resource", rep as usize, res_name(res as usize)),
            json!({}),
        );
    }
}

#[no_mangle]
pub extern "C" fn cg_rep_destroyed(res: u32, rep: *const c_void, _id: u32) {
    let key = rep as usize as u32;
    let name = res_name(res as usize);
    match h().res.reps.get_mut(&key) {
        Some(r) if r.live => {
            r.live = false;
            r.destroyed += 1;
        }
        Some(r) => {
            r.destroyed += 1;
            violation("c-res:double-destroy", &format!("the destructor of {name} ran twice for the same object"), json!({}));
        }
        None => violation("c-res:destroy-unknown", &format!("the destructor of {name} ran for {:#x}, which is not an object", rep as usize), json!({})),
    }
}

#[no_mangle]
pub extern "C" fn cg_host_resource_new(res: u32, rep: i32) -> i32 {
    let key = rep as u32;
    let ok = matches!(h().res.reps.get(&key), Some(r) if r.live && r.res == res as usize);
    if !ok {
        violation("c-res:new-bad-rep", &format!("[resource-new] of {} received rep {:#x}, not the object the guest created", res_name(res as usize), key), json!({}));
    }
    new_index(Entry { res: res as usize, own: true, rep: key, call: None }) as i32
}

#[no_mangle]
pub extern "C" fn cg_host_resource_rep(res: u32, handle: i32) -> i32 {
    match h().res.table.get(&(handle as u32)) {
        Some(e) if e.res == res as usize && e.own => e.rep as i32,
        _ => {
            violation("c-res:unknown-handle:rep", &format!("[resource-rep] of {} called with handle {handle}, which is not a live own handle of that resource", res_name(res as usize)), json!({}));
            0
        }
    }
}

/// the canonical ABI's `resource.drop`, and the host's own drop of an exported object
fn run_dtor(res: usize, rep: u32) {
    let r = h().resources[res].clone();
    let expected = format!("{}#[dtor]{}", r.module, r.name);
    let emitted = h().plan["resources"][res]["dtor_export_name"].as_str().map(|s| s.to_string());
    if emitted.as_deref() == Some(expected.as_str()) {
        h().res.dtors += 1;
        unsafe { cg_call_dtor(res as u32, rep as i32) };
    } else {
        // the component model looks the destructor up under `expected`; an export
        // under any other name is never called
        if let Some(s) = h().res.reps.get_mut(&rep) {
            s.dtor_skipped = true;
        }
        h().report.count("dtor_lookups_failed");
        h().report.extra.insert("dtor_name_mismatch".into(), json!({"expected": expected, "emitted": emitted}));
    }
}

#[no_mangle]
pub extern "C" fn cg_host_resource_drop(res: u32, handle: i32) {
    let hidx = handle as u32;
    h().res.drops += 1;
    // while an export runs, the guest may only drop what that call lent or gave it
    let in_export = h().call.as_ref().map_or(None, |c| if c.dir == Dir::Export { Some((c.id, c.lent.contains(&hidx))) } else { None });
    if let Some((id, was_lent)) = in_export {
        let entry = h().res.table.get(&hidx).cloned();
        let mine = matches!(&entry, Some(e) if e.call == Some(id));
        if !mine && !was_lent {
            let state = match &entry {
                Some(e) => format!("a live {} handle of {} that this call was never lent", if e.own { "own" } else { "borrow" }, res_name(e.res)),
                None => "not a handle the host ever lent to this call (not live)".to_string(),
            };
            violation(
                "c-res:drop-of-handle-not-lent",
                &format!("during an export call the bindings called [resource-drop] of {} on handle {handle}: {state}", res_name(res as usize)),
                json!({"handle": handle}),
            );
            return;
        }
    }
    match h().res.table.get(&hidx).cloned() {
        Some(e) if e.res == res as usize => {
            h().res.table.remove(&hidx);
            h().res.dropped.insert(hidx);
            h().res.guest_owned.retain(|x| x.1 != hidx);
            if e.own && h().resources[e.res].exported {
                run_dtor(e.res, e.rep);
            }
        }
        Some(_) => violation("c-res:wrong-type-drop", &format!("[resource-drop] of {} called with a handle of another resource", res_name(res as usize)), json!({})),
        None => {
            if h().res.dropped.contains(&hidx) {
                violation("c-res:double-drop", &format!("handle {handle} of {} was dropped twice", res_name(res as usize)), json!({}));
            } else {
                violation("c-res:unknown-handle:drop", &format!("[resource-drop] of {} called with handle {handle}, which was never issued", res_name(res as usize)), json!({}));
            }
        }
    }
}

/// rewrite every handle leaf of `v` (typed by `ty`) with `f(handle type id)`
fn map_handles(a: &Abi, ty: &Type, v: &Val, f: &mut dyn FnMut(TypeId, u32) -> Result<u32, String>) -> Result<Val, String> {
    Ok(match (a.shape(ty), v) {
        (Shape::Handle(_), Val::Handle(x)) => match a.dealias(ty) {
            Type::Id(id) => Val::Handle(f(id, *x)?),
            _ => return Err("error-context".into()),
        },
        (Shape::List(t), Val::List(xs)) | (Shape::FixedList(t, _), Val::List(xs)) => Val::List(xs.iter().map(|x| map_handles(a, &t, x, f)).collect::<Result<_, _>>()?),
        (Shape::Map(k, vt), Val::Map(xs)) => {
            let mut out = vec![];
            for (p, q) in xs {
                out.push((map_handles(a, &k, p, f)?, map_handles(a, &vt, q, f)?));
            }
            Val::Map(out)
        }
        (Shape::Record(fs), Val::Record(xs)) => Val::Record(fs.iter().zip(xs).map(|(t, x)| map_handles(a, t, x, f)).collect::<Result<_, _>>()?),
        (Shape::Variant(cs, _), Val::Variant(c, Some(p))) => match &cs[*c as usize] {
            Some(t) => Val::Variant(*c, Some(Box::new(map_handles(a, t, p, f)?))),
            None => v.clone(),
        },
        _ => v.clone(),
    })
}

fn handle_info(id: TypeId) -> (TypeId, bool) {
    match &h().resolve.types[id].kind {
        TypeDefKind::Handle(Handle::Own(r)) => (*r, false),
        TypeDefKind::Handle(Handle::Borrow(r)) => (*r, true),
        _ => unreachable!(),
    }
}

/// Give every handle leaf of a scripted value a meaning in the host's tables.
/// `pos`: 0 export param, 1 export result, 2 import param, 3 import result.
fn script_handles(fi: usize, pos: u8, ty: &Type, v: &Val, call: u64) -> Result<Val, String> {
    let a = abi();
    let import = h().funcs[fi].import;
    let mut lent_reps: Vec<u32> = vec![];
    map_handles(&a, ty, v, &mut |hid, _| {
        let (rid, borrow) = handle_info(hid);
        let res = res_by_type(fi, rid).ok_or("resource not in the world's tables")?;
        let exported = h().resources[res].exported;
        Ok(match (pos, borrow, exported) {
            // host gives the guest a fresh own / borrow handle of an imported resource
            (0, false, false) => new_index(Entry { res, own: true, rep: 0, call: Some(call) }),
            (0, true, false) => new_index(Entry { res, own: false, rep: 0, call: Some(call) }),
            // host gives back an object of the guest's own resource
            (0, false, true) => {
                let t = &mut h().res;
                let k = t.host_owned.iter().position(|x| x.0 == res && !lent_reps.contains(&x.1)).ok_or("no object of the exported resource to pass")?;
                let (_, rep) = t.host_owned.remove(k);
                new_index(Entry { res, own: true, rep, call: Some(call) })
            }
            (0, true, true) => {
                let t = &h().res;
                let k = t.host_owned.iter().find(|x| x.0 == res).ok_or("no object of the exported resource to lend")?;
                lent_reps.push(k.1);
                k.1
            }
            // the guest returns a fresh object: unknown handle until it does
            (1, false, true) => 0,
            // the guest returns / passes an own handle of an imported resource it holds
            (1, false, false) | (2, false, false) | (2, true, false) => {
                let i = new_index(Entry { res, own: true, rep: 0, call: None });
                h().res.guest_owned.push((res, i));
                i
            }
            (3, false, false) => new_index(Entry { res, own: true, rep: 0, call: None }),
            _ => return Err(format!("handle in an unexpected position ({pos}, borrow={borrow}, exported={exported})")),
        })
    })
}

/// validate the handles the guest passed to an import (own: transferred to the host)
fn res_check_lifted_import_args(fi: usize, tys: &[Type], got: Vec<Val>) -> Vec<Val> {
    let a = abi();
    let mut out = vec![];
    for (t, v) in tys.iter().zip(got) {
        let r = map_handles(&a, t, &v, &mut |hid, x| {
            let (rid, borrow) = handle_info(hid);
            let res = res_by_type(fi, rid).ok_or("?")?;
            match h().res.table.get(&x).cloned() {
                Some(e) if e.res == res && (e.own || borrow) => {
                    if !borrow {
                        h().res.table.remove(&x);
                        h().res.dropped.insert(x);
                        h().res.guest_owned.retain(|g| g.1 != x);
                    }
                    Ok(x)
                }
                _ => {
                    violation("c-res:unknown-handle:import-arg", &format!("the guest passed handle {x} to {}, which is not a live handle of {}", func_label(fi), res_name(res)), json!({}));
                    Ok(x)
                }
            }
        });
        out.push(r.unwrap_or(v));
    }
    out
}

// ------------------------------------------------------------------ driver

/// a number that collides with the host's handle table: a live handle nobody
/// lent to the call, or a number that is not live at all
fn colliding_number(res: usize, rng: &mut vkit::Rng) -> u32 {
    if rng.chance(1, 2) {
        let live = h().res.bystanders.iter().find(|b| b.0 == res && h().res.table.contains_key(&b.1)).map(|b| b.1);
        match live {
            Some(i) => i,
            None => {
                let i = new_index(Entry { res, own: true, rep: 0, call: None });
                h().res.bystanders.push((res, i));
                h().res.guest_owned.push((res, i));
                i
            }
        }
    } else {
        h().res.next + 1000 + rng.below(50) as u32
    }
}

/// Where a variant/option/result has a `borrow<imported resource>` case, give the
/// scalar payloads of its *sibling* cases (which share the borrow's flat slot)
/// values that collide with handle numbers: only the borrow case lends a handle.
fn collide(a: &Abi, fi: usize, ty: &Type, v: &Val, rng: &mut vkit::Rng) -> Val {
    match (a.shape(ty), v) {
        (Shape::Variant(cases, _), Val::Variant(c, Some(p))) => {
            let bres = cases.iter().flatten().find_map(|t| match a.dealias(t) {
                Type::Id(id) => match &h().resolve.types[id].kind {
                    TypeDefKind::Handle(Handle::Borrow(r)) => res_by_type(fi, *r).filter(|i| !h().resources[*i].exported),
                    _ => None,
                },
                _ => None,
            });
            let Some(t) = &cases[*c as usize] else { return v.clone() };
            let np = match (bres, a.shape(t), &**p) {
                (Some(res), Shape::U32, Val::U32(_)) => Val::U32(colliding_number(res, rng)),
                (Some(res), Shape::S32, Val::S32(_)) => Val::S32(colliding_number(res, rng) as i32),
                (Some(res), Shape::U64, Val::U64(_)) => {
                    let hi = if rng.chance(1, 2) { 0 } else { rng.next() << 32 };
                    Val::U64(hi | colliding_number(res, rng) as u64)
                }
                (Some(res), Shape::S64, Val::S64(_)) => Val::S64(((rng.next() << 32) | colliding_number(res, rng) as u64) as i64),
                _ => collide(a, fi, t, p, rng),
            };
            Val::Variant(*c, Some(Box::new(np)))
        }
        (Shape::List(t), Val::List(xs)) | (Shape::FixedList(t, _), Val::List(xs)) => Val::List(xs.iter().map(|x| collide(a, fi, &t, x, rng)).collect()),
        (Shape::Record(fs), Val::Record(xs)) => Val::Record(fs.iter().zip(xs).map(|(t, x)| collide(a, fi, t, x, rng)).collect()),
        (Shape::Map(k, vt), Val::Map(xs)) => Val::Map(xs.iter().map(|(p, q)| (p.clone(), collide(a, fi, &vt, q, rng))).collect::<Vec<_>>().into_iter().map(|(p, q)| { let _ = &k; (p, q) }).collect()),
        _ => v.clone(),
    }
}

fn values_for(fi: usize, set: u64) -> (Vec<Val>, Option<Val>) {
    let a = abi();
    let hh = h();
    let f = &hh.funcs[fi];
    let mut rng = vkit::Rng::new(hh.seed.wrapping_mul(0x9E37_79B9).wrapping_add(hh.world_hash) ^ ((fi as u64) << 32) ^ set.wrapping_mul(0x1234_5677));
    let cfg = GenCfg { max_list: 4, ..Default::default() };
    let args = f.func.params.iter().map(|p| a.gen_val(&mut rng, &p.ty, &cfg, 0)).collect();
    let res = f.func.result.as_ref().map(|t| {
        // make every top-level case of a result/option/variant appear early
        let alts = a.gen_vals(&mut rng, t, &cfg, 1);
        alts[(set as usize) % alts.len()].clone()
    });
    (args, res)
}

fn plan_core_ok(fi: usize, sig: &cabi_ref::CoreSig) -> bool {
    let p = &h().plan["funcs"][fi]["core"];
    let class = |s: &str| -> Option<CoreTy> {
        let s = s.trim();
        let (base, ptr) = match s.strip_suffix('*') {
            Some(b) => (b.trim(), 1),
            None => (s, 0),
        };
        core_class(&cguest::chdr::CType { base: base.to_string(), ptr })
    };
    // a C pointer parameter stands for a canonical pointer (i64 here) and also for
    // an `i32` slot the generator types as a pointer (the rep of an exported
    // resource: `self` of a method) -- on wasm32 both are i32
    let texts: Vec<String> = p["params"].as_array().map(|v| v.iter().map(|x| x.as_str().unwrap_or("").to_string()).collect()).unwrap_or_default();
    if texts.len() != sig.params.len() {
        return false;
    }
    for (t, want) in texts.iter().zip(&sig.params) {
        let c = class(t);
        let is_ptr = t.trim_end().ends_with('*');
        if !(c == Some(*want) || (is_ptr && *want == CoreTy::I32)) {
            return false;
        }
    }
    match (p["ret"].as_str(), sig.results.first()) {
        (None, None) => true,
        (Some(r), Some(t)) => class(r) == Some(*t),
        _ => false,
    }
}

fn begin_call(dir: Dir, fi: usize, set: u64, args: Vec<Val>, result: Option<Val>, id: u64) {
    h().obs.clear();
    h().script.clear();
    h().call = Some(Call {
        id,
        dir,
        fi,
        set,
        args,
        result,
        base: live_set(),
        a_blocks: BTreeSet::new(),
        indirect_area: None,
        r_blocks: BTreeSet::new(),
        tokens_before: vec![],
        failed: false,
        import_seen: false,
        ret_bits: 0,
        lent: h().res.table.iter().filter(|(_, e)| e.call == Some(id)).map(|(k, _)| *k).collect(),
    });
}

/// borrows lent / owns given for this export call must be gone when it returns
fn end_of_export_call_handles(id: u64) {
    let left: Vec<(u32, Entry)> = h().res.table.iter().filter(|(_, e)| e.call == Some(id)).map(|(k, e)| (*k, e.clone())).collect();
    for (k, e) in &left {
        h().res.table.remove(k);
        if e.own && h().resources[e.res].exported {
            // the guest kept an object the host gave back: it stays alive in the guest; track as leaked
        }
    }
    if let Some((k, e)) = left.first() {
        if !call_failed() {
            if e.own {
                violation("c-res:own-not-dropped", &format!("own handle {k} of {} given to an export was not dropped by the guest's drop_own", res_name(e.res)), json!({}));
            } else {
                violation("c-res:borrow-not-dropped", &format!("borrow handle {k} of {} lent for an export call was still held when the call returned", res_name(e.res)), json!({}));
            }
        }
    }
}

fn run_export(fi: usize, set: u64) {
    let a = abi();
    let f = h().funcs[fi].clone();
    let tys = param_types(fi);
    let (mut args, mut result) = values_for(fi, set);
    h().next_call += 1;
    let id = h().next_call;
    // handles
    let mut script_err = None;
    for (t, v) in tys.iter().zip(args.iter_mut()) {
        match script_handles(fi, 0, t, v, id) {
            Ok(n) => *v = n,
            Err(e) => script_err = Some(e),
        }
    }
    if let (Some(t), Some(v)) = (f.func.result.as_ref(), result.as_mut()) {
        match script_handles(fi, 1, t, v, id) {
            Ok(n) => *v = n,
            Err(e) => script_err = Some(e),
        }
    }
    if let Some(e) = script_err {
        // give back what was taken for this call
        let mine: Vec<(u32, Entry)> = h().res.table.iter().filter(|(_, e)| e.call == Some(id)).map(|(k, e)| (*k, e.clone())).collect();
        for (k, e) in mine {
            h().res.table.remove(&k);
            if e.own && h().resources[e.res].exported {
                h().res.host_owned.push((e.res, e.rep));
            }
        }
        h().report.count(&format!("calls_skipped: {e}"));
        return;
    }
    if h().mode_c11 {
        let mut rng = vkit::Rng::new(h().seed ^ 0xC011_1DE ^ ((fi as u64) << 20) ^ set);
        args = tys.iter().zip(&args).map(|(t, v)| collide(&a, fi, t, v, &mut rng)).collect();
    }
    let sig = a.signature(&tys, f.func.result.as_ref(), SigKind::SyncLift);
    if !plan_core_ok(fi, &sig) {
        h().report.inconclusive("core export signature in the generated C differs from the reference signature (lead for C13)");
        return;
    }
    progress(&format!("BEGIN export {fi} set {set} {}", func_label(fi)));
    begin_call(Dir::Export, fi, set, args.clone(), result.clone(), id);
    ledger().phase = "host-lower";
    let mut mem = GuestMem { trusted: vec![] };
    // ---- lower
    let mut flat: Vec<u64> = vec![];
    let lowered: Result<(), String> = (|| {
        if sig.indirect_params {
            let (size, align) = a.record_layout(&tys);
            let p = mem.alloc(size, align)?;
            let offs = a.field_offsets(&tys);
            for ((t, v), o) in tys.iter().zip(&args).zip(offs) {
                a.store(&mut mem, v, t, p + o as u64)?;
            }
            flat.push(p);
            h().call.as_mut().unwrap().indirect_area = Some(p as usize);
        } else {
            for (t, v) in tys.iter().zip(&args) {
                for c in a.lower_flat(&mut mem, v, t)? {
                    flat.push(c.bits());
                }
            }
        }
        Ok(())
    })();
    if let Err(e) = lowered {
        h().protocol_errors.push(format!("host could not lower export arguments: {e}"));
        inconclusive("host-side lowering failed");
        finish_call();
        return;
    }
    {
        let c = h().call.as_mut().unwrap();
        c.a_blocks = live_set().difference(&c.base).copied().collect();
    }
    if let (Some(t), Some(v)) = (f.func.result.as_ref(), result.as_ref()) {
        let mut toks = vec![];
        tokens::encode(&a, t, v, &mut toks);
        h().script = toks.into();
    }
    flat.push(0);
    let mut ret: [u64; 2] = [0, 0];
    ledger().phase = "export-wrapper";
    let mark = ledger().anomalies.len();
    unsafe { cg_call_export(fi as u32, flat.as_ptr(), ret.as_mut_ptr()) };
    ledger().phase = "host-lift";
    let c11 = h().mode_c11;
    if !h().obs.is_empty() {
        h().protocol_errors.push("observation left unread after an export call".into());
    }
    // ---- ownership after the call: only the result's blocks remain
    if c11 && !call_failed() {
        let an = anomalies_since(mark);
        let c = h().call.as_ref().unwrap();
        let now = live_set();
        let left: BTreeSet<BlockId> = now.intersection(&c.a_blocks).copied().collect();
        if !an.is_empty() {
            violation("c-mem:double-free:export-wrapper", &format!("during the export call: {}", an.join("; ")), json!({"anomalies": an}));
        } else if !left.is_empty() {
            violation("c-mem:leak:export-wrapper", &format!("after the export returned, {} allocated by the caller for the arguments are still allocated (the callee owns and must free them)", describe(&left)), json!({}));
        } else {
            let expected: BTreeSet<BlockId> = c.base.union(&c.r_blocks).copied().collect();
            let extra: BTreeSet<BlockId> = now.difference(&expected).copied().collect();
            let lost: BTreeSet<BlockId> = c.r_blocks.difference(&now).copied().collect();
            if !extra.is_empty() {
                violation("c-mem:leak:export-wrapper", &format!("the export wrapper allocated {} that nobody owns", describe(&extra)), json!({}));
            } else if !lost.is_empty() {
                violation("c-mem:result-freed:export-wrapper", &format!("{} block(s) of the returned value were freed before the host could read them", lost.len()), json!({}));
            }
        }
    }
    // ---- lift the result
    if !call_failed() {
        if let (Some(t), Some(want)) = (f.func.result.as_ref(), result.as_ref()) {
            let lifted: Result<Val, String> = (|| {
                if sig.retptr {
                    let p = ret[0];
                    if p as usize % a.alignment(t) != 0 || p == 0 {
                        return Err(format!("returned pointer {p:#x} is not a valid aligned pointer"));
                    }
                    mem.trusted.push((p, a.elem_size(t) as u64));
                    a.load(&mem, t, p)
                } else {
                    let cv = vec![core_val(sig.results[0], ret[0])];
                    let mut it = cv.iter();
                    a.lift_flat(&mem, &mut it, t)
                }
            })();
            match lifted {
                Err(e) => violation("c-e2e:export:result:unliftable", &format!("the host could not lift the export's result: {e}; scripted {}", want.text()), json!({"error": e})),
                Ok(got) => {
                    // handles of fresh objects: validate against the table, then normalise
                    let got = map_handles(&a, t, &got, &mut |hid, x| {
                        let (rid, _) = handle_info(hid);
                        let res = res_by_type(fi, rid).ok_or("?")?;
                        match h().res.table.get(&x).cloned() {
                            Some(e) if e.res == res && e.own => {
                                h().res.table.remove(&x);
                                h().res.dropped.insert(x);
                                h().res.guest_owned.retain(|g| g.1 != x);
                                if h().resources[res].exported {
                                    h().res.host_owned.push((res, e.rep));
                                    Ok(0)
                                } else {
                                    Ok(x)
                                }
                            }
                            _ => {
                                violation("c-res:unknown-handle:export-result", &format!("the export returned handle {x}, which is not a live own handle of {}", res_name(res)), json!({}));
                                Ok(x)
                            }
                        }
                    })
                    .unwrap_or(got);
                    compare("export", "result", &[*t], &[want.clone()], Ok(vec![got]));
                }
            }
        }
    }
    // ---- post-return
    let has_post = h().plan["funcs"][fi]["post_return"].as_bool().unwrap_or(false);
    if has_post {
        ledger().phase = "post-return";
        let mark = ledger().anomalies.len();
        unsafe { cg_call_post_return(fi as u32, ret.as_ptr()) };
        if c11 && !call_failed() {
            let an = anomalies_since(mark);
            if !an.is_empty() {
                violation("c-mem:double-free:post-return", &format!("in the generated post-return function: {}", an.join("; ")), json!({"anomalies": an}));
            }
        }
    }
    ledger().phase = "idle";
    if c11 && !call_failed() {
        let c = h().call.as_ref().unwrap();
        let left: BTreeSet<BlockId> = live_set().difference(&c.base).copied().collect();
        if !left.is_empty() {
            let sig = if has_post { "c-mem:leak:post-return" } else { "c-mem:leak:post-return-missing" };
            violation(sig, &format!("after post-return {} of the returned value are still allocated ({} result blocks in total)", describe(&left), c.r_blocks.len()), json!({"left": left.len()}));
        }
        let gone: BTreeSet<BlockId> = c.base.difference(&live_set()).copied().collect();
        if !gone.is_empty() && !call_failed() {
            violation("c-mem:over-free:post-return", "the call freed blocks that existed before it", json!({}));
        }
    }
    end_of_export_call_handles(id);
    finish_call();
}

fn run_import(fi: usize, set: u64) {
    let a = abi();
    let f = h().funcs[fi].clone();
    let tys = param_types(fi);
    let (mut args, mut result) = values_for(fi, set);
    h().next_call += 1;
    let id = h().next_call;
    for (t, v) in tys.iter().zip(args.iter_mut()) {
        match script_handles(fi, 2, t, v, id) {
            Ok(n) => *v = n,
            Err(e) => {
                h().report.count(&format!("calls_skipped: {e}"));
                return;
            }
        }
    }
    if let (Some(t), Some(v)) = (f.func.result.as_ref(), result.as_mut()) {
        match script_handles(fi, 3, t, v, id) {
            Ok(n) => *v = n,
            Err(e) => {
                h().report.count(&format!("calls_skipped: {e}"));
                return;
            }
        }
    }
    let sig = a.signature(&tys, f.func.result.as_ref(), SigKind::SyncLower);
    if !plan_core_ok(fi, &sig) {
        h().report.inconclusive("core import signature in the generated C differs from the reference signature (lead for C13)");
        return;
    }
    progress(&format!("BEGIN import {fi} set {set} {}", func_label(fi)));
    begin_call(Dir::Import, fi, set, args.clone(), result.clone(), id);
    let mut toks = vec![];
    for (t, v) in tys.iter().zip(&args) {
        tokens::encode(&a, t, v, &mut toks);
    }
    h().script = toks.into();
    ledger().phase = "echo";
    unsafe { cg_drive_import(fi as u32) };
    ledger().phase = "idle";
    if !h().script.is_empty() && !call_failed() {
        h().protocol_errors.push("import argument script not fully consumed".into());
        inconclusive("harness protocol error (script not consumed)");
    }
    finish_call();
}

fn finish_call() {
    let c = h().call.take().unwrap();
    let hh = h();
    if !hh.protocol_errors.is_empty() {
        let e = hh.protocol_errors.join(" | ");
        hh.protocol_errors.clear();
        hh.report.inconclusive("harness protocol error");
        if hh.report.samples.len() < 6 {
            hh.report.sample(json!({"protocol_error": e, "func": func_label(c.fi)}));
        }
        progress(&format!("PROTOCOL {e}"));
    } else if !c.failed {
        hh.report.eval();
        let a = abi();
        let f = &h().funcs[c.fi];
        let mut key = format!("{}|{}|", if f.import { "i" } else { "e" }, h().opts.label());
        for p in &f.func.params {
            key.push_str(&a.shape_key(&p.ty));
            key.push(',');
        }
        if let Some(t) = &f.func.result {
            key.push_str("->");
            key.push_str(&a.shape_key(t));
        }
        h().report.distinct(&key);
        h().report.count(if f.import { "import_calls" } else { "export_calls" });
        if h().report.samples.len() < 3 {
            h().report.sample(json!({
                "func": func_label(c.fi), "options": h().opts.label(),
                "args": c.args.iter().map(|v| v.text()).collect::<Vec<_>>(), "result": c.result.as_ref().map(|v| v.text()),
            }));
        }
    }
    purge_to(&c.base);
    h().obs.clear();
    h().script.clear();
    progress("END");
}

fn end_of_history() {
    // the guest drops every own handle of an imported resource it still holds
    let held: Vec<(usize, u32)> = h().res.guest_owned.clone();
    for (res, i) in held {
        if h().res.table.contains_key(&i) {
            unsafe { cg_guest_drop_own(res as u32, i as i32) };
            if h().res.table.contains_key(&i) {
                violation("c-res:drop-own-ineffective", &format!("drop_own of {} did not reach [resource-drop]", res_name(res)), json!({}));
                h().res.table.remove(&i);
            }
        }
    }
    // the host drops every object of an exported resource it owns
    let owned: Vec<(usize, u32)> = std::mem::take(&mut h().res.host_owned);
    for (res, rep) in owned {
        run_dtor(res, rep);
    }
    // handles the guest still holds to its own objects (created but never returned): none are expected
    let reps: Vec<(u32, RepState)> = h().res.reps.iter().map(|(k, v)| (*k, v.clone())).collect();
    let mut reported_name = false;
    let mut reported_other = false;
    for (rep, s) in reps {
        if s.live {
            let still_in_guest = h().res.table.values().any(|e| e.rep == rep && e.own);
            if still_in_guest {
                continue;
            }
            if s.dtor_skipped {
                if !reported_name {
                    reported_name = true;
                    let r = h().resources[s.res].clone();
                    let m = h().report.extra.get("dtor_name_mismatch").cloned().unwrap_or(Value::Null);
                    violation(
                        "c:dtor-export-name:snake-case-resource",
                        &format!(
                            "an object of exported resource `{}` was dropped but its destructor never ran: the component model calls the export `{}#[dtor]{}`, the generated C exports {}",
                            r.name, r.module, r.name, m["emitted"]
                        ),
                        json!({"resource": r.name, "names": m}),
                    );
                }
            } else if !reported_other {
                reported_other = true;
                violation("c-res:rep-not-destroyed", &format!("an object of {} was dropped but the user destructor never ran", res_name(s.res)), json!({}));
            }
        }
    }
}

fn arg<'a>(argv: &'a [String], k: &str, d: &'a str) -> &'a str {
    argv.iter().position(|x| x == k).and_then(|i| argv.get(i + 1)).map(|s| s.as_str()).unwrap_or(d)
}

#[no_mangle]
pub unsafe extern "C" fn cg_main(argc: i32, argv: *const *const c_char) -> i32 {
    let args: Vec<String> = (0..argc as usize).map(|i| CStr::from_ptr(*argv.add(i)).to_string_lossy().to_string()).collect();
    let wit = std::fs::read_to_string(arg(&args, "--wit", "world.wit")).expect("read wit");
    let plan_txt = std::fs::read_to_string(arg(&args, "--plan", "plan.json")).expect("read plan");
    let plan_v: Value = serde_json::from_str(&plan_txt).expect("plan json");
    let opts = Opts::parse(arg(&args, "--opts", "default"));
    let seed: u64 = arg(&args, "--seed", "0").parse().unwrap_or(0);
    let sets: u64 = arg(&args, "--sets", "30").parse().unwrap_or(30);
    let mode_c11 = arg(&args, "--mode", "c10") == "c11";
    let out = arg(&args, "--out", "-").to_string();
    let only_func: Option<usize> = arg(&args, "--func", "").parse().ok();
    let only_set: Option<u64> = arg(&args, "--set", "").parse().ok();
    let world_name = arg(&args, "--world", "");
    let (resolve, world) = witgen::parse_world(&wit, if world_name.is_empty() { None } else { Some(world_name) }).expect("wit parses");
    let funcs = plan::enumerate(&resolve, world);
    let resources = plan::enumerate_resources(&resolve, world);
    let progress_file = match arg(&args, "--progress", "") {
        "" => None,
        p => std::fs::File::create(p).ok(),
    };
    HOST = Some(Box::new(Host {
        resolve,
        world,
        funcs,
        resources,
        plan: plan_v,
        opts,
        world_hash: vkit::hash64(wit.as_bytes()),
        wit,
        seed,
        mode_c11,
        report: vkit::Report::new(""),
        script: VecDeque::new(),
        obs: vec![],
        call: None,
        next_call: 0,
        res: ResTables::default(),
        progress: progress_file,
        viol_count: 0,
        protocol_errors: vec![],
    }));
    h().report.max_samples = 4;
    let n = h().funcs.len();
    let enabled: Vec<bool> = (0..n).map(|i| h().plan["funcs"][i]["enabled"].as_bool().unwrap_or(false)).collect();
    'outer: for set in 0..sets {
        if only_set.map_or(false, |s| s != set) {
            continue;
        }
        for fi in 0..n {
            if !enabled[fi] || only_func.map_or(false, |f| f != fi) {
                continue;
            }
            let import = h().funcs[fi].import;
            let r = std::panic::catch_unwind(|| if import { run_import(fi, set) } else { run_export(fi, set) });
            if r.is_err() {
                host_panicked("the call driver");
                if h().call.is_some() {
                    finish_call();
                } else {
                    h().report.inconclusive("harness protocol error");
                    h().protocol_errors.clear();
                }
            }
            if h().viol_count >= 8 {
                break 'outer;
            }
        }
    }
    if h().viol_count == 0 || h().mode_c11 {
        h().call = None;
        end_of_history();
    }
    let l = ledger();
    let (m, f, b) = (l.mallocs, l.frees, l.bytes);
    let hh = h();
    hh.report.count_n("guest_mallocs", m);
    hh.report.count_n("guest_frees", f);
    hh.report.count_n("guest_bytes_allocated", b);
    let (drops, dtors, nreps) = (hh.res.drops, hh.res.dtors, hh.res.reps.len() as u64);
    hh.report.count_n("resource_drops", drops);
    hh.report.count_n("dtor_calls", dtors);
    hh.report.count_n("exported_objects_created", nreps);
    hh.report.write(&out);
    progress("DONE");
    0
}
