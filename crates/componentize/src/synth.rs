//! C13: judge the core imports/exports a backend declared (extracted from the
//! generated text) against the world, and feed a synthetic core module with
//! exactly those imports/exports to the component encoder.
use crate::expected::{is_root_builtin, Expected, Sig};
use cabi_ref::CoreTy;
use serde_json::{json, Value};
use std::collections::BTreeMap;
use wit_parser::{Resolve, WorldId};

#[derive(Clone, Debug)]
pub struct Decl {
    pub module: Option<String>,
    pub name: String,
    pub sig: Option<Sig>,
    /// where it was found (file:line or symbol), for messages
    pub at: String,
}

fn parse_tys(v: &Value) -> Option<Vec<CoreTy>> {
    let arr = v.as_array()?;
    let mut out = vec![];
    for t in arr {
        out.push(match t.as_str()? {
            "i32" => CoreTy::I32,
            "i64" => CoreTy::I64,
            "f32" => CoreTy::F32,
            "f64" => CoreTy::F64,
            _ => return None,
        });
    }
    Some(out)
}

pub fn parse_decls(v: &Value) -> (Vec<Decl>, Vec<Decl>) {
    let one = |d: &Value, import: bool| -> Decl {
        let sig = match (d.get("params").and_then(parse_tys), d.get("results").and_then(parse_tys)) {
            (Some(p), Some(r)) => Some(Sig { params: p, results: r }),
            _ => None,
        };
        Decl {
            module: if import { Some(d["module"].as_str().unwrap_or("").to_string()) } else { None },
            name: d["name"].as_str().unwrap_or("").to_string(),
            sig,
            at: d.get("at").and_then(|a| a.as_str()).unwrap_or("").to_string(),
        }
    };
    let imports = v["imports"].as_array().map(|a| a.iter().map(|d| one(d, true)).collect()).unwrap_or_default();
    let exports = v["exports"].as_array().map(|a| a.iter().map(|d| one(d, false)).collect()).unwrap_or_default();
    (imports, exports)
}

fn val(t: CoreTy) -> wasm_encoder::ValType {
    match t {
        CoreTy::I32 => wasm_encoder::ValType::I32,
        CoreTy::I64 => wasm_encoder::ValType::I64,
        CoreTy::F32 => wasm_encoder::ValType::F32,
        CoreTy::F64 => wasm_encoder::ValType::F64,
    }
}

/// Build a core module with exactly these imports and exports (bodies
/// `unreachable`), a memory, `cabi_realloc` (unless declared), and the
/// component-type custom section for `world`.
pub fn build_module(
    resolve: &Resolve,
    world: WorldId,
    imports: &[(String, String, Sig)],
    exports: &[(String, Sig)],
    encoding: wit_component::StringEncoding,
) -> anyhow::Result<Vec<u8>> {
    use wasm_encoder::*;
    let mut types = TypeSection::new();
    let mut tmap: BTreeMap<String, u32> = BTreeMap::new();
    let mut ty_of = |types: &mut TypeSection, s: &Sig| -> u32 {
        let k = s.text();
        if let Some(i) = tmap.get(&k) {
            return *i;
        }
        let i = types.len();
        types.ty().function(s.params.iter().map(|t| val(*t)), s.results.iter().map(|t| val(*t)));
        tmap.insert(k, i);
        i
    };
    let mut imp = ImportSection::new();
    for (m, n, s) in imports {
        let t = ty_of(&mut types, s);
        imp.import(m, n, EntityType::Function(t));
    }
    let nimp = imports.len() as u32;
    let mut funcs = FunctionSection::new();
    let mut code = CodeSection::new();
    let mut exp = ExportSection::new();
    let mut all: Vec<(String, Sig)> = exports.to_vec();
    if !all.iter().any(|(n, _)| n == "cabi_realloc") {
        all.push(("cabi_realloc".to_string(), Sig::new(&[CoreTy::I32; 4], &[CoreTy::I32])));
    }
    for (i, (n, s)) in all.iter().enumerate() {
        let t = ty_of(&mut types, s);
        funcs.function(t);
        let mut f = Function::new([]);
        f.instruction(&Instruction::Unreachable);
        f.instruction(&Instruction::End);
        code.function(&f);
        exp.export(n, ExportKind::Func, nimp + i as u32);
    }
    let mut mems = MemorySection::new();
    mems.memory(MemoryType { minimum: 1, maximum: None, memory64: false, shared: false, page_size_log2: None });
    exp.export("memory", ExportKind::Memory, 0);
    let mut m = Module::new();
    m.section(&types);
    m.section(&imp);
    m.section(&funcs);
    m.section(&mems);
    m.section(&exp);
    m.section(&code);
    let mut bytes = m.finish();
    wit_component::embed_component_metadata(&mut bytes, resolve, world, encoding)?;
    Ok(bytes)
}

fn issue(kind: &str, name: &str, detail: String) -> Value {
    json!({"kind": kind, "name": name, "detail": detail})
}

/// The whole C13 oracle for one (world, backend output).  Returns
/// {issues:[{kind,name,detail}], unsure:[..], counts:{..}, encoder:{ok,error}}.
pub fn judge(resolve: &Resolve, world: WorldId, decls: &Value, encoding: wit_component::StringEncoding) -> Value {
    let (imports, exports) = parse_decls(decls);
    let exp = Expected::compute(resolve, world);
    let mut issues: Vec<Value> = vec![];
    let mut unsure: Vec<Value> = vec![];
    let mut sig_checked = 0u64;
    let mut sig_unread = 0u64;

    // ---- exports
    let mut emap: BTreeMap<String, Sig> = BTreeMap::new();
    let mut seen: BTreeMap<String, &Decl> = BTreeMap::new();
    for d in &exports {
        if seen.insert(d.name.clone(), d).is_some() {
            issues.push(issue("export-duplicate", &d.name, format!("core export `{}` is declared twice ({})", d.name, d.at)));
            continue;
        }
        match exp.exports.get(&d.name) {
            None => {
                issues.push(issue(
                    "export-unassigned",
                    &d.name,
                    format!("generated export `{}` ({}) is not a name the world assigns; the component encoder silently ignores it", d.name, d.at),
                ));
                // keep it in the module (the encoder must still accept the rest)
                emap.insert(d.name.clone(), d.sig.clone().unwrap_or_else(|| Sig::new(&[], &[])));
            }
            Some(e) => {
                match &d.sig {
                    Some(s) => {
                        sig_checked += 1;
                        if *s != e.sig {
                            issues.push(issue(
                                &format!("export-sig:{}", e.kind),
                                &d.name,
                                format!("export `{}` declared {} but the canonical ABI gives {} ({})", d.name, s.text(), e.sig.text(), d.at),
                            ));
                        }
                    }
                    None => sig_unread += 1,
                }
                emap.insert(d.name.clone(), d.sig.clone().unwrap_or_else(|| e.sig.clone()));
            }
        }
    }
    for r in &exp.required {
        let has_sync = seen.contains_key(&r.sync);
        let has_cb = seen.contains_key(&r.async_cb);
        let has_sf = seen.contains_key(&r.async_stackful);
        let n = has_sync as u8 + has_cb as u8 + has_sf as u8;
        if n == 0 {
            issues.push(issue("export-missing", &r.item, format!("no core export for world export `{}` (expected `{}` or an async-lift form)", r.item, r.sync)));
        } else if n > 1 {
            issues.push(issue("export-ambiguous", &r.item, format!("world export `{}` is exported under more than one ABI", r.item)));
        }
        if has_cb && !seen.contains_key(&r.callback) {
            issues.push(issue("callback-missing", &r.item, format!("`{}` has no `{}`", r.async_cb, r.callback)));
        }
    }

    // ---- imports
    let mut imap: BTreeMap<(String, String), Sig> = BTreeMap::new();
    let mut unjudged_imports = 0u64;
    let mut pending: Vec<((String, String), Sig, String)> = vec![];
    for d in &imports {
        let m = d.module.clone().unwrap_or_default();
        let key = (m.clone(), d.name.clone());
        let known = exp.imports.get(&key);
        let sig = match (&d.sig, known.and_then(|k| k.sig.clone())) {
            (Some(s), Some(e)) => {
                sig_checked += 1;
                if *s != e {
                    issues.push(issue(
                        &format!("import-sig:{}", known.unwrap().kind),
                        &format!("{m}::{}", d.name),
                        format!("import `{m}` `{}` declared {} but the canonical ABI gives {} ({})", d.name, s.text(), e.text(), d.at),
                    ));
                }
                s.clone()
            }
            (Some(s), None) => s.clone(),
            (None, Some(e)) => {
                sig_unread += 1;
                e
            }
            (None, None) => {
                sig_unread += 1;
                if known.is_none() && !is_root_builtin(&m, &d.name) {
                    issues.push(issue(
                        "import-unoffered",
                        &format!("{m}::{}", d.name),
                        format!("generated import `{m}` `{}` ({}) is not one the world offers", d.name, d.at),
                    ));
                } else {
                    unjudged_imports += 1;
                }
                continue;
            }
        };
        if known.is_none() && !is_root_builtin(&m, &d.name) {
            // not in our table: let the real encoder decide, one import at a time (below)
            if !pending.iter().any(|(k, _, _): &((String, String), Sig, String)| *k == key) {
                pending.push((key, sig, d.at.clone()));
            }
            continue;
        }
        if let Some(prev) = imap.get(&key) {
            if *prev != sig {
                issues.push(issue(
                    "import-conflict",
                    &format!("{m}::{}", d.name),
                    format!("import `{m}` `{}` declared with two signatures {} / {}", d.name, prev.text(), sig.text()),
                ));
            }
            continue;
        }
        imap.insert(key, sig);
    }

    // ---- payload intrinsic indices: `[future-new-N]f` must name a position of wit-parser's
    // `find_futures_and_streams(f)` that holds a type of that kind, and no two indices used for one
    // (function, intrinsic) may be positions of the same payload type
    {
        use std::collections::BTreeSet;
        let re_parts = |name: &str| -> Option<(String, String, usize, String)> {
            // (kind "future"/"stream", op, index, function name)
            let n = name.strip_prefix("[async-lower]").unwrap_or(name);
            let rest = n.strip_prefix('[')?;
            let (tag, func) = rest.split_once(']')?;
            let (kind, tail) = tag.split_once('-')?;
            if kind != "future" && kind != "stream" {
                return None;
            }
            let (op, idx) = tail.rsplit_once('-')?;
            let idx: usize = idx.parse().ok()?;
            Some((kind.to_string(), op.to_string(), idx, func.to_string()))
        };
        let funcs = crate::expected::payload_lists(resolve, world);
        let mut used: BTreeMap<(String, String, String, String), BTreeSet<usize>> = BTreeMap::new();
        for d in &imports {
            let m = d.module.clone().unwrap_or_default();
            let Some((kind, op, idx, func)) = re_parts(&d.name) else { continue };
            let Some(list) = funcs.get(&(m.clone(), func.clone())) else { continue };
            match list.get(idx) {
                None => {} // reported as import-unoffered through the name table / encoder
                Some((k, _)) if *k != kind => {
                    issues.push(issue(
                        "payload-index-kind",
                        &format!("{m}::{}", d.name),
                        format!("`{m}` `{}` ({}): position {idx} of `{func}`'s futures/streams is a {k}, not a {kind}", d.name, d.at),
                    ));
                }
                Some(_) => {
                    used.entry((m.clone(), func.clone(), kind.clone(), op.clone())).or_default().insert(idx);
                }
            }
        }
        for ((m, func, kind, op), idxs) in &used {
            let list = &funcs[&(m.clone(), func.clone())];
            let mut seen: BTreeMap<usize, usize> = BTreeMap::new(); // type key -> index
            for i in idxs {
                let ty = list[*i].1;
                if let Some(prev) = seen.insert(ty, *i) {
                    issues.push(issue(
                        "payload-index-duplicate-type",
                        &format!("{m}::[{kind}-{op}-{i}]{func}"),
                        format!("`{m}`: `[{kind}-{op}-{prev}]{func}` and `[{kind}-{op}-{i}]{func}` are both positions of the same payload type; some other payload type of `{func}` is bound to the wrong index"),
                    ));
                }
            }
        }
    }

    // ---- synthetic module through the real encoder
    let imp_list: Vec<(String, String, Sig)> = imap.iter().map(|((m, n), s)| (m.clone(), n.clone(), s.clone())).collect();
    let exp_list: Vec<(String, Sig)> = emap.iter().map(|(n, s)| (n.clone(), s.clone())).collect();
    let try_encode = |imps: &[(String, String, Sig)]| -> Result<usize, String> {
        let bytes = build_module(resolve, world, imps, &exp_list, encoding).map_err(|e| format!("{e:#}"))?;
        let r = vkit::catch(std::panic::AssertUnwindSafe(|| -> anyhow::Result<Vec<u8>> {
            let mut enc = wit_component::ComponentEncoder::default();
            enc.validate(true);
            enc.module(&bytes)?;
            enc.encode()
        }));
        match r {
            Ok(Ok(c)) => Ok(c.len()),
            Ok(Err(e)) => Err(format!("{e:#}")),
            Err((m, l)) => Err(format!("encoder panic: {m} at {l}")),
        }
    };
    let mut accepted_unknown = 0u64;
    for ((m, n), sig, at) in &pending {
        let one = vec![(m.clone(), n.clone(), sig.clone())];
        match try_encode(&one) {
            Ok(_) => {
                accepted_unknown += 1;
                unsure.push(json!({"why": format!("import `{m}` `{n}` is not in the expected-name table but the encoder accepts it")}));
            }
            Err(e) => {
                // only blame the import if the same module without it is fine
                if try_encode(&[]).is_ok() || e.contains(n.as_str()) || e.contains("import") {
                    issues.push(issue(
                        "import-unoffered",
                        &format!("{m}::{n}"),
                        format!("generated import `{m}` `{n}` ({at}) is not one the world offers; encoder: {}", e.chars().take(300).collect::<String>()),
                    ));
                } else {
                    unsure.push(json!({"why": format!("import `{m}` `{n}` could not be judged in isolation: {}", e.chars().take(160).collect::<String>())}));
                }
            }
        }
    }
    let encoder = match build_module(resolve, world, &imp_list, &exp_list, encoding) {
        Err(e) => json!({"ok": false, "stage": "build", "error": format!("{e:#}")}),
        Ok(bytes) => {
            let r = vkit::catch(std::panic::AssertUnwindSafe(|| -> anyhow::Result<Vec<u8>> {
                let mut enc = wit_component::ComponentEncoder::default();
                enc.validate(true);
                enc.module(&bytes)?;
                enc.encode()
            }));
            match r {
                Ok(Ok(comp)) => json!({"ok": true, "component_bytes": comp.len()}),
                Ok(Err(e)) => json!({"ok": false, "stage": "encode", "error": format!("{e:#}")}),
                Err((msg, loc)) => json!({"ok": false, "stage": "encoder-panic", "error": format!("{msg} at {loc}")}),
            }
        }
    };
    if encoder["ok"] == json!(false) {
        if encoder["stage"] == json!("encode") {
            // the encoder only reports its first complaint; if our own checks
            // already explain a rejection keep those, otherwise report it
            let explained = issues.iter().any(|i| {
                let k = i["kind"].as_str().unwrap_or("");
                k.starts_with("export-sig") || k.starts_with("import-sig") || k == "export-missing" || k == "callback-missing" || k == "export-ambiguous"
            });
            if !explained {
                issues.push(issue("encoder-reject", "", encoder["error"].as_str().unwrap_or("").to_string()));
            }
        } else {
            unsure.push(json!({"why": format!("synthetic module could not be judged: {}", encoder["error"])}));
        }
    }
    json!({
        "issues": issues,
        "unsure": unsure,
        "encoder": encoder,
        "counts": {
            "imports": imports.len(), "exports": exports.len(), "sig_checked": sig_checked, "sig_unread": sig_unread,
            "distinct_imports": imap.len(), "unjudged_imports": unjudged_imports, "accepted_unknown_imports": accepted_unknown,
            "required_exports": exp.required.len(), "expected_export_names": exp.exports.len(), "expected_import_names": exp.imports.len(),
        },
    })
}
