//! Structural summary of a world (as seen through a `Resolve`) and comparison of
//! a requested world with the world decoded from a component.
//!
//! Types are rendered structurally with aliases made transparent; resources are
//! identified by (owning interface name, resource name).  Field, case and
//! parameter names are part of the rendering.
use std::collections::{BTreeMap, BTreeSet};
use wit_parser::{Function, Handle, Resolve, Type, TypeDefKind, TypeId, TypeOwner, WorldId, WorldItem};

#[derive(Debug, Clone, PartialEq, Eq)]
pub enum Item {
    Func(String),
    Interface { funcs: BTreeMap<String, String>, types: BTreeMap<String, String> },
    Type(String),
}

#[derive(Debug, Clone, Default)]
pub struct Summary {
    pub imports: BTreeMap<String, Item>,
    pub exports: BTreeMap<String, Item>,
}

pub struct Render<'a> {
    pub resolve: &'a Resolve,
}

impl<'a> Render<'a> {
    fn owner(&self, id: TypeId) -> String {
        match self.resolve.types[id].owner {
            TypeOwner::Interface(i) => self.resolve.id_of(i).unwrap_or_else(|| "<inline>".to_string()),
            TypeOwner::World(_) => "$world".to_string(),
            TypeOwner::None => "<none>".to_string(),
        }
    }

    pub fn ty(&self, t: &Type) -> String {
        match t {
            Type::Bool => "bool".into(),
            Type::U8 => "u8".into(),
            Type::U16 => "u16".into(),
            Type::U32 => "u32".into(),
            Type::U64 => "u64".into(),
            Type::S8 => "s8".into(),
            Type::S16 => "s16".into(),
            Type::S32 => "s32".into(),
            Type::S64 => "s64".into(),
            Type::F32 => "f32".into(),
            Type::F64 => "f64".into(),
            Type::Char => "char".into(),
            Type::String => "string".into(),
            Type::ErrorContext => "error-context".into(),
            Type::Id(id) => self.id(*id),
        }
    }

    fn opt(&self, t: &Option<Type>) -> String {
        t.as_ref().map(|t| self.ty(t)).unwrap_or_else(|| "_".to_string())
    }

    pub fn id(&self, id: TypeId) -> String {
        let def = &self.resolve.types[id];
        match &def.kind {
            TypeDefKind::Type(t) => self.ty(t),
            TypeDefKind::Resource => format!("resource<{}/{}>", self.owner(id), def.name.clone().unwrap_or_default()),
            TypeDefKind::Handle(Handle::Own(r)) => format!("own<{}>", self.id(*r)),
            TypeDefKind::Handle(Handle::Borrow(r)) => format!("borrow<{}>", self.id(*r)),
            TypeDefKind::Record(r) => {
                format!("record{{{}}}", r.fields.iter().map(|f| format!("{}:{}", f.name, self.ty(&f.ty))).collect::<Vec<_>>().join(","))
            }
            TypeDefKind::Flags(f) => format!("flags{{{}}}", f.flags.iter().map(|f| f.name.clone()).collect::<Vec<_>>().join(",")),
            TypeDefKind::Tuple(t) => format!("tuple<{}>", t.types.iter().map(|t| self.ty(t)).collect::<Vec<_>>().join(",")),
            TypeDefKind::Variant(v) => {
                format!("variant{{{}}}", v.cases.iter().map(|c| format!("{}({})", c.name, self.opt(&c.ty))).collect::<Vec<_>>().join(","))
            }
            TypeDefKind::Enum(e) => format!("enum{{{}}}", e.cases.iter().map(|c| c.name.clone()).collect::<Vec<_>>().join(",")),
            TypeDefKind::Option(t) => format!("option<{}>", self.ty(t)),
            TypeDefKind::Result(r) => format!("result<{},{}>", self.opt(&r.ok), self.opt(&r.err)),
            TypeDefKind::List(t) => format!("list<{}>", self.ty(t)),
            TypeDefKind::Map(k, v) => format!("map<{},{}>", self.ty(k), self.ty(v)),
            TypeDefKind::FixedLengthList(t, n) => format!("list<{},{}>", self.ty(t), n),
            TypeDefKind::Future(t) => format!("future<{}>", self.opt(t)),
            TypeDefKind::Stream(t) => format!("stream<{}>", self.opt(t)),
            TypeDefKind::Unknown => "<unknown>".into(),
        }
    }

    pub fn func(&self, f: &Function) -> String {
        let params = f.params.iter().map(|p| format!("{}:{}", p.name, self.ty(&p.ty))).collect::<Vec<_>>().join(",");
        let res = f.result.as_ref().map(|t| self.ty(t)).unwrap_or_else(|| "()".to_string());
        let asy = if f.kind.is_async() { "async " } else { "" };
        format!("{asy}({params})->{res}")
    }

    fn item(&self, item: &WorldItem) -> Item {
        match item {
            WorldItem::Function(f) => Item::Func(self.func(f)),
            WorldItem::Interface { id, .. } => {
                let iface = &self.resolve.interfaces[*id];
                let funcs = iface.functions.iter().map(|(n, f)| (n.clone(), self.func(f))).collect();
                let types = iface.types.iter().map(|(n, t)| (n.clone(), self.id(*t))).collect();
                Item::Interface { funcs, types }
            }
            WorldItem::Type { id, .. } => Item::Type(self.id(*id)),
        }
    }
}

pub fn summarize(resolve: &Resolve, world: WorldId) -> Summary {
    let r = Render { resolve };
    let w = &resolve.worlds[world];
    let mut s = Summary::default();
    for (k, item) in &w.imports {
        s.imports.insert(resolve.name_world_key(k), r.item(item));
    }
    for (k, item) in &w.exports {
        s.exports.insert(resolve.name_world_key(k), r.item(item));
    }
    s
}

#[derive(Clone, Copy, PartialEq, Eq, Debug)]
pub enum ImportMode {
    /// decoded imports must be a subset of the requested ones (unreferenced
    /// imports are dropped by the linker)
    Subset,
    /// every requested imported *function* must be present as well
    Equal,
}

/// Differences between the requested world and the decoded one.  Each entry is
/// (kind, detail); kind is stable, detail carries the names.
pub fn compare(want: &Summary, got: &Summary, mode: ImportMode) -> Vec<(String, String)> {
    let mut d = vec![];
    // exports: equal key sets, equal function sets and signatures, equal type sets
    let wk: BTreeSet<&String> = want.exports.keys().collect();
    let gk: BTreeSet<&String> = got.exports.keys().collect();
    for k in wk.difference(&gk) {
        d.push(("export-missing".to_string(), format!("requested export `{k}` is absent from the component")));
    }
    for k in gk.difference(&wk) {
        d.push(("export-extra".to_string(), format!("component exports `{k}` which the world does not")));
    }
    for (k, w) in &want.exports {
        let Some(g) = got.exports.get(k) else { continue };
        match (w, g) {
            (Item::Func(a), Item::Func(b)) => {
                if a != b {
                    d.push(("export-func-type".into(), format!("export `{k}`: requested {a}, component has {b}")));
                }
            }
            (Item::Interface { funcs: wf, types: wt }, Item::Interface { funcs: gf, types: gt }) => {
                for (n, a) in wf {
                    match gf.get(n) {
                        None => d.push(("export-func-missing".into(), format!("export `{k}`: function `{n}` absent"))),
                        Some(b) if a != b => d.push(("export-func-type".into(), format!("export `{k}`.`{n}`: requested {a}, component has {b}"))),
                        _ => {}
                    }
                }
                for n in gf.keys() {
                    if !wf.contains_key(n) {
                        d.push(("export-func-extra".into(), format!("export `{k}`: unexpected function `{n}`")));
                    }
                }
                for (n, a) in wt {
                    match gt.get(n) {
                        None => d.push(("export-type-missing".into(), format!("export `{k}`: type `{n}` absent"))),
                        Some(b) if a != b => d.push(("export-type-differs".into(), format!("export `{k}` type `{n}`: requested {a}, component has {b}"))),
                        _ => {}
                    }
                }
                for n in gt.keys() {
                    if !wt.contains_key(n) {
                        d.push(("export-type-extra".into(), format!("export `{k}`: unexpected type `{n}`")));
                    }
                }
            }
            _ => d.push(("export-kind".into(), format!("export `{k}` has a different item kind"))),
        }
    }
    // imports
    for (k, g) in &got.imports {
        let Some(w) = want.imports.get(k) else {
            d.push(("import-extra".into(), format!("component imports `{k}` which the world does not offer")));
            continue;
        };
        match (w, g) {
            (Item::Func(a), Item::Func(b)) => {
                if a != b {
                    d.push(("import-func-type".into(), format!("import `{k}`: requested {a}, component has {b}")));
                }
            }
            (Item::Type(a), Item::Type(b)) => {
                if a != b {
                    d.push(("import-type-differs".into(), format!("import type `{k}`: requested {a}, component has {b}")));
                }
            }
            (Item::Interface { funcs: wf, types: wt }, Item::Interface { funcs: gf, types: gt }) => {
                for (n, b) in gf {
                    match wf.get(n) {
                        None => d.push(("import-func-extra".into(), format!("import `{k}`: unexpected function `{n}`"))),
                        Some(a) if a != b => d.push(("import-func-type".into(), format!("import `{k}`.`{n}`: requested {a}, component has {b}"))),
                        _ => {}
                    }
                }
                for (n, b) in gt {
                    match wt.get(n) {
                        None => d.push(("import-type-extra".into(), format!("import `{k}`: unexpected type `{n}`"))),
                        Some(a) if a != b => d.push(("import-type-differs".into(), format!("import `{k}` type `{n}`: requested {a}, component has {b}"))),
                        _ => {}
                    }
                }
            }
            _ => d.push(("import-kind".into(), format!("import `{k}` has a different item kind"))),
        }
    }
    if mode == ImportMode::Equal {
        for (k, w) in &want.imports {
            match w {
                Item::Func(_) => {
                    if !got.imports.contains_key(k) {
                        d.push(("import-missing".into(), format!("requested imported function `{k}` is absent")));
                    }
                }
                Item::Interface { funcs, .. } if !funcs.is_empty() => match got.imports.get(k) {
                    None => d.push(("import-missing".into(), format!("requested import `{k}` is absent"))),
                    Some(Item::Interface { funcs: gf, .. }) => {
                        for n in funcs.keys() {
                            if !gf.contains_key(n) {
                                d.push(("import-func-missing".into(), format!("import `{k}`: function `{n}` absent")));
                            }
                        }
                    }
                    _ => {}
                },
                _ => {}
            }
        }
    }
    d
}
