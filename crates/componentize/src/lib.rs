//! Component-encoder based oracles shared by C09, C12 and C13:
//!  * `encode_check`: core module -> `ComponentEncoder` (validating) -> `decode`
//!    -> compare the decoded world with the requested one;
//!  * `expected`: core names/signatures the component model assigns to a world;
//!  * `synth`: synthetic module from extracted declarations + the C13 judge.
pub mod expected;
pub mod synth;
pub mod worldcmp;

use serde_json::{json, Value};
use wit_parser::{Resolve, WorldId};

pub fn load_world(wit_path: &str, world: Option<&str>) -> anyhow::Result<(Resolve, WorldId)> {
    let mut resolve = Resolve::default();
    resolve.all_features = true;
    let (pkg, _files) = resolve.push_path(wit_path)?;
    let world = match resolve.select_world(&[pkg], world) {
        Ok(w) => w,
        // world names that are WIT keywords need the `%` escape in a specifier
        Err(e) => match world {
            Some(w) if !w.starts_with('%') => resolve.select_world(&[pkg], Some(&format!("%{w}"))).map_err(|_| e)?,
            _ => return Err(e),
        },
    };
    Ok((resolve, world))
}

/// World selection as crates/test does for codegen tests: the default world,
/// else the one called `imports`.
pub fn load_world_like_tests(wit_path: &str) -> anyhow::Result<(Resolve, WorldId)> {
    let mut resolve = Resolve::default();
    resolve.all_features = true;
    let (pkg, _files) = resolve.push_path(wit_path)?;
    let world = resolve.select_world(&[pkg], None).or_else(|err| resolve.select_world(&[pkg], Some("imports")).map_err(|_| err))?;
    Ok((resolve, world))
}

/// Features used by the items of a world (for applying declared exclusions).
pub fn world_info(resolve: &Resolve, world: WorldId) -> Value {
    use std::collections::BTreeSet;
    use wit_parser::{Type, TypeDefKind, WorldItem};
    let mut tags: BTreeSet<&'static str> = BTreeSet::new();
    let mut seen: BTreeSet<wit_parser::TypeId> = BTreeSet::new();
    fn walk(resolve: &Resolve, t: &Type, tags: &mut BTreeSet<&'static str>, seen: &mut BTreeSet<wit_parser::TypeId>, named_ctx: bool) {
        match t {
            Type::ErrorContext => {
                tags.insert("error-context");
            }
            Type::Id(id) => {
                if !seen.insert(*id) {
                    return;
                }
                let def = &resolve.types[*id];
                let _ = named_ctx;
                match &def.kind {
                    TypeDefKind::Type(t) => walk(resolve, t, tags, seen, false),
                    TypeDefKind::Resource => {
                        tags.insert("resource");
                    }
                    TypeDefKind::Handle(wit_parser::Handle::Own(r)) => {
                        tags.insert("own");
                        walk(resolve, &Type::Id(*r), tags, seen, false)
                    }
                    TypeDefKind::Handle(wit_parser::Handle::Borrow(r)) => {
                        tags.insert("borrow");
                        walk(resolve, &Type::Id(*r), tags, seen, false)
                    }
                    TypeDefKind::Record(r) => {
                        tags.insert("record");
                        r.fields.iter().for_each(|f| walk(resolve, &f.ty, tags, seen, false))
                    }
                    TypeDefKind::Flags(_) => {
                        tags.insert("flags");
                    }
                    TypeDefKind::Tuple(t) => t.types.iter().for_each(|t| walk(resolve, t, tags, seen, false)),
                    TypeDefKind::Variant(v) => {
                        tags.insert("variant");
                        v.cases.iter().filter_map(|c| c.ty.as_ref()).for_each(|t| walk(resolve, t, tags, seen, false))
                    }
                    TypeDefKind::Enum(_) => {
                        tags.insert("enum");
                    }
                    TypeDefKind::Option(t) => walk(resolve, t, tags, seen, false),
                    TypeDefKind::Result(r) => {
                        r.ok.iter().chain(r.err.iter()).for_each(|t| walk(resolve, t, tags, seen, false))
                    }
                    TypeDefKind::List(t) => {
                        tags.insert("list");
                        walk(resolve, t, tags, seen, false)
                    }
                    TypeDefKind::Map(k, v) => {
                        tags.insert("map");
                        walk(resolve, k, tags, seen, false);
                        walk(resolve, v, tags, seen, false)
                    }
                    TypeDefKind::FixedLengthList(t, _) => {
                        tags.insert("fixed-list");
                        if def.name.is_some() {
                            tags.insert("named-fixed-list");
                        }
                        walk(resolve, t, tags, seen, false)
                    }
                    TypeDefKind::Future(t) => {
                        tags.insert("future");
                        t.iter().for_each(|t| walk(resolve, t, tags, seen, false))
                    }
                    TypeDefKind::Stream(t) => {
                        tags.insert("stream");
                        t.iter().for_each(|t| walk(resolve, t, tags, seen, false))
                    }
                    TypeDefKind::Unknown => {}
                }
            }
            _ => {}
        }
    }
    let w = &resolve.worlds[world];
    let (mut nif, mut nef, mut nres_exp, mut nres_imp) = (0, 0, 0, 0);
    let mut sync_funcs = 0;
    let mut kebab_resources = vec![];
    for (exported, items) in [(false, &w.imports), (true, &w.exports)] {
        for (_, item) in items.iter() {
            let mut funcs: Vec<&wit_parser::Function> = vec![];
            match item {
                WorldItem::Function(f) => funcs.push(f),
                WorldItem::Interface { id, .. } => {
                    funcs.extend(resolve.interfaces[*id].functions.values());
                    for (n, t) in &resolve.interfaces[*id].types {
                        if matches!(resolve.types[*t].kind, TypeDefKind::Resource) {
                            if exported {
                                nres_exp += 1;
                                if n.contains('-') {
                                    kebab_resources.push(n.clone());
                                }
                            } else {
                                nres_imp += 1;
                            }
                        }
                        walk(resolve, &Type::Id(*t), &mut tags, &mut seen, true);
                    }
                }
                WorldItem::Type { id, .. } => walk(resolve, &Type::Id(*id), &mut tags, &mut seen, true),
            }
            for f in funcs {
                if exported {
                    nef += 1
                } else {
                    nif += 1
                }
                if f.kind.is_async() {
                    tags.insert("async-func");
                } else {
                    sync_funcs += 1;
                }
                for p in &f.params {
                    walk(resolve, &p.ty, &mut tags, &mut seen, false);
                }
                if let Some(r) = &f.result {
                    walk(resolve, r, &mut tags, &mut seen, false);
                }
            }
        }
    }
    json!({"world": w.name, "import_funcs": nif, "export_funcs": nef, "exported_resources": nres_exp, "imported_resources": nres_imp,
           "kebab_exported_resources": kebab_resources, "tags": tags, "sync_funcs": sync_funcs})
}

pub fn string_encoding(s: &str) -> wit_component::StringEncoding {
    match s {
        "utf16" => wit_component::StringEncoding::UTF16,
        "latin1+utf16" | "compact-utf16" => wit_component::StringEncoding::CompactUTF16,
        _ => wit_component::StringEncoding::UTF8,
    }
}

/// The bytes of a `component-type` custom section (what generated bindings embed):
/// decode them and compare the world they describe with the requested one.
pub fn decode_check(bytes: &[u8], resolve: &Resolve, world: WorldId) -> Value {
    // wrap the section into an otherwise empty core module and use the public decoder
    let mut module = wasm_encoder::Module::new();
    module.section(&wasm_encoder::CustomSection { name: "component-type".into(), data: std::borrow::Cow::Borrowed(bytes) });
    let module = module.finish();
    let r = vkit::catch(std::panic::AssertUnwindSafe(|| wit_component::metadata::decode(&module)));
    let (dres, dworld) = match r {
        Ok(Ok((_, b))) => (b.resolve, b.world),
        Ok(Err(e)) => return json!({"ok": false, "stage": "undecodable", "error": format!("{e:#}")}),
        Err((m, l)) => return json!({"ok": false, "stage": "undecodable", "error": format!("decoder panic: {m} at {l}")}),
    };
    let want = worldcmp::summarize(resolve, world);
    let got = worldcmp::summarize(&dres, dworld);
    let mut diff = worldcmp::compare(&want, &got, worldcmp::ImportMode::Equal);
    // metadata carries the whole world: imports must be equal both ways
    for k in want.imports.keys() {
        if !got.imports.contains_key(k) {
            diff.push(("import-missing".to_string(), format!("requested import `{k}` is absent from the embedded world")));
        }
    }
    json!({
        "ok": diff.is_empty(),
        "stage": if diff.is_empty() { Value::Null } else { json!("world-mismatch") },
        "error": diff.first().map(|d| format!("{}: {}", d.0, d.1)).unwrap_or_default(),
        "diff": diff.iter().map(|(k, d)| json!([k, d])).collect::<Vec<_>>(),
    })
}

/// Core module -> component -> decoded world, compared with the requested world.
/// Result: {ok, stage: null|"encode"|"decode"|"world-mismatch"|"encoder-panic", error, diff:[[kind,detail]..], ...}
pub fn encode_check(module: &[u8], resolve: &Resolve, world: WorldId, mode: worldcmp::ImportMode) -> Value {
    let r = vkit::catch(std::panic::AssertUnwindSafe(|| -> anyhow::Result<Vec<u8>> {
        let mut enc = wit_component::ComponentEncoder::default();
        enc.validate(true);
        enc.module(module)?;
        enc.encode()
    }));
    let comp = match r {
        Ok(Ok(c)) => c,
        Ok(Err(e)) => return json!({"ok": false, "stage": "encode", "error": format!("{e:#}")}),
        Err((m, l)) => return json!({"ok": false, "stage": "encoder-panic", "error": format!("{m} at {l}")}),
    };
    let decoded = match wit_component::decode(&comp) {
        Ok(wit_component::DecodedWasm::Component(r, w)) => (r, w),
        Ok(_) => return json!({"ok": false, "stage": "decode", "error": "decoded as a WIT package, not a component"}),
        Err(e) => return json!({"ok": false, "stage": "decode", "error": format!("{e:#}")}),
    };
    let want = worldcmp::summarize(resolve, world);
    let got = worldcmp::summarize(&decoded.0, decoded.1);
    let diff = worldcmp::compare(&want, &got, mode);
    let count = |s: &worldcmp::Summary| -> (usize, usize) {
        let f = |m: &std::collections::BTreeMap<String, worldcmp::Item>| {
            m.values().map(|i| match i { worldcmp::Item::Func(_) => 1, worldcmp::Item::Interface { funcs, .. } => funcs.len(), _ => 0 }).sum::<usize>()
        };
        (f(&s.imports), f(&s.exports))
    };
    let (wi, we) = count(&want);
    let (gi, ge) = count(&got);
    json!({
        "ok": diff.is_empty(),
        "stage": if diff.is_empty() { Value::Null } else { json!("world-mismatch") },
        "error": diff.first().map(|d| format!("{}: {}", d.0, d.1)).unwrap_or_default(),
        "diff": diff.iter().map(|(k, d)| json!([k, d])).collect::<Vec<_>>(),
        "component_bytes": comp.len(),
        "want_import_funcs": wi, "want_export_funcs": we, "got_import_funcs": gi, "got_export_funcs": ge,
    })
}
