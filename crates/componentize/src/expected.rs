//! Which core imports/exports does the component model assign to the items of a
//! world?  Names come from wit-parser's `wasm_import_name`/`wasm_export_name`
//! (legacy mangling, all three lift/lower ABIs, enumerated the way
//! wit-component's `dummy_module` does); signatures come from `cabi_ref`
//! (independent of wit-parser's `wasm_signature`).
use cabi_ref::{Abi, CoreSig, CoreTy, SigKind};
use std::collections::BTreeMap;
use wit_parser::{
    Function, FutureIntrinsic, LiftLowerAbi, ManglingAndAbi, Resolve, ResourceIntrinsic, StreamIntrinsic, Type, TypeDefKind,
    TypeId, WasmExport, WasmExportKind, WasmImport, WorldId, WorldItem, WorldKey,
};

#[derive(Clone, Debug, PartialEq, Eq)]
pub struct Sig {
    pub params: Vec<CoreTy>,
    pub results: Vec<CoreTy>,
}

impl Sig {
    pub fn new(params: &[CoreTy], results: &[CoreTy]) -> Sig {
        Sig { params: params.to_vec(), results: results.to_vec() }
    }
    pub fn text(&self) -> String {
        fn t(c: &CoreTy) -> &'static str {
            match c {
                CoreTy::I32 => "i32",
                CoreTy::I64 => "i64",
                CoreTy::F32 => "f32",
                CoreTy::F64 => "f64",
            }
        }
        format!(
            "({}) -> ({})",
            self.params.iter().map(t).collect::<Vec<_>>().join(", "),
            self.results.iter().map(t).collect::<Vec<_>>().join(", ")
        )
    }
}

impl From<CoreSig> for Sig {
    fn from(s: CoreSig) -> Sig {
        Sig { params: s.params, results: s.results }
    }
}

#[derive(Clone, Debug)]
pub struct ExpExport {
    /// func | post-return | async-lift | async-lift-stackful | callback | dtor | builtin
    pub kind: &'static str,
    /// world key + function name, for messages and for the "required" grouping
    pub item: String,
    pub sig: Sig,
}

#[derive(Clone, Debug)]
pub struct ExpImport {
    /// func | async-lower | resource-drop | resource-new | resource-rep | task-return | future | stream
    pub kind: &'static str,
    pub item: String,
    pub sig: Option<Sig>,
}

#[derive(Default)]
pub struct Expected {
    pub exports: BTreeMap<String, ExpExport>,
    pub imports: BTreeMap<(String, String), ExpImport>,
    /// per exported WIT function: (item, sync name, async-lift name, stackful name, callback name)
    pub required: Vec<Required>,
}

pub struct Required {
    pub item: String,
    pub sync: String,
    pub async_cb: String,
    pub async_stackful: String,
    pub callback: String,
}

use CoreTy::*;

const SYNC: ManglingAndAbi = ManglingAndAbi::Legacy(LiftLowerAbi::Sync);
const ACB: ManglingAndAbi = ManglingAndAbi::Legacy(LiftLowerAbi::AsyncCallback);
const ASF: ManglingAndAbi = ManglingAndAbi::Legacy(LiftLowerAbi::AsyncStackful);

fn item_name(resolve: &Resolve, key: Option<&WorldKey>, f: &str) -> String {
    match key {
        Some(k) => format!("{}#{}", resolve.name_world_key(k), f),
        None => f.to_string(),
    }
}

fn params_of(f: &Function) -> Vec<Type> {
    f.params.iter().map(|p| p.ty).collect()
}

impl Expected {
    pub fn compute(resolve: &Resolve, world: WorldId) -> Expected {
        let mut e = Expected::default();
        let abi = Abi::new(resolve, 4);
        let w = &resolve.worlds[world];
        for (key, item) in &w.imports {
            match item {
                WorldItem::Function(f) => e.imported_func(resolve, &abi, None, f),
                WorldItem::Interface { id, .. } => {
                    for (_, f) in &resolve.interfaces[*id].functions {
                        e.imported_func(resolve, &abi, Some(key), f);
                    }
                    for (_, ty) in &resolve.interfaces[*id].types {
                        e.imported_type(resolve, Some(key), *ty);
                    }
                }
                WorldItem::Type { id, .. } => e.imported_type(resolve, None, *id),
            }
        }
        for (key, item) in &w.exports {
            match item {
                WorldItem::Function(f) => e.exported_func(resolve, &abi, None, f),
                WorldItem::Interface { id, .. } => {
                    for (_, f) in &resolve.interfaces[*id].functions {
                        e.exported_func(resolve, &abi, Some(key), f);
                    }
                    for (_, ty) in &resolve.interfaces[*id].types {
                        e.exported_type(resolve, key, *ty);
                    }
                }
                WorldItem::Type { .. } => {}
            }
        }
        for (n, sig) in [
            ("cabi_realloc", Sig::new(&[I32, I32, I32, I32], &[I32])),
            ("canonical_abi_realloc", Sig::new(&[I32, I32, I32, I32], &[I32])),
            ("cabi_import_realloc", Sig::new(&[I32, I32, I32, I32], &[I32])),
            ("cabi_export_realloc", Sig::new(&[I32, I32, I32, I32], &[I32])),
            ("cabi_realloc_adapter", Sig::new(&[I32, I32, I32, I32], &[I32])),
            ("_initialize", Sig::new(&[], &[])),
        ] {
            e.exports.insert(n.to_string(), ExpExport { kind: "builtin", item: n.to_string(), sig });
        }
        e
    }

    fn imported_func(&mut self, resolve: &Resolve, abi: &Abi, key: Option<&WorldKey>, f: &Function) {
        let item = item_name(resolve, key, &f.name);
        let params = params_of(f);
        let (m, n) = resolve.wasm_import_name(SYNC, WasmImport::Func { interface: key, func: f });
        self.imports.insert(
            (m, n),
            ExpImport { kind: "func", item: item.clone(), sig: Some(abi.signature(&params, f.result.as_ref(), SigKind::SyncLower).into()) },
        );
        let (m, n) = resolve.wasm_import_name(ACB, WasmImport::Func { interface: key, func: f });
        self.imports.insert(
            (m, n),
            ExpImport { kind: "async-lower", item: item.clone(), sig: Some(abi.signature(&params, f.result.as_ref(), SigKind::AsyncLower).into()) },
        );
        self.payload_intrinsics(resolve, key, f, false);
    }

    fn imported_type(&mut self, resolve: &Resolve, key: Option<&WorldKey>, ty: TypeId) {
        if !matches!(resolve.types[ty].kind, TypeDefKind::Resource) {
            return;
        }
        let name = resolve.types[ty].name.clone().unwrap_or_default();
        let (m, n) = resolve
            .wasm_import_name(SYNC, WasmImport::ResourceIntrinsic { interface: key, resource: ty, intrinsic: ResourceIntrinsic::ImportedDrop });
        self.imports.insert((m, n), ExpImport { kind: "resource-drop", item: item_name(resolve, key, &name), sig: Some(Sig::new(&[I32], &[])) });
    }

    fn exported_type(&mut self, resolve: &Resolve, key: &WorldKey, ty: TypeId) {
        if !matches!(resolve.types[ty].kind, TypeDefKind::Resource) {
            return;
        }
        let name = resolve.types[ty].name.clone().unwrap_or_default();
        let item = item_name(resolve, Some(key), &name);
        for (intrinsic, kind, sig) in [
            (ResourceIntrinsic::ExportedDrop, "resource-drop", Sig::new(&[I32], &[])),
            (ResourceIntrinsic::ExportedNew, "resource-new", Sig::new(&[I32], &[I32])),
            (ResourceIntrinsic::ExportedRep, "resource-rep", Sig::new(&[I32], &[I32])),
        ] {
            let (m, n) = resolve.wasm_import_name(SYNC, WasmImport::ResourceIntrinsic { interface: Some(key), resource: ty, intrinsic });
            self.imports.insert((m, n), ExpImport { kind, item: item.clone(), sig: Some(sig) });
        }
        let n = resolve.wasm_export_name(SYNC, WasmExport::ResourceDtor { interface: key, resource: ty });
        self.exports.insert(n, ExpExport { kind: "dtor", item, sig: Sig::new(&[I32], &[]) });
    }

    fn exported_func(&mut self, resolve: &Resolve, abi: &Abi, key: Option<&WorldKey>, f: &Function) {
        let item = item_name(resolve, key, &f.name);
        let params = params_of(f);
        let res = f.result.as_ref();
        let name = |m: ManglingAndAbi, kind: WasmExportKind| resolve.wasm_export_name(m, WasmExport::Func { interface: key, func: f, kind });
        let sync_sig: Sig = abi.signature(&params, res, SigKind::SyncLift).into();
        let sync = name(SYNC, WasmExportKind::Normal);
        let post = name(SYNC, WasmExportKind::PostReturn);
        let acb = name(ACB, WasmExportKind::Normal);
        let cb = name(ACB, WasmExportKind::Callback);
        let asf = name(ASF, WasmExportKind::Normal);
        self.exports.insert(post, ExpExport { kind: "post-return", item: item.clone(), sig: Sig { params: sync_sig.results.clone(), results: vec![] } });
        self.exports.insert(sync.clone(), ExpExport { kind: "func", item: item.clone(), sig: sync_sig });
        self.exports.insert(acb.clone(), ExpExport { kind: "async-lift", item: item.clone(), sig: abi.signature(&params, res, SigKind::AsyncLiftCallback).into() });
        self.exports.insert(cb.clone(), ExpExport { kind: "callback", item: item.clone(), sig: Sig::new(&[I32, I32, I32], &[I32]) });
        self.exports.insert(asf.clone(), ExpExport { kind: "async-lift-stackful", item: item.clone(), sig: abi.signature(&params, res, SigKind::AsyncLiftStackful).into() });
        self.required.push(Required { item: item.clone(), sync, async_cb: acb, async_stackful: asf, callback: cb });
        // task.return
        let (m, n, _) = f.task_return_import(resolve, key, wit_parser::Mangling::Legacy);
        self.imports.insert((m, n), ExpImport { kind: "task-return", item: item.clone(), sig: Some(abi.signature(&[], res, SigKind::TaskReturn).into()) });
        self.payload_intrinsics(resolve, key, f, true);
    }

    fn payload_intrinsics(&mut self, resolve: &Resolve, key: Option<&WorldKey>, f: &Function, exported: bool) {
        let item = item_name(resolve, key, &f.name);
        // `future`/`stream` without a payload type may be named `...-unit]<func>`
        // (wit-parser's `ty: None`; the encoder accepts it for any function)
        {
            use FutureIntrinsic as F;
            use StreamIntrinsic as S;
            for (intr, async_, sig) in [
                (F::New, false, Sig::new(&[], &[I64])),
                (F::Read, false, Sig::new(&[I32, I32], &[I32])),
                (F::Read, true, Sig::new(&[I32, I32], &[I32])),
                (F::Write, false, Sig::new(&[I32, I32], &[I32])),
                (F::Write, true, Sig::new(&[I32, I32], &[I32])),
                (F::CancelRead, false, Sig::new(&[I32], &[I32])),
                (F::CancelRead, true, Sig::new(&[I32], &[I32])),
                (F::CancelWrite, false, Sig::new(&[I32], &[I32])),
                (F::CancelWrite, true, Sig::new(&[I32], &[I32])),
                (F::DropReadable, false, Sig::new(&[I32], &[])),
                (F::DropWritable, false, Sig::new(&[I32], &[])),
            ] {
                let (m, n) = resolve
                    .wasm_import_name(ACB, WasmImport::FutureIntrinsic { interface: key, func: f, ty: None, intrinsic: intr, exported, async_ });
                self.imports.insert((m, n), ExpImport { kind: "future-unit", item: item.clone(), sig: Some(sig) });
            }
            for (intr, async_, sig) in [
                (S::New, false, Sig::new(&[], &[I64])),
                (S::Read, false, Sig::new(&[I32, I32, I32], &[I32])),
                (S::Read, true, Sig::new(&[I32, I32, I32], &[I32])),
                (S::Write, false, Sig::new(&[I32, I32, I32], &[I32])),
                (S::Write, true, Sig::new(&[I32, I32, I32], &[I32])),
                (S::CancelRead, false, Sig::new(&[I32], &[I32])),
                (S::CancelRead, true, Sig::new(&[I32], &[I32])),
                (S::CancelWrite, false, Sig::new(&[I32], &[I32])),
                (S::CancelWrite, true, Sig::new(&[I32], &[I32])),
                (S::DropReadable, false, Sig::new(&[I32], &[])),
                (S::DropWritable, false, Sig::new(&[I32], &[])),
            ] {
                let (m, n) = resolve
                    .wasm_import_name(ACB, WasmImport::StreamIntrinsic { interface: key, func: f, ty: None, intrinsic: intr, exported, async_ });
                self.imports.insert((m, n), ExpImport { kind: "stream-unit", item: item.clone(), sig: Some(sig) });
            }
        }
        for id in f.find_futures_and_streams(resolve) {
            match &resolve.types[id].kind {
                TypeDefKind::Future(_) => {
                    use FutureIntrinsic::*;
                    for (intr, async_, sig) in [
                        (New, false, Sig::new(&[], &[I64])),
                        (Read, false, Sig::new(&[I32, I32], &[I32])),
                        (Read, true, Sig::new(&[I32, I32], &[I32])),
                        (Write, false, Sig::new(&[I32, I32], &[I32])),
                        (Write, true, Sig::new(&[I32, I32], &[I32])),
                        (CancelRead, false, Sig::new(&[I32], &[I32])),
                        (CancelRead, true, Sig::new(&[I32], &[I32])),
                        (CancelWrite, false, Sig::new(&[I32], &[I32])),
                        (CancelWrite, true, Sig::new(&[I32], &[I32])),
                        (DropReadable, false, Sig::new(&[I32], &[])),
                        (DropWritable, false, Sig::new(&[I32], &[])),
                    ] {
                        let (m, n) = resolve.wasm_import_name(
                            ACB,
                            WasmImport::FutureIntrinsic { interface: key, func: f, ty: Some(id), intrinsic: intr, exported, async_ },
                        );
                        self.imports.insert((m, n), ExpImport { kind: "future", item: item.clone(), sig: Some(sig) });
                    }
                }
                TypeDefKind::Stream(_) => {
                    use StreamIntrinsic::*;
                    for (intr, async_, sig) in [
                        (New, false, Sig::new(&[], &[I64])),
                        (Read, false, Sig::new(&[I32, I32, I32], &[I32])),
                        (Read, true, Sig::new(&[I32, I32, I32], &[I32])),
                        (Write, false, Sig::new(&[I32, I32, I32], &[I32])),
                        (Write, true, Sig::new(&[I32, I32, I32], &[I32])),
                        (CancelRead, false, Sig::new(&[I32], &[I32])),
                        (CancelRead, true, Sig::new(&[I32], &[I32])),
                        (CancelWrite, false, Sig::new(&[I32], &[I32])),
                        (CancelWrite, true, Sig::new(&[I32], &[I32])),
                        (DropReadable, false, Sig::new(&[I32], &[])),
                        (DropWritable, false, Sig::new(&[I32], &[])),
                    ] {
                        let (m, n) = resolve.wasm_import_name(
                            ACB,
                            WasmImport::StreamIntrinsic { interface: key, func: f, ty: Some(id), intrinsic: intr, exported, async_ },
                        );
                        self.imports.insert((m, n), ExpImport { kind: "stream", item: item.clone(), sig: Some(sig) });
                    }
                }
                _ => {}
            }
        }
    }
}

/// `$root` / `[export]$root` built-ins that are not tied to a world item.  The
/// component encoder is the judge of those (it rejects unknown names).
pub fn is_root_builtin(module: &str, name: &str) -> bool {
    (module == "$root" || module == "[export]$root") && name.starts_with('[')
}


/// For every function of the world, keyed by (core import module, function name): wit-parser's
/// `find_futures_and_streams` list as (kind, type id index).  Imported functions use the interface
/// module, exported ones the `[export]` module.
pub fn payload_lists(resolve: &Resolve, world: WorldId) -> BTreeMap<(String, String), Vec<(String, usize)>> {
    let mut out = BTreeMap::new();
    let w = &resolve.worlds[world];
    let mut add = |module: String, f: &Function| {
        let list = f
            .find_futures_and_streams(resolve)
            .into_iter()
            .map(|id| {
                let k = match resolve.types[id].kind {
                    TypeDefKind::Future(_) => "future",
                    _ => "stream",
                };
                (k.to_string(), id.index())
            })
            .collect::<Vec<_>>();
        out.insert((module, f.name.clone()), list);
    };
    for (exported, items) in [(false, &w.imports), (true, &w.exports)] {
        let prefix = if exported { "[export]" } else { "" };
        for (key, item) in items.iter() {
            match item {
                WorldItem::Function(f) => add(format!("{prefix}$root"), f),
                WorldItem::Interface { id, .. } => {
                    let m = format!("{prefix}{}", resolve.name_world_key(key));
                    for (_, f) in &resolve.interfaces[*id].functions {
                        add(m.clone(), f);
                    }
                }
                WorldItem::Type { .. } => {}
            }
        }
    }
    out
}
