//! componentize <subcommand> --key value ...
//!   gen-worlds   --seed N --count K [--names adversarial|simple] [--async 1] [--resources 0] [--fixed-lists 1]
//!                [--maps 0] [--error-context 1] [--out FILE]      -> JSON lines {wit, world, tags}
//!   encode-check --module m.wasm --wit w.wit [--world name] [--imports subset|equal]
//!   expected     --wit w.wit [--world name]
//!   c13          --decls d.json --wit w.wit [--world name] [--string-encoding utf8|utf16]
//!   synth        (alias of c13)
use componentize::*;
use serde_json::json;
use std::io::Write;

fn flag(a: &vkit::Args, k: &str, d: bool) -> bool {
    match a.get(k) {
        Some("1") | Some("true") | Some("yes") => true,
        Some("0") | Some("false") | Some("no") => false,
        _ => d,
    }
}

fn main() {
    let args = vkit::Args::parse();
    let cmd = args.free.first().cloned().unwrap_or_default();
    let out = match cmd.as_str() {
        "gen-worlds" => {
            let mut rng = vkit::Rng::new(args.seed());
            let mut cfg = witgen::Cfg::default();
            cfg.names = if args.str("names", "adversarial") == "simple" { witgen::Names::Simple } else { witgen::Names::Adversarial };
            cfg.async_ = flag(&args, "async", false);
            cfg.resources = flag(&args, "resources", true);
            cfg.fixed_lists = flag(&args, "fixed-lists", false);
            cfg.maps = flag(&args, "maps", true);
            cfg.error_context = flag(&args, "error-context", false);
            cfg.docs = flag(&args, "docs", false);
            cfg.ifaces = args.u64("ifaces", cfg.ifaces as u64) as usize;
            cfg.funcs = args.u64("funcs", cfg.funcs as u64) as usize;
            cfg.types = args.u64("types", cfg.types as u64) as usize;
            cfg.max_depth = args.u64("max-depth", cfg.max_depth as u64) as usize;
            let count = args.u64("count", 10);
            let mut w: Box<dyn Write> = match args.get("out") {
                Some(p) if p != "-" => Box::new(std::io::BufWriter::new(std::fs::File::create(p).expect("create out"))),
                _ => Box::new(std::io::stdout()),
            };
            let mut discarded = 0;
            let mut made = 0;
            for i in 0..count {
                let mut r = rng.fork(i);
                match witgen::generate_valid(&mut r, &cfg) {
                    Some((wld, _, _, d)) => {
                        discarded += d;
                        made += 1;
                        writeln!(w, "{}", json!({"wit": wld.wit, "world": wld.world, "tags": wld.tags, "index": i})).unwrap();
                    }
                    None => discarded += 40,
                }
            }
            writeln!(w, "{}", json!({"summary": true, "made": made, "discarded": discarded})).unwrap();
            return;
        }
        "encode-check" => {
            let mode = if args.str("imports", "subset") == "equal" { worldcmp::ImportMode::Equal } else { worldcmp::ImportMode::Subset };
            match (std::fs::read(args.str("module", "")), load_world(&args.str("wit", ""), args.get("world"))) {
                (Ok(m), Ok((r, w))) => encode_check(&m, &r, w, mode),
                (Err(e), _) => json!({"ok": false, "stage": "harness", "error": format!("reading module: {e}")}),
                (_, Err(e)) => json!({"ok": false, "stage": "harness", "error": format!("loading WIT: {e:#}")}),
            }
        }
        "validate" => match std::fs::read_to_string(args.str("wit", "")) {
            Ok(text) => match witgen::parse(&text).and_then(|(r, w)| witgen::check_encodable(&r, w).map(|_| (r, w))) {
                Ok((r, w)) => {
                    let mut v = world_info(&r, w);
                    v["ok"] = json!(true);
                    v
                }
                Err(e) => json!({"ok": false, "stage": "invalid", "error": format!("{e:#}")}),
            },
            Err(e) => json!({"ok": false, "stage": "harness", "error": format!("{e}")}),
        },
        "world-info" => match load_world_like_tests(&args.str("wit", "")) {
            Ok((r, w)) => world_info(&r, w),
            Err(e) => json!({"ok": false, "stage": "harness", "error": format!("loading WIT: {e:#}")}),
        },
        "decode-check" => match (std::fs::read(args.str("bytes", "")), load_world(&args.str("wit", ""), args.get("world"))) {
            (Ok(b), Ok((r, w))) => decode_check(&b, &r, w),
            (Err(e), _) => json!({"ok": false, "stage": "harness", "error": format!("reading bytes: {e}")}),
            (_, Err(e)) => json!({"ok": false, "stage": "harness", "error": format!("loading WIT: {e:#}")}),
        },
        "expected" => match load_world(&args.str("wit", ""), args.get("world")) {
            Ok((r, w)) => {
                let e = expected::Expected::compute(&r, w);
                json!({
                    "exports": e.exports.iter().map(|(n, x)| json!({"name": n, "kind": x.kind, "item": x.item, "sig": x.sig.text()})).collect::<Vec<_>>(),
                    "imports": e.imports.iter().map(|((m, n), x)| json!({"module": m, "name": n, "kind": x.kind, "item": x.item, "sig": x.sig.as_ref().map(|s| s.text())})).collect::<Vec<_>>(),
                    "required": e.required.iter().map(|r| json!({"item": r.item, "sync": r.sync, "async": r.async_cb, "stackful": r.async_stackful, "callback": r.callback})).collect::<Vec<_>>(),
                })
            }
            Err(e) => json!({"ok": false, "stage": "harness", "error": format!("loading WIT: {e:#}")}),
        },
        "c13" | "synth" => {
            let decls = std::fs::read_to_string(args.str("decls", "")).ok().and_then(|s| serde_json::from_str::<serde_json::Value>(&s).ok());
            match (decls, load_world(&args.str("wit", ""), args.get("world"))) {
                (Some(d), Ok((r, w))) => synth::judge(&r, w, &d, string_encoding(&args.str("string-encoding", "utf8"))),
                (None, _) => json!({"ok": false, "stage": "harness", "error": "cannot read --decls"}),
                (_, Err(e)) => json!({"ok": false, "stage": "harness", "error": format!("loading WIT: {e:#}")}),
            }
        }
        _ => {
            eprintln!("usage: componentize gen-worlds|encode-check|expected|c13 ...");
            std::process::exit(2);
        }
    };
    println!("{}", serde_json::to_string(&out).unwrap());
}
