//! Dynamic values, canonical text form, and seeded value generation.
use crate::{Abi, HandleKind, Shape};
use vkit::Rng;
use wit_parser::Type;

#[derive(Clone, Debug, PartialEq)]
pub enum Val {
    Bool(bool),
    U8(u8),
    U16(u16),
    U32(u32),
    U64(u64),
    S8(i8),
    S16(i16),
    S32(i32),
    S64(i64),
    /// raw bits, so NaN payloads compare exactly
    F32(u32),
    F64(u64),
    /// unicode scalar value
    Char(u32),
    Str(String),
    /// list and fixed-length list
    List(Vec<Val>),
    Map(Vec<(Val, Val)>),
    /// record and tuple (positional)
    Record(Vec<Val>),
    /// variant / enum / option / result by case index
    Variant(u32, Option<Box<Val>>),
    Flags(Vec<bool>),
    Handle(u32),
}

impl Val {
    /// Canonical, positional text form shared by every observation channel.
    pub fn text(&self) -> String {
        let mut s = String::new();
        self.write(&mut s);
        s
    }
    fn write(&self, o: &mut String) {
        use std::fmt::Write;
        match self {
            Val::Bool(b) => write!(o, "{}", if *b { "T" } else { "F" }).unwrap(),
            Val::U8(x) => write!(o, "{x}").unwrap(),
            Val::U16(x) => write!(o, "{x}").unwrap(),
            Val::U32(x) => write!(o, "{x}").unwrap(),
            Val::U64(x) => write!(o, "{x}").unwrap(),
            Val::S8(x) => write!(o, "{x}").unwrap(),
            Val::S16(x) => write!(o, "{x}").unwrap(),
            Val::S32(x) => write!(o, "{x}").unwrap(),
            Val::S64(x) => write!(o, "{x}").unwrap(),
            Val::F32(b) => write!(o, "f{b:08x}").unwrap(),
            Val::F64(b) => write!(o, "d{b:016x}").unwrap(),
            Val::Char(c) => write!(o, "c{c:x}").unwrap(),
            Val::Str(s) => {
                o.push('"');
                for b in s.as_bytes() {
                    write!(o, "{b:02x}").unwrap();
                }
                o.push('"');
            }
            Val::List(xs) => {
                o.push('[');
                for (i, x) in xs.iter().enumerate() {
                    if i > 0 {
                        o.push(',');
                    }
                    x.write(o);
                }
                o.push(']');
            }
            Val::Map(xs) => {
                o.push('{');
                for (i, (k, v)) in xs.iter().enumerate() {
                    if i > 0 {
                        o.push(',');
                    }
                    k.write(o);
                    o.push(':');
                    v.write(o);
                }
                o.push('}');
            }
            Val::Record(xs) => {
                o.push('(');
                for (i, x) in xs.iter().enumerate() {
                    if i > 0 {
                        o.push(',');
                    }
                    x.write(o);
                }
                o.push(')');
            }
            Val::Variant(c, p) => {
                write!(o, "#{c}").unwrap();
                if let Some(p) = p {
                    o.push('<');
                    p.write(o);
                    o.push('>');
                }
            }
            Val::Flags(bits) => {
                o.push('b');
                for b in bits {
                    o.push(if *b { '1' } else { '0' });
                }
                o.push(';');
            }
            Val::Handle(h) => write!(o, "h{h}").unwrap(),
        }
    }
}

const STRINGS: &[&str] = &[
    "",
    "a",
    "hello world",
    "héllo wörld ünïcode",
    "日本語テキスト",
    "🦀🚀 emoji \u{10FFFF}",
    "nul\u{0}inside",
    "\u{7f}\u{80}\u{7ff}\u{800}\u{ffff}\u{10000}",
    "line\nbreak\ttab \"quoted\" \\ backslash",
];
const F32S: &[u32] = &[
    0, 0x8000_0000, 0x3f80_0000, 0xbf80_0000, 0x7f80_0000, 0xff80_0000, 0x7fc0_0000, 0x7fc0_0001,
    0xffc0_0000, 0x7f80_0001, 0x7fa0_0000, 0xffff_ffff, 0x0000_0001, 0x007f_ffff, 0x0080_0000, 0x7f7f_ffff,
];
const F64S: &[u64] = &[
    0, 0x8000_0000_0000_0000, 0x3ff0_0000_0000_0000, 0x7ff0_0000_0000_0000, 0xfff0_0000_0000_0000,
    0x7ff8_0000_0000_0000, 0x7ff8_0000_0000_0001, 0x7ff0_0000_0000_0001, 0xffff_ffff_ffff_ffff,
    0x0000_0000_0000_0001, 0x7fef_ffff_ffff_ffff, 0x7ff4_0000_dead_beef,
];
const CHARS: &[u32] = &[0, 0x41, 0x7f, 0x80, 0x7ff, 0x800, 0xd7ff, 0xe000, 0xfffd, 0xffff, 0x10000, 0x10ffff, 0x1f980];

#[derive(Clone, Copy)]
pub struct GenCfg {
    pub max_list: usize,
    /// if set, NaN float payloads are avoided (for channels that may canonicalize)
    pub no_nan: bool,
    /// handles are drawn from 1..=max_handle
    pub max_handle: u32,
    /// restrict strings to ones without interior NUL (C strings are length-carrying, so normally false)
    pub no_nul: bool,
}

impl Default for GenCfg {
    fn default() -> Self {
        GenCfg { max_list: 4, no_nan: false, max_handle: 1 << 20, no_nul: false }
    }
}

fn is_nan32(b: u32) -> bool {
    (b & 0x7f80_0000) == 0x7f80_0000 && (b & 0x007f_ffff) != 0
}
fn is_nan64(b: u64) -> bool {
    (b & 0x7ff0_0000_0000_0000) == 0x7ff0_0000_0000_0000 && (b & 0x000f_ffff_ffff_ffff) != 0
}

impl<'a> Abi<'a> {
    /// Seeded value of type `ty`: boundary values with high probability.
    pub fn gen_val(&self, rng: &mut Rng, ty: &Type, cfg: &GenCfg, depth: usize) -> Val {
        macro_rules! int {
            ($t:ty, $v:ident) => {{
                let r = rng.next();
                let x: $t = match rng.below(8) {
                    0 => 0 as $t,
                    1 => <$t>::MAX,
                    2 => <$t>::MIN,
                    3 => 1 as $t,
                    4 => (<$t>::MAX / 2) as $t,
                    5 => ((<$t>::MAX / 2) as $t).wrapping_add(1),
                    _ => r as $t,
                };
                Val::$v(x)
            }};
        }
        match self.shape(ty) {
            Shape::Bool => Val::Bool(rng.chance(1, 2)),
            Shape::U8 => int!(u8, U8),
            Shape::U16 => int!(u16, U16),
            Shape::U32 => int!(u32, U32),
            Shape::U64 => int!(u64, U64),
            Shape::S8 => int!(i8, S8),
            Shape::S16 => int!(i16, S16),
            Shape::S32 => int!(i32, S32),
            Shape::S64 => int!(i64, S64),
            Shape::F32 => loop {
                let b = if rng.chance(2, 3) { *rng.pick(F32S) } else { rng.next() as u32 };
                if !(cfg.no_nan && is_nan32(b)) {
                    break Val::F32(b);
                }
            },
            Shape::F64 => loop {
                let b = if rng.chance(2, 3) { *rng.pick(F64S) } else { rng.next() };
                if !(cfg.no_nan && is_nan64(b)) {
                    break Val::F64(b);
                }
            },
            Shape::Char => loop {
                let c = if rng.chance(2, 3) { *rng.pick(CHARS) } else { (rng.next() % 0x110000) as u32 };
                if char::from_u32(c).is_some() {
                    break Val::Char(c);
                }
            },
            Shape::String => loop {
                let s = if rng.chance(3, 4) {
                    rng.pick(STRINGS).to_string()
                } else {
                    let n = rng.usize(40);
                    (0..n)
                        .map(|_| loop {
                            let c = if rng.chance(3, 4) { 0x20 + rng.below(0x5f) as u32 } else { (rng.next() % 0x110000) as u32 };
                            if let Some(c) = char::from_u32(c) {
                                break c;
                            }
                        })
                        .collect()
                };
                if !(cfg.no_nul && s.contains('\0')) {
                    break Val::Str(s);
                }
            },
            Shape::Handle(k) => match k {
                HandleKind::Own | HandleKind::Borrow | HandleKind::Future | HandleKind::Stream | HandleKind::ErrorContext => {
                    Val::Handle(1 + rng.below(cfg.max_handle as u64) as u32)
                }
            },
            Shape::List(et) => {
                let n = if depth > 3 { rng.usize(2) } else { self.list_len(rng, cfg) };
                Val::List((0..n).map(|_| self.gen_val(rng, &et, cfg, depth + 1)).collect())
            }
            Shape::Map(k, v) => {
                let n = if depth > 3 { rng.usize(2) } else { self.list_len(rng, cfg) };
                // keys are made distinct: duplicate keys are legal on the wire but
                // collapse in any map data structure
                let mut out: Vec<(Val, Val)> = vec![];
                for _ in 0..n {
                    let key = self.gen_val(rng, &k, cfg, depth + 1);
                    if out.iter().any(|(kk, _)| *kk == key) {
                        continue;
                    }
                    out.push((key, self.gen_val(rng, &v, cfg, depth + 1)));
                }
                Val::Map(out)
            }
            Shape::FixedList(et, n) => Val::List((0..n).map(|_| self.gen_val(rng, &et, cfg, depth + 1)).collect()),
            Shape::Record(fs) => Val::Record(fs.iter().map(|f| self.gen_val(rng, f, cfg, depth + 1)).collect()),
            Shape::Variant(cases, _) => {
                let c = rng.usize(cases.len());
                let p = cases[c].as_ref().map(|t| Box::new(self.gen_val(rng, t, cfg, depth + 1)));
                Val::Variant(c as u32, p)
            }
            Shape::Flags(n) => match rng.below(4) {
                0 => Val::Flags(vec![false; n]),
                1 => Val::Flags(vec![true; n]),
                _ => Val::Flags((0..n).map(|_| rng.chance(1, 2)).collect()),
            },
            Shape::_P(_) => unreachable!(),
        }
    }

    fn list_len(&self, rng: &mut Rng, cfg: &GenCfg) -> usize {
        match rng.below(5) {
            0 => 0,
            1 => 1,
            _ => rng.usize(cfg.max_list + 1),
        }
    }

    /// Values that together make every variant case active at least once at the
    /// top level (plus `extra` random ones).
    pub fn gen_vals(&self, rng: &mut Rng, ty: &Type, cfg: &GenCfg, extra: usize) -> Vec<Val> {
        let mut out = vec![];
        if let Shape::Variant(cases, _) = self.shape(ty) {
            for (c, t) in cases.iter().enumerate().take(40) {
                let p = t.as_ref().map(|t| Box::new(self.gen_val(rng, t, cfg, 1)));
                out.push(Val::Variant(c as u32, p));
            }
        }
        for _ in 0..extra {
            out.push(self.gen_val(rng, ty, cfg, 0));
        }
        out
    }

    /// Structural hash key of a type (distinct "shapes" for evidence).
    pub fn shape_key(&self, ty: &Type) -> String {
        match self.shape(ty) {
            Shape::Bool => "b".into(),
            Shape::U8 => "u8".into(),
            Shape::U16 => "u16".into(),
            Shape::U32 => "u32".into(),
            Shape::U64 => "u64".into(),
            Shape::S8 => "s8".into(),
            Shape::S16 => "s16".into(),
            Shape::S32 => "s32".into(),
            Shape::S64 => "s64".into(),
            Shape::F32 => "f32".into(),
            Shape::F64 => "f64".into(),
            Shape::Char => "c".into(),
            Shape::String => "s".into(),
            Shape::Handle(k) => format!("h{k:?}"),
            Shape::List(t) => format!("l<{}>", self.shape_key(&t)),
            Shape::FixedList(t, n) => format!("fl<{},{n}>", self.shape_key(&t)),
            Shape::Map(k, v) => format!("m<{},{}>", self.shape_key(&k), self.shape_key(&v)),
            Shape::Record(fs) => format!("r({})", fs.iter().map(|f| self.shape_key(f)).collect::<Vec<_>>().join(",")),
            Shape::Variant(cs, k) => format!(
                "v{:?}({})",
                k,
                cs.iter().map(|c| c.as_ref().map(|t| self.shape_key(t)).unwrap_or("_".into())).collect::<Vec<_>>().join("|")
            ),
            Shape::Flags(n) => format!("fg{n}"),
            Shape::_P(_) => unreachable!(),
        }
    }
}
