//! Reference implementation of the Component Model canonical ABI, written from
//! the specification (CanonicalABI.md: despecialize, alignment, elem_size,
//! flatten + join, lower_flat / lift_flat, store / load).  It consumes
//! `wit_parser::Resolve` only as a type AST and shares no code with
//! `wit_parser::abi`, `SizeAlign` or wit-bindgen-core.
//!
//! Generic over pointer width (4 | 8) and over a `Memory`.
pub mod values;
pub use values::*;

use wit_parser::{Handle, Resolve, Type, TypeDefKind, TypeId};

#[derive(Clone, Copy, Debug, PartialEq, Eq, Hash, PartialOrd, Ord)]
pub enum CoreTy {
    I32,
    I64,
    F32,
    F64,
}

/// Flat slot type before the pointer width is applied.
#[derive(Clone, Copy, Debug, PartialEq, Eq, Hash)]
pub enum Flat {
    I32,
    I64,
    F32,
    F64,
    /// pointer into linear memory: i32 on wasm32, i64 with 64-bit pointers
    Ptr,
    /// list/string length: same width as a pointer
    Len,
}

#[derive(Clone, Copy, Debug, PartialEq, Eq)]
pub enum CoreVal {
    I32(u32),
    I64(u64),
    F32(u32),
    F64(u64),
}

impl CoreVal {
    pub fn ty(&self) -> CoreTy {
        match self {
            CoreVal::I32(_) => CoreTy::I32,
            CoreVal::I64(_) => CoreTy::I64,
            CoreVal::F32(_) => CoreTy::F32,
            CoreVal::F64(_) => CoreTy::F64,
        }
    }
    pub fn bits(&self) -> u64 {
        match *self {
            CoreVal::I32(x) | CoreVal::F32(x) => x as u64,
            CoreVal::I64(x) | CoreVal::F64(x) => x,
        }
    }
    pub fn zero(t: CoreTy) -> CoreVal {
        CoreVal::from_bits(t, 0)
    }
    pub fn from_bits(t: CoreTy, b: u64) -> CoreVal {
        match t {
            CoreTy::I32 => CoreVal::I32(b as u32),
            CoreTy::I64 => CoreVal::I64(b),
            CoreTy::F32 => CoreVal::F32(b as u32),
            CoreTy::F64 => CoreVal::F64(b),
        }
    }
}

#[derive(Clone, Copy, Debug, PartialEq, Eq)]
pub enum StringEncoding {
    Utf8,
    Utf16,
}

pub trait Memory {
    fn read(&self, addr: u64, len: usize) -> Result<Vec<u8>, String>;
    fn write(&mut self, addr: u64, bytes: &[u8]) -> Result<(), String>;
    /// the `realloc(0, 0, align, size)` of the canonical ABI
    fn alloc(&mut self, size: usize, align: usize) -> Result<u64, String>;
}

pub const MAX_FLAT_PARAMS: usize = 16;
pub const MAX_FLAT_ASYNC_PARAMS: usize = 4;
pub const MAX_FLAT_RESULTS: usize = 1;

#[derive(Clone, Copy)]
pub struct Abi<'a> {
    pub resolve: &'a Resolve,
    /// pointer width in bytes: 4 or 8
    pub ptr: usize,
    pub enc: StringEncoding,
}

/// A despecialized view of a type.
pub enum Shape<'a> {
    Bool,
    U8,
    U16,
    U32,
    U64,
    S8,
    S16,
    S32,
    S64,
    F32,
    F64,
    Char,
    String,
    /// own, borrow, future, stream, error-context: an i32 index
    Handle(HandleKind),
    List(Type),
    FixedList(Type, u32),
    Map(Type, Type),
    /// record or tuple
    Record(Vec<Type>),
    /// variant, enum, option, result: one optional payload per case
    Variant(Vec<Option<Type>>, VariantKind),
    Flags(usize),
    #[allow(dead_code)]
    _P(std::marker::PhantomData<&'a ()>),
}

#[derive(Clone, Copy, Debug, PartialEq, Eq)]
pub enum HandleKind {
    Own,
    Borrow,
    Future,
    Stream,
    ErrorContext,
}

#[derive(Clone, Copy, Debug, PartialEq, Eq)]
pub enum VariantKind {
    Variant,
    Enum,
    Option,
    Result,
}

fn align_to(x: usize, a: usize) -> usize {
    (x + a - 1) / a * a
}

impl<'a> Abi<'a> {
    pub fn new(resolve: &'a Resolve, ptr: usize) -> Abi<'a> {
        assert!(ptr == 4 || ptr == 8);
        Abi { resolve, ptr, enc: StringEncoding::Utf8 }
    }

    pub fn dealias(&self, ty: &Type) -> Type {
        let mut t = *ty;
        loop {
            match t {
                Type::Id(id) => match &self.resolve.types[id].kind {
                    TypeDefKind::Type(inner) => t = *inner,
                    _ => return t,
                },
                _ => return t,
            }
        }
    }

    pub fn shape(&self, ty: &Type) -> Shape<'a> {
        match self.dealias(ty) {
            Type::Bool => Shape::Bool,
            Type::U8 => Shape::U8,
            Type::U16 => Shape::U16,
            Type::U32 => Shape::U32,
            Type::U64 => Shape::U64,
            Type::S8 => Shape::S8,
            Type::S16 => Shape::S16,
            Type::S32 => Shape::S32,
            Type::S64 => Shape::S64,
            Type::F32 => Shape::F32,
            Type::F64 => Shape::F64,
            Type::Char => Shape::Char,
            Type::String => Shape::String,
            Type::ErrorContext => Shape::Handle(HandleKind::ErrorContext),
            Type::Id(id) => self.shape_id(id),
        }
    }

    fn shape_id(&self, id: TypeId) -> Shape<'a> {
        match &self.resolve.types[id].kind {
            TypeDefKind::Record(r) => Shape::Record(r.fields.iter().map(|f| f.ty).collect()),
            TypeDefKind::Tuple(t) => Shape::Record(t.types.clone()),
            TypeDefKind::Flags(f) => Shape::Flags(f.flags.len()),
            TypeDefKind::Variant(v) => {
                Shape::Variant(v.cases.iter().map(|c| c.ty).collect(), VariantKind::Variant)
            }
            TypeDefKind::Enum(e) => {
                Shape::Variant(e.cases.iter().map(|_| None).collect(), VariantKind::Enum)
            }
            TypeDefKind::Option(t) => Shape::Variant(vec![None, Some(*t)], VariantKind::Option),
            TypeDefKind::Result(r) => Shape::Variant(vec![r.ok, r.err], VariantKind::Result),
            TypeDefKind::List(t) => Shape::List(*t),
            TypeDefKind::FixedLengthList(t, n) => Shape::FixedList(*t, *n),
            TypeDefKind::Map(k, v) => Shape::Map(*k, *v),
            TypeDefKind::Handle(Handle::Own(_)) => Shape::Handle(HandleKind::Own),
            TypeDefKind::Handle(Handle::Borrow(_)) => Shape::Handle(HandleKind::Borrow),
            TypeDefKind::Future(_) => Shape::Handle(HandleKind::Future),
            TypeDefKind::Stream(_) => Shape::Handle(HandleKind::Stream),
            TypeDefKind::Resource => panic!("cabi-ref: bare resource is not a value type"),
            TypeDefKind::Type(_) => unreachable!(),
            TypeDefKind::Unknown => panic!("cabi-ref: unknown type"),
        }
    }

    // ---------------------------------------------------------------- layout

    pub fn discriminant_size(ncases: usize) -> usize {
        // spec: discriminant_type(cases): n <= 2^8 -> u8, <= 2^16 -> u16, else u32
        if ncases <= 1 << 8 {
            1
        } else if ncases <= 1 << 16 {
            2
        } else {
            4
        }
    }

    pub fn alignment(&self, ty: &Type) -> usize {
        match self.shape(ty) {
            Shape::Bool | Shape::U8 | Shape::S8 => 1,
            Shape::U16 | Shape::S16 => 2,
            Shape::U32 | Shape::S32 | Shape::F32 | Shape::Char => 4,
            Shape::U64 | Shape::S64 | Shape::F64 => 8,
            Shape::String | Shape::List(_) | Shape::Map(..) => self.ptr,
            Shape::Handle(_) => 4,
            Shape::FixedList(t, _) => self.alignment(&t),
            Shape::Record(fs) => fs.iter().map(|f| self.alignment(f)).max().unwrap_or(1),
            Shape::Variant(cases, _) => {
                let d = Self::discriminant_size(cases.len());
                d.max(self.max_case_alignment(&cases))
            }
            Shape::Flags(n) => {
                if n <= 8 {
                    1
                } else if n <= 16 {
                    2
                } else {
                    4
                }
            }
            Shape::_P(_) => unreachable!(),
        }
    }

    fn max_case_alignment(&self, cases: &[Option<Type>]) -> usize {
        cases.iter().flatten().map(|t| self.alignment(t)).max().unwrap_or(1)
    }

    pub fn elem_size(&self, ty: &Type) -> usize {
        match self.shape(ty) {
            Shape::Bool | Shape::U8 | Shape::S8 => 1,
            Shape::U16 | Shape::S16 => 2,
            Shape::U32 | Shape::S32 | Shape::F32 | Shape::Char => 4,
            Shape::U64 | Shape::S64 | Shape::F64 => 8,
            Shape::String | Shape::List(_) | Shape::Map(..) => 2 * self.ptr,
            Shape::Handle(_) => 4,
            Shape::FixedList(t, n) => self.elem_size(&t) * n as usize,
            Shape::Record(fs) => {
                let mut s = 0;
                for f in &fs {
                    s = align_to(s, self.alignment(f));
                    s += self.elem_size(f);
                }
                align_to(s, self.alignment(ty))
            }
            Shape::Variant(cases, _) => {
                let mut s = Self::discriminant_size(cases.len());
                s = align_to(s, self.max_case_alignment(&cases));
                let cs = cases.iter().flatten().map(|t| self.elem_size(t)).max().unwrap_or(0);
                s += cs;
                align_to(s, self.alignment(ty))
            }
            Shape::Flags(n) => {
                if n <= 8 {
                    1
                } else if n <= 16 {
                    2
                } else {
                    4 * ((n + 31) / 32)
                }
            }
            Shape::_P(_) => unreachable!(),
        }
    }

    pub fn field_offsets(&self, fields: &[Type]) -> Vec<usize> {
        let mut s = 0;
        let mut out = vec![];
        for f in fields {
            s = align_to(s, self.alignment(f));
            out.push(s);
            s += self.elem_size(f);
        }
        out
    }

    pub fn payload_offset(&self, cases: &[Option<Type>]) -> usize {
        align_to(Self::discriminant_size(cases.len()), self.max_case_alignment(cases))
    }

    /// (size, align) of a tuple of `tys` (parameter record / results record)
    pub fn record_layout(&self, tys: &[Type]) -> (usize, usize) {
        let mut s = 0;
        let mut a = 1;
        for f in tys {
            let fa = self.alignment(f);
            a = a.max(fa);
            s = align_to(s, fa);
            s += self.elem_size(f);
        }
        (align_to(s, a), a)
    }

    // --------------------------------------------------------------- flatten

    pub fn core(&self, f: Flat) -> CoreTy {
        match f {
            Flat::I32 => CoreTy::I32,
            Flat::I64 => CoreTy::I64,
            Flat::F32 => CoreTy::F32,
            Flat::F64 => CoreTy::F64,
            Flat::Ptr | Flat::Len => {
                if self.ptr == 4 {
                    CoreTy::I32
                } else {
                    CoreTy::I64
                }
            }
        }
    }

    /// spec `join` on concrete core types
    pub fn join(a: CoreTy, b: CoreTy) -> CoreTy {
        use CoreTy::*;
        if a == b {
            return a;
        }
        match (a, b) {
            (I32, F32) | (F32, I32) => I32,
            _ => I64,
        }
    }

    pub fn flatten(&self, ty: &Type) -> Vec<CoreTy> {
        let mut out = vec![];
        self.flatten_into(ty, &mut out);
        out
    }

    fn flatten_into(&self, ty: &Type, out: &mut Vec<CoreTy>) {
        match self.shape(ty) {
            Shape::Bool
            | Shape::U8
            | Shape::S8
            | Shape::U16
            | Shape::S16
            | Shape::U32
            | Shape::S32
            | Shape::Char
            | Shape::Handle(_) => out.push(CoreTy::I32),
            Shape::U64 | Shape::S64 => out.push(CoreTy::I64),
            Shape::F32 => out.push(CoreTy::F32),
            Shape::F64 => out.push(CoreTy::F64),
            Shape::String | Shape::List(_) | Shape::Map(..) => {
                out.push(self.core(Flat::Ptr));
                out.push(self.core(Flat::Len));
            }
            Shape::FixedList(t, n) => {
                for _ in 0..n {
                    self.flatten_into(&t, out);
                }
            }
            Shape::Record(fs) => {
                for f in &fs {
                    self.flatten_into(f, out);
                }
            }
            Shape::Variant(cases, _) => {
                out.push(CoreTy::I32);
                let mut joined: Vec<CoreTy> = vec![];
                for c in cases.iter().flatten() {
                    for (i, ft) in self.flatten(c).into_iter().enumerate() {
                        if i < joined.len() {
                            joined[i] = Self::join(joined[i], ft);
                        } else {
                            joined.push(ft);
                        }
                    }
                }
                out.extend(joined);
            }
            Shape::Flags(n) => {
                let words = if n == 0 { 0 } else if n <= 32 { 1 } else { (n + 31) / 32 };
                for _ in 0..words {
                    out.push(CoreTy::I32);
                }
            }
            Shape::_P(_) => unreachable!(),
        }
    }

    // ------------------------------------------------------------ store/load

    fn wr_uint(&self, mem: &mut dyn Memory, addr: u64, v: u64, n: usize) -> Result<(), String> {
        mem.write(addr, &v.to_le_bytes()[..n])
    }
    fn rd_uint(&self, mem: &dyn Memory, addr: u64, n: usize) -> Result<u64, String> {
        let b = mem.read(addr, n)?;
        let mut a = [0u8; 8];
        a[..n].copy_from_slice(&b);
        Ok(u64::from_le_bytes(a))
    }

    pub fn encode_string(&self, s: &str) -> (Vec<u8>, usize, usize) {
        match self.enc {
            StringEncoding::Utf8 => (s.as_bytes().to_vec(), s.len(), 1),
            StringEncoding::Utf16 => {
                let units: Vec<u16> = s.encode_utf16().collect();
                let mut b = vec![];
                for u in &units {
                    b.extend_from_slice(&u.to_le_bytes());
                }
                (b, units.len(), 2)
            }
        }
    }

    /// allocate + write string contents; returns (ptr, code-unit count)
    pub fn store_string_data(&self, mem: &mut dyn Memory, s: &str) -> Result<(u64, u64), String> {
        let (bytes, units, align) = self.encode_string(s);
        if bytes.is_empty() {
            // zero-length: any aligned non-null-ish pointer; realloc(0,0,align,0)
            let p = mem.alloc(0, align)?;
            return Ok((p, 0));
        }
        let p = mem.alloc(bytes.len(), align)?;
        mem.write(p, &bytes)?;
        Ok((p, units as u64))
    }

    pub fn load_string_data(&self, mem: &dyn Memory, ptr: u64, units: u64) -> Result<String, String> {
        match self.enc {
            StringEncoding::Utf8 => {
                let b = mem.read(ptr, units as usize)?;
                String::from_utf8(b).map_err(|e| format!("invalid utf-8: {e}"))
            }
            StringEncoding::Utf16 => {
                let b = mem.read(ptr, units as usize * 2)?;
                let u: Vec<u16> = b.chunks(2).map(|c| u16::from_le_bytes([c[0], c[1]])).collect();
                String::from_utf16(&u).map_err(|e| format!("invalid utf-16: {e}"))
            }
        }
    }

    pub fn store_list_data(&self, mem: &mut dyn Memory, elems: &[Val], ety: &Type) -> Result<(u64, u64), String> {
        let es = self.elem_size(ety);
        let ea = self.alignment(ety);
        let p = mem.alloc(es * elems.len(), ea)?;
        for (i, e) in elems.iter().enumerate() {
            self.store(mem, e, ety, p + (i * es) as u64)?;
        }
        Ok((p, elems.len() as u64))
    }

    fn map_entry_layout(&self, k: &Type, v: &Type) -> (usize, usize, usize) {
        // tuple<k, v>
        let ka = self.alignment(k);
        let va = self.alignment(v);
        let voff = align_to(self.elem_size(k), va);
        let a = ka.max(va);
        let size = align_to(voff + self.elem_size(v), a);
        (size, a, voff)
    }

    pub fn store_map_data(&self, mem: &mut dyn Memory, entries: &[(Val, Val)], k: &Type, v: &Type) -> Result<(u64, u64), String> {
        let (es, ea, voff) = self.map_entry_layout(k, v);
        let p = mem.alloc(es * entries.len(), ea)?;
        for (i, (kv, vv)) in entries.iter().enumerate() {
            let base = p + (i * es) as u64;
            self.store(mem, kv, k, base)?;
            self.store(mem, vv, v, base + voff as u64)?;
        }
        Ok((p, entries.len() as u64))
    }

    pub fn store(&self, mem: &mut dyn Memory, val: &Val, ty: &Type, addr: u64) -> Result<(), String> {
        debug_assert!(addr as usize % 1 == 0);
        match (self.shape(ty), val) {
            (Shape::Bool, Val::Bool(b)) => self.wr_uint(mem, addr, *b as u64, 1),
            (Shape::U8, Val::U8(x)) => self.wr_uint(mem, addr, *x as u64, 1),
            (Shape::S8, Val::S8(x)) => self.wr_uint(mem, addr, *x as u8 as u64, 1),
            (Shape::U16, Val::U16(x)) => self.wr_uint(mem, addr, *x as u64, 2),
            (Shape::S16, Val::S16(x)) => self.wr_uint(mem, addr, *x as u16 as u64, 2),
            (Shape::U32, Val::U32(x)) => self.wr_uint(mem, addr, *x as u64, 4),
            (Shape::S32, Val::S32(x)) => self.wr_uint(mem, addr, *x as u32 as u64, 4),
            (Shape::U64, Val::U64(x)) => self.wr_uint(mem, addr, *x, 8),
            (Shape::S64, Val::S64(x)) => self.wr_uint(mem, addr, *x as u64, 8),
            (Shape::F32, Val::F32(b)) => self.wr_uint(mem, addr, *b as u64, 4),
            (Shape::F64, Val::F64(b)) => self.wr_uint(mem, addr, *b, 8),
            (Shape::Char, Val::Char(c)) => self.wr_uint(mem, addr, *c as u64, 4),
            (Shape::Handle(_), Val::Handle(h)) => self.wr_uint(mem, addr, *h as u64, 4),
            (Shape::String, Val::Str(s)) => {
                let (p, n) = self.store_string_data(mem, s)?;
                self.wr_uint(mem, addr, p, self.ptr)?;
                self.wr_uint(mem, addr + self.ptr as u64, n, self.ptr)
            }
            (Shape::List(et), Val::List(es)) => {
                let (p, n) = self.store_list_data(mem, es, &et)?;
                self.wr_uint(mem, addr, p, self.ptr)?;
                self.wr_uint(mem, addr + self.ptr as u64, n, self.ptr)
            }
            (Shape::Map(k, v), Val::Map(es)) => {
                let (p, n) = self.store_map_data(mem, es, &k, &v)?;
                self.wr_uint(mem, addr, p, self.ptr)?;
                self.wr_uint(mem, addr + self.ptr as u64, n, self.ptr)
            }
            (Shape::FixedList(et, n), Val::List(es)) => {
                assert_eq!(n as usize, es.len());
                let sz = self.elem_size(&et);
                for (i, e) in es.iter().enumerate() {
                    self.store(mem, e, &et, addr + (i * sz) as u64)?;
                }
                Ok(())
            }
            (Shape::Record(fs), Val::Record(vs)) => {
                assert_eq!(fs.len(), vs.len());
                let offs = self.field_offsets(&fs);
                for ((f, v), o) in fs.iter().zip(vs).zip(offs) {
                    self.store(mem, v, f, addr + o as u64)?;
                }
                Ok(())
            }
            (Shape::Variant(cases, _), Val::Variant(case, payload)) => {
                let d = Self::discriminant_size(cases.len());
                self.wr_uint(mem, addr, *case as u64, d)?;
                if let (Some(t), Some(p)) = (&cases[*case as usize], payload) {
                    self.store(mem, p, t, addr + self.payload_offset(&cases) as u64)?;
                }
                Ok(())
            }
            (Shape::Flags(n), Val::Flags(bits)) => {
                assert_eq!(n, bits.len());
                let sz = self.elem_size(ty);
                let mut bytes = vec![0u8; sz];
                for (i, b) in bits.iter().enumerate() {
                    if *b {
                        bytes[i / 8] |= 1 << (i % 8);
                    }
                }
                mem.write(addr, &bytes)
            }
            (_, v) => Err(format!("cabi-ref store: value {v:?} does not match type")),
        }
    }

    pub fn load(&self, mem: &dyn Memory, ty: &Type, addr: u64) -> Result<Val, String> {
        Ok(match self.shape(ty) {
            Shape::Bool => Val::Bool(self.rd_uint(mem, addr, 1)? != 0),
            Shape::U8 => Val::U8(self.rd_uint(mem, addr, 1)? as u8),
            Shape::S8 => Val::S8(self.rd_uint(mem, addr, 1)? as u8 as i8),
            Shape::U16 => Val::U16(self.rd_uint(mem, addr, 2)? as u16),
            Shape::S16 => Val::S16(self.rd_uint(mem, addr, 2)? as u16 as i16),
            Shape::U32 => Val::U32(self.rd_uint(mem, addr, 4)? as u32),
            Shape::S32 => Val::S32(self.rd_uint(mem, addr, 4)? as u32 as i32),
            Shape::U64 => Val::U64(self.rd_uint(mem, addr, 8)?),
            Shape::S64 => Val::S64(self.rd_uint(mem, addr, 8)? as i64),
            Shape::F32 => Val::F32(self.rd_uint(mem, addr, 4)? as u32),
            Shape::F64 => Val::F64(self.rd_uint(mem, addr, 8)?),
            Shape::Char => Val::Char(self.rd_uint(mem, addr, 4)? as u32),
            Shape::Handle(_) => Val::Handle(self.rd_uint(mem, addr, 4)? as u32),
            Shape::String => {
                let p = self.rd_uint(mem, addr, self.ptr)?;
                let n = self.rd_uint(mem, addr + self.ptr as u64, self.ptr)?;
                Val::Str(self.load_string_data(mem, p, n)?)
            }
            Shape::List(et) => {
                let p = self.rd_uint(mem, addr, self.ptr)?;
                let n = self.rd_uint(mem, addr + self.ptr as u64, self.ptr)?;
                Val::List(self.load_list_data(mem, &et, p, n)?)
            }
            Shape::Map(k, v) => {
                let p = self.rd_uint(mem, addr, self.ptr)?;
                let n = self.rd_uint(mem, addr + self.ptr as u64, self.ptr)?;
                Val::Map(self.load_map_data(mem, &k, &v, p, n)?)
            }
            Shape::FixedList(et, n) => {
                let sz = self.elem_size(&et);
                let mut out = vec![];
                for i in 0..n as usize {
                    out.push(self.load(mem, &et, addr + (i * sz) as u64)?);
                }
                Val::List(out)
            }
            Shape::Record(fs) => {
                let offs = self.field_offsets(&fs);
                let mut out = vec![];
                for (f, o) in fs.iter().zip(offs) {
                    out.push(self.load(mem, f, addr + o as u64)?);
                }
                Val::Record(out)
            }
            Shape::Variant(cases, _) => {
                let d = Self::discriminant_size(cases.len());
                let case = self.rd_uint(mem, addr, d)? as u32;
                if case as usize >= cases.len() {
                    return Err(format!("invalid discriminant {case}"));
                }
                let payload = match &cases[case as usize] {
                    Some(t) => Some(Box::new(self.load(mem, t, addr + self.payload_offset(&cases) as u64)?)),
                    None => None,
                };
                Val::Variant(case, payload)
            }
            Shape::Flags(n) => {
                let sz = self.elem_size(ty);
                let bytes = mem.read(addr, sz)?;
                Val::Flags((0..n).map(|i| bytes[i / 8] & (1 << (i % 8)) != 0).collect())
            }
            Shape::_P(_) => unreachable!(),
        })
    }

    pub fn load_list_data(&self, mem: &dyn Memory, et: &Type, p: u64, n: u64) -> Result<Vec<Val>, String> {
        let sz = self.elem_size(et);
        let mut out = vec![];
        for i in 0..n as usize {
            out.push(self.load(mem, et, p + (i * sz) as u64)?);
        }
        Ok(out)
    }

    pub fn load_map_data(&self, mem: &dyn Memory, k: &Type, v: &Type, p: u64, n: u64) -> Result<Vec<(Val, Val)>, String> {
        let (es, _, voff) = self.map_entry_layout(k, v);
        let mut out = vec![];
        for i in 0..n as usize {
            let base = p + (i * es) as u64;
            out.push((self.load(mem, k, base)?, self.load(mem, v, base + voff as u64)?));
        }
        Ok(out)
    }

    // ------------------------------------------------------------ flat forms

    fn ptr_val(&self, p: u64) -> CoreVal {
        if self.ptr == 4 {
            CoreVal::I32(p as u32)
        } else {
            CoreVal::I64(p)
        }
    }

    pub fn lower_flat(&self, mem: &mut dyn Memory, val: &Val, ty: &Type) -> Result<Vec<CoreVal>, String> {
        let mut out = vec![];
        self.lower_flat_into(mem, val, ty, &mut out)?;
        Ok(out)
    }

    fn lower_flat_into(&self, mem: &mut dyn Memory, val: &Val, ty: &Type, out: &mut Vec<CoreVal>) -> Result<(), String> {
        match (self.shape(ty), val) {
            (Shape::Bool, Val::Bool(b)) => out.push(CoreVal::I32(*b as u32)),
            (Shape::U8, Val::U8(x)) => out.push(CoreVal::I32(*x as u32)),
            (Shape::U16, Val::U16(x)) => out.push(CoreVal::I32(*x as u32)),
            (Shape::U32, Val::U32(x)) => out.push(CoreVal::I32(*x)),
            (Shape::S8, Val::S8(x)) => out.push(CoreVal::I32(*x as i32 as u32)),
            (Shape::S16, Val::S16(x)) => out.push(CoreVal::I32(*x as i32 as u32)),
            (Shape::S32, Val::S32(x)) => out.push(CoreVal::I32(*x as u32)),
            (Shape::U64, Val::U64(x)) => out.push(CoreVal::I64(*x)),
            (Shape::S64, Val::S64(x)) => out.push(CoreVal::I64(*x as u64)),
            (Shape::F32, Val::F32(b)) => out.push(CoreVal::F32(*b)),
            (Shape::F64, Val::F64(b)) => out.push(CoreVal::F64(*b)),
            (Shape::Char, Val::Char(c)) => out.push(CoreVal::I32(*c)),
            (Shape::Handle(_), Val::Handle(h)) => out.push(CoreVal::I32(*h)),
            (Shape::String, Val::Str(s)) => {
                let (p, n) = self.store_string_data(mem, s)?;
                out.push(self.ptr_val(p));
                out.push(self.ptr_val(n));
            }
            (Shape::List(et), Val::List(es)) => {
                let (p, n) = self.store_list_data(mem, es, &et)?;
                out.push(self.ptr_val(p));
                out.push(self.ptr_val(n));
            }
            (Shape::Map(k, v), Val::Map(es)) => {
                let (p, n) = self.store_map_data(mem, es, &k, &v)?;
                out.push(self.ptr_val(p));
                out.push(self.ptr_val(n));
            }
            (Shape::FixedList(et, n), Val::List(es)) => {
                assert_eq!(n as usize, es.len());
                for e in es {
                    self.lower_flat_into(mem, e, &et, out)?;
                }
            }
            (Shape::Record(fs), Val::Record(vs)) => {
                assert_eq!(fs.len(), vs.len());
                for (f, v) in fs.iter().zip(vs) {
                    self.lower_flat_into(mem, v, f, out)?;
                }
            }
            (Shape::Variant(cases, _), Val::Variant(case, payload)) => {
                let full = self.flatten(ty);
                out.push(CoreVal::I32(*case));
                let mut pv = vec![];
                if let (Some(t), Some(p)) = (&cases[*case as usize], payload) {
                    self.lower_flat_into(mem, p, t, &mut pv)?;
                }
                for (i, want) in full[1..].iter().enumerate() {
                    if i < pv.len() {
                        out.push(Self::coerce_into_slot(pv[i], *want));
                    } else {
                        out.push(CoreVal::zero(*want));
                    }
                }
            }
            (Shape::Flags(n), Val::Flags(bits)) => {
                assert_eq!(n, bits.len());
                let words = if n == 0 { 0 } else { (n + 31) / 32 };
                for w in 0..words {
                    let mut x = 0u32;
                    for i in 0..32 {
                        if w * 32 + i < n && bits[w * 32 + i] {
                            x |= 1 << i;
                        }
                    }
                    out.push(CoreVal::I32(x));
                }
            }
            (_, v) => return Err(format!("cabi-ref lower_flat: value {v:?} does not match type")),
        }
        Ok(())
    }

    /// spec lower_flat_variant coercion: have -> want (joined slot)
    pub fn coerce_into_slot(v: CoreVal, want: CoreTy) -> CoreVal {
        match (v, want) {
            (CoreVal::F32(b), CoreTy::I32) => CoreVal::I32(b),
            (CoreVal::I32(b), CoreTy::I64) => CoreVal::I64(b as u64),
            (CoreVal::F32(b), CoreTy::I64) => CoreVal::I64(b as u64),
            (CoreVal::F64(b), CoreTy::I64) => CoreVal::I64(b),
            (v, w) => {
                assert_eq!(v.ty(), w, "join produced an impossible pair");
                v
            }
        }
    }

    /// spec lift_flat_variant CoerceValueIter: have (joined slot) -> want
    pub fn coerce_from_slot(v: CoreVal, want: CoreTy) -> CoreVal {
        match (v, want) {
            (CoreVal::I32(b), CoreTy::F32) => CoreVal::F32(b),
            (CoreVal::I64(b), CoreTy::I32) => CoreVal::I32(b as u32),
            (CoreVal::I64(b), CoreTy::F32) => CoreVal::F32(b as u32),
            (CoreVal::I64(b), CoreTy::F64) => CoreVal::F64(b),
            (v, w) => {
                assert_eq!(v.ty(), w, "join produced an impossible pair");
                v
            }
        }
    }

    pub fn lift_flat(&self, mem: &dyn Memory, vals: &mut std::slice::Iter<CoreVal>, ty: &Type) -> Result<Val, String> {
        fn i32_of(v: Option<&CoreVal>) -> Result<u32, String> {
            match v {
                Some(CoreVal::I32(x)) => Ok(*x),
                other => Err(format!("expected i32, got {other:?}")),
            }
        }
        let ptr_of = |v: Option<&CoreVal>| -> Result<u64, String> {
            match (v, self.ptr) {
                (Some(CoreVal::I32(x)), 4) => Ok(*x as u64),
                (Some(CoreVal::I64(x)), 8) => Ok(*x),
                (other, _) => Err(format!("expected pointer-width int, got {other:?}")),
            }
        };
        Ok(match self.shape(ty) {
            Shape::Bool => Val::Bool(i32_of(vals.next())? != 0),
            Shape::U8 => Val::U8(i32_of(vals.next())? as u8),
            Shape::U16 => Val::U16(i32_of(vals.next())? as u16),
            Shape::U32 => Val::U32(i32_of(vals.next())?),
            Shape::S8 => Val::S8(i32_of(vals.next())? as u8 as i8),
            Shape::S16 => Val::S16(i32_of(vals.next())? as u16 as i16),
            Shape::S32 => Val::S32(i32_of(vals.next())? as i32),
            Shape::U64 => match vals.next() {
                Some(CoreVal::I64(x)) => Val::U64(*x),
                o => return Err(format!("expected i64, got {o:?}")),
            },
            Shape::S64 => match vals.next() {
                Some(CoreVal::I64(x)) => Val::S64(*x as i64),
                o => return Err(format!("expected i64, got {o:?}")),
            },
            Shape::F32 => match vals.next() {
                Some(CoreVal::F32(x)) => Val::F32(*x),
                o => return Err(format!("expected f32, got {o:?}")),
            },
            Shape::F64 => match vals.next() {
                Some(CoreVal::F64(x)) => Val::F64(*x),
                o => return Err(format!("expected f64, got {o:?}")),
            },
            Shape::Char => Val::Char(i32_of(vals.next())?),
            Shape::Handle(_) => Val::Handle(i32_of(vals.next())?),
            Shape::String => {
                let p = ptr_of(vals.next())?;
                let n = ptr_of(vals.next())?;
                Val::Str(self.load_string_data(mem, p, n)?)
            }
            Shape::List(et) => {
                let p = ptr_of(vals.next())?;
                let n = ptr_of(vals.next())?;
                Val::List(self.load_list_data(mem, &et, p, n)?)
            }
            Shape::Map(k, v) => {
                let p = ptr_of(vals.next())?;
                let n = ptr_of(vals.next())?;
                Val::Map(self.load_map_data(mem, &k, &v, p, n)?)
            }
            Shape::FixedList(et, n) => {
                let mut out = vec![];
                for _ in 0..n {
                    out.push(self.lift_flat(mem, vals, &et)?);
                }
                Val::List(out)
            }
            Shape::Record(fs) => {
                let mut out = vec![];
                for f in &fs {
                    out.push(self.lift_flat(mem, vals, f)?);
                }
                Val::Record(out)
            }
            Shape::Variant(cases, _) => {
                let full = self.flatten(ty);
                let case = i32_of(vals.next())?;
                if case as usize >= cases.len() {
                    return Err(format!("invalid discriminant {case}"));
                }
                let slots: Vec<CoreVal> = (0..full.len() - 1)
                    .map(|_| vals.next().copied().ok_or("too few flat values".to_string()))
                    .collect::<Result<_, _>>()?;
                let payload = match &cases[case as usize] {
                    Some(t) => {
                        let want = self.flatten(t);
                        let coerced: Vec<CoreVal> = want
                            .iter()
                            .zip(&slots)
                            .map(|(w, s)| Self::coerce_from_slot(*s, *w))
                            .collect();
                        let mut it = coerced.iter();
                        Some(Box::new(self.lift_flat(mem, &mut it, t)?))
                    }
                    None => None,
                };
                Val::Variant(case, payload)
            }
            Shape::Flags(n) => {
                let words = if n == 0 { 0 } else { (n + 31) / 32 };
                let mut bits = vec![];
                for w in 0..words {
                    let x = i32_of(vals.next())?;
                    for i in 0..32 {
                        if w * 32 + i < n {
                            bits.push(x & (1 << i) != 0);
                        }
                    }
                }
                Val::Flags(bits)
            }
            Shape::_P(_) => unreachable!(),
        })
    }

    // -------------------------------------------------------- function types

    /// Canonical core signature of a function, independently of wit-parser's
    /// `wasm_signature`.
    pub fn signature(&self, params: &[Type], result: Option<&Type>, kind: SigKind) -> CoreSig {
        let mut flat_params: Vec<CoreTy> = params.iter().flat_map(|p| self.flatten(p)).collect();
        let mut flat_results: Vec<CoreTy> = result.map(|r| self.flatten(r)).unwrap_or_default();
        let p = self.core(Flat::Ptr);
        let mut indirect_params = false;
        let mut retptr = false;
        match kind {
            SigKind::SyncLower => {
                if flat_params.len() > MAX_FLAT_PARAMS {
                    flat_params = vec![p];
                    indirect_params = true;
                }
                if flat_results.len() > MAX_FLAT_RESULTS {
                    flat_params.push(p);
                    flat_results = vec![];
                    retptr = true;
                }
            }
            SigKind::SyncLift => {
                if flat_params.len() > MAX_FLAT_PARAMS {
                    flat_params = vec![p];
                    indirect_params = true;
                }
                if flat_results.len() > MAX_FLAT_RESULTS {
                    flat_results = vec![p];
                    retptr = true;
                }
            }
            SigKind::AsyncLower => {
                if flat_params.len() > MAX_FLAT_ASYNC_PARAMS {
                    flat_params = vec![p];
                    indirect_params = true;
                }
                if !flat_results.is_empty() {
                    flat_params.push(p);
                    retptr = true;
                }
                flat_results = vec![CoreTy::I32];
            }
            SigKind::AsyncLiftCallback => {
                if flat_params.len() > MAX_FLAT_PARAMS {
                    flat_params = vec![p];
                    indirect_params = true;
                }
                flat_results = vec![CoreTy::I32];
            }
            SigKind::AsyncLiftStackful => {
                if flat_params.len() > MAX_FLAT_PARAMS {
                    flat_params = vec![p];
                    indirect_params = true;
                }
                flat_results = vec![];
            }
            SigKind::TaskReturn => {
                // task.return takes the *result* flattened as params, limit 16
                flat_params = result.map(|r| self.flatten(r)).unwrap_or_default();
                if flat_params.len() > MAX_FLAT_PARAMS {
                    flat_params = vec![p];
                    indirect_params = true;
                }
                flat_results = vec![];
            }
        }
        CoreSig { params: flat_params, results: flat_results, indirect_params, retptr }
    }

    /// does the (dealiased) type contain a string/list/map anywhere (by type)?
    pub fn contains_heap(&self, ty: &Type) -> bool {
        match self.shape(ty) {
            Shape::String | Shape::List(_) | Shape::Map(..) => true,
            Shape::FixedList(t, _) => self.contains_heap(&t),
            Shape::Record(fs) => fs.iter().any(|f| self.contains_heap(f)),
            Shape::Variant(cs, _) => cs.iter().flatten().any(|t| self.contains_heap(t)),
            _ => false,
        }
    }
}

#[derive(Clone, Copy, Debug, PartialEq, Eq)]
pub enum SigKind {
    /// guest imports a sync function (canon lower)
    SyncLower,
    /// guest exports a sync function (canon lift)
    SyncLift,
    /// canon lower async
    AsyncLower,
    /// canon lift async callback
    AsyncLiftCallback,
    /// canon lift async without callback
    AsyncLiftStackful,
    /// the task.return import of an async lift
    TaskReturn,
}

#[derive(Clone, Debug, PartialEq, Eq)]
pub struct CoreSig {
    pub params: Vec<CoreTy>,
    pub results: Vec<CoreTy>,
    pub indirect_params: bool,
    pub retptr: bool,
}

/// A plain byte-array memory with a non-zero base address and a bump allocator
/// that records every allocation (size, align).
pub struct VecMemory {
    pub base: u64,
    pub bytes: Vec<u8>,
    pub next: usize,
    pub allocs: Vec<(u64, usize, usize)>,
}

impl VecMemory {
    pub fn new(base: u64, cap: usize) -> VecMemory {
        VecMemory { base, bytes: vec![0xA5; cap], next: 0, allocs: vec![] }
    }
}

impl Memory for VecMemory {
    fn read(&self, addr: u64, len: usize) -> Result<Vec<u8>, String> {
        if len == 0 {
            return Ok(vec![]);
        }
        let off = addr.checked_sub(self.base).ok_or_else(|| format!("read below base: {addr:#x}"))? as usize;
        self.bytes.get(off..off + len).map(|s| s.to_vec()).ok_or_else(|| format!("read out of bounds: {addr:#x}+{len}"))
    }
    fn write(&mut self, addr: u64, b: &[u8]) -> Result<(), String> {
        if b.is_empty() {
            return Ok(());
        }
        let off = addr.checked_sub(self.base).ok_or_else(|| format!("write below base: {addr:#x}"))? as usize;
        match self.bytes.get_mut(off..off + b.len()) {
            Some(s) => {
                s.copy_from_slice(b);
                Ok(())
            }
            None => Err(format!("write out of bounds: {addr:#x}+{}", b.len())),
        }
    }
    fn alloc(&mut self, size: usize, align: usize) -> Result<u64, String> {
        let abs = self.base as usize + self.next;
        let aligned = (abs + align - 1) / align * align;
        let off = aligned - self.base as usize;
        if off + size > self.bytes.len() {
            return Err("VecMemory exhausted".into());
        }
        self.next = off + size;
        self.allocs.push((aligned as u64, size, align));
        Ok(aligned as u64)
    }
}
