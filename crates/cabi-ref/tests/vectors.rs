//! Hand-computed vectors from the Component Model CanonicalABI.md rules.
use cabi_ref::*;
use wit_parser::{Resolve, Type};

fn resolve(wit: &str) -> (Resolve, Vec<(String, Type)>) {
    let mut r = Resolve::default();
    r.all_features = true;
    let pkg = r.push_str("t.wit", wit).unwrap();
    let iface = r.packages[pkg].interfaces["i"];
    let tys = r.interfaces[iface].types.iter().map(|(n, id)| (n.clone(), Type::Id(*id))).collect();
    (r, tys)
}

fn ty<'a>(tys: &'a [(String, Type)], n: &str) -> &'a Type {
    &tys.iter().find(|(k, _)| k == n).unwrap().1
}

const WIT: &str = r#"
package t:t;
interface i {
  record r1 { a: u8, b: u64, c: u8, d: u16, e: u8, f: u32 }
  variant v1 { a(u8), b(u64) }
  variant v2 { a(u32), b(f32) }
  variant v3 { a(f32), b(f64) }
  variant v4 { a(string), b(u64) }
  variant v5 { a(tuple<f32, f32>), b(tuple<u64, u8>), c }
  type o1 = option<u8>;
  type o2 = option<option<u64>>;
  type res1 = result<u8, string>;
  type res2 = result;
  flags f8 { a0,a1,a2,a3,a4,a5,a6,a7 }
  flags f9 { a0,a1,a2,a3,a4,a5,a6,a7,a8 }
  flags f17 { a0,a1,a2,a3,a4,a5,a6,a7,a8,a9,a10,a11,a12,a13,a14,a15,a16 }
  type l1 = list<u16>;
  type fl = list<u16, 3>;
  type m1 = map<u8, u64>;
  type t1 = tuple<u8, list<u8>, u8>;
  enum e1 { x, y, z }
}
"#;

#[test]
fn layouts_wasm32() {
    let (r, tys) = resolve(WIT);
    let a = Abi::new(&r, 4);
    let sz = |n: &str| (a.elem_size(ty(&tys, n)), a.alignment(ty(&tys, n)));
    // a@0 b@8 c@16 d@18 e@20 f@24 -> 28 -> round 8 = 32
    assert_eq!(sz("r1"), (32, 8));
    assert_eq!(sz("v1"), (16, 8));
    assert_eq!(sz("v2"), (8, 4));
    assert_eq!(sz("v3"), (16, 8));
    assert_eq!(sz("v4"), (16, 8));
    assert_eq!(sz("v5"), (24, 8));
    assert_eq!(sz("o1"), (2, 1));
    assert_eq!(sz("o2"), (24, 8));
    assert_eq!(sz("res1"), (12, 4));
    assert_eq!(sz("res2"), (1, 1));
    assert_eq!(sz("f8"), (1, 1));
    assert_eq!(sz("f9"), (2, 2));
    assert_eq!(sz("f17"), (4, 4));
    assert_eq!(sz("l1"), (8, 4));
    assert_eq!(sz("fl"), (6, 2));
    assert_eq!(sz("m1"), (8, 4));
    assert_eq!(sz("t1"), (16, 4));
    assert_eq!(sz("e1"), (1, 1));
}

#[test]
fn layouts_ptr64() {
    let (r, tys) = resolve(WIT);
    let a = Abi::new(&r, 8);
    let sz = |n: &str| (a.elem_size(ty(&tys, n)), a.alignment(ty(&tys, n)));
    assert_eq!(sz("v4"), (24, 8));
    assert_eq!(sz("res1"), (24, 8));
    assert_eq!(sz("l1"), (16, 8));
    assert_eq!(sz("t1"), (32, 8));
}

#[test]
fn flattening() {
    use CoreTy::*;
    let (r, tys) = resolve(WIT);
    let a = Abi::new(&r, 4);
    assert_eq!(a.flatten(ty(&tys, "r1")), vec![I32, I64, I32, I32, I32, I32]);
    assert_eq!(a.flatten(ty(&tys, "v1")), vec![I32, I64]);
    assert_eq!(a.flatten(ty(&tys, "v2")), vec![I32, I32]);
    assert_eq!(a.flatten(ty(&tys, "v3")), vec![I32, I64]);
    assert_eq!(a.flatten(ty(&tys, "v4")), vec![I32, I64, I32]);
    assert_eq!(a.flatten(ty(&tys, "v5")), vec![I32, I64, I32]);
    assert_eq!(a.flatten(ty(&tys, "o2")), vec![I32, I32, I64]);
    assert_eq!(a.flatten(ty(&tys, "res1")), vec![I32, I32, I32]);
    assert_eq!(a.flatten(ty(&tys, "res2")), vec![I32]);
    assert_eq!(a.flatten(ty(&tys, "f17")), vec![I32]);
    assert_eq!(a.flatten(ty(&tys, "fl")), vec![I32, I32, I32]);
    assert_eq!(a.flatten(ty(&tys, "m1")), vec![I32, I32]);
    let a8 = Abi::new(&r, 8);
    assert_eq!(a8.flatten(ty(&tys, "v4")), vec![I32, I64, I64]);
    assert_eq!(a8.flatten(ty(&tys, "res1")), vec![I32, I64, I64]);
}

#[test]
fn store_bytes_and_roundtrip() {
    let (r, tys) = resolve(WIT);
    let a = Abi::new(&r, 4);
    let mut mem = VecMemory::new(0x1003, 4096);
    // v1 = b(0x0102030405060708)
    let v = Val::Variant(1, Some(Box::new(Val::U64(0x0102030405060708))));
    let addr = mem.alloc(16, 8).unwrap();
    a.store(&mut mem, &v, ty(&tys, "v1"), addr).unwrap();
    let b = mem.read(addr, 16).unwrap();
    assert_eq!(b[0], 1);
    assert_eq!(&b[8..16], &[8, 7, 6, 5, 4, 3, 2, 1]);
    assert_eq!(a.load(&mem, ty(&tys, "v1"), addr).unwrap(), v);
    // flat: v3 a(f32 1.0) -> [0, i64 0x3f800000]
    let v3 = Val::Variant(0, Some(Box::new(Val::F32(0x3f80_0000))));
    let flat = a.lower_flat(&mut mem, &v3, ty(&tys, "v3")).unwrap();
    assert_eq!(flat, vec![CoreVal::I32(0), CoreVal::I64(0x3f80_0000)]);
    assert_eq!(a.lift_flat(&mem, &mut flat.iter(), ty(&tys, "v3")).unwrap(), v3);
    // lifting ignores high bits of the joined slot for the f32 arm
    let dirty = vec![CoreVal::I32(0), CoreVal::I64(0xdead_beef_3f80_0000)];
    assert_eq!(a.lift_flat(&mem, &mut dirty.iter(), ty(&tys, "v3")).unwrap(), v3);
    // flags f9: bits 0 and 8
    let f = Val::Flags(vec![true, false, false, false, false, false, false, false, true]);
    let addr = mem.alloc(2, 2).unwrap();
    a.store(&mut mem, &f, ty(&tys, "f9"), addr).unwrap();
    assert_eq!(mem.read(addr, 2).unwrap(), vec![1, 1]);
    assert_eq!(a.lower_flat(&mut mem, &f, ty(&tys, "f9")).unwrap(), vec![CoreVal::I32(0x101)]);
    // t1 = (7, [1,2,3], 9): a@0, ptr@4, len@8, c@12
    let t = Val::Record(vec![Val::U8(7), Val::List(vec![Val::U8(1), Val::U8(2), Val::U8(3)]), Val::U8(9)]);
    let addr = mem.alloc(16, 4).unwrap();
    a.store(&mut mem, &t, ty(&tys, "t1"), addr).unwrap();
    let b = mem.read(addr, 16).unwrap();
    assert_eq!(b[0], 7);
    assert_eq!(u32::from_le_bytes([b[8], b[9], b[10], b[11]]), 3);
    assert_eq!(b[12], 9);
    assert_eq!(a.load(&mem, ty(&tys, "t1"), addr).unwrap(), t);
    // map entry layout: key u8 @0, value u64 @8, stride 16
    let m = Val::Map(vec![(Val::U8(1), Val::U64(2)), (Val::U8(3), Val::U64(4))]);
    let flat = a.lower_flat(&mut mem, &m, ty(&tys, "m1")).unwrap();
    let p = flat[0].bits();
    assert_eq!(flat[1], CoreVal::I32(2));
    let b = mem.read(p, 32).unwrap();
    assert_eq!((b[0], b[8], b[16], b[24]), (1, 2, 3, 4));
}

#[test]
fn signatures() {
    use CoreTy::*;
    let (r, tys) = resolve(WIT);
    let a = Abi::new(&r, 4);
    let s = Type::String;
    let nine = vec![s; 9]; // 18 flat
    let sig = a.signature(&nine, Some(&Type::U32), SigKind::SyncLower);
    assert_eq!(sig.params, vec![I32]);
    assert!(sig.indirect_params);
    assert_eq!(sig.results, vec![I32]);
    let eight = vec![s; 8]; // 16 flat
    let sig = a.signature(&eight, Some(&s), SigKind::SyncLower);
    assert_eq!(sig.params.len(), 17);
    assert!(sig.retptr && sig.results.is_empty());
    let sig = a.signature(&eight, Some(&s), SigKind::SyncLift);
    assert_eq!(sig.params.len(), 16);
    assert_eq!(sig.results, vec![I32]);
    let sig = a.signature(&[Type::U32; 5], Some(&Type::U64), SigKind::AsyncLower);
    assert_eq!(sig.params, vec![I32, I32]);
    assert_eq!(sig.results, vec![I32]);
    let sig = a.signature(&[Type::U32; 4], None, SigKind::AsyncLower);
    assert_eq!(sig.params, vec![I32; 4]);
    let sig = a.signature(&[], Some(ty(&tys, "r1")), SigKind::TaskReturn);
    assert_eq!(sig.params, vec![I32, I64, I32, I32, I32, I32]);
}
