"""Shared orchestration of the rt-host based checks (C18, C19, C20, ...):
native shards (bounded-exhaustive + random schedules), Miri shards, valgrind
shard; classification of tool reports; confirmation of violations by replay in
a fresh process."""
import concurrent.futures
import json
import os
import re
import subprocess
import time

import vcommon

MIRIFLAGS = "-Zmiri-disable-isolation -Zmiri-disable-stacked-borrows -Zmiri-permissive-provenance"
ENGINE = "rt-host"


def _run(cmd, timeout, env=None, cwd=None):
    return vcommon.sh(cmd, timeout=timeout, env=env, cwd=cwd)


def _last_exec(text):
    last = None
    for m in re.finditer(r"RT-HOST-EXEC (\{.*\})", text):
        last = m.group(1)
    if last:
        try:
            return json.loads(last)
        except Exception:
            return None
    return None


def _crash_line(text):
    m = re.search(r"RT-HOST-CRASH scenario=(\S+) signal=(\d+) vector=\[([0-9,]*)\]", text)
    if not m:
        return None
    vec = [int(x) for x in m.group(3).split(",") if x]
    ph = re.search(r"RT-HOST-CRASH [^\n]*\] phase=(\d+)", text)
    return {"scenario": m.group(1), "signal": int(m.group(2)), "vector": vec, "phase": int(ph.group(1)) if ph else 0}


def _crash_signature(crash):
    """Stable signature of a process-level crash (a panic inside an `extern "C"`
    frame aborts; the harness records what it was doing)."""
    if crash.get("phase") == 1 and crash["signal"] == 6:
        # a foreign C-ABI client re-entered waitable_register / waitable_unregister
        # from its completion callback and the runtime panicked inside that entry point
        return "callback:panic:reentrant-waitable-registration-from-completion-callback"
    kind = {1001: "synchronous-wait-can-never-return", 1002: "violated-inside-synchronous-wait"}.get(crash["signal"], "signal-%d" % crash["signal"])
    return "crash:%s:%s" % (kind, crash["scenario"])


def _repo_frame(text):
    """First frame inside the runtime (or, failing that, inside the scenario
    code that uses it) of a Miri / valgrind report: (where, function)."""
    repo = vcommon.REPO.rstrip("/")
    frames = []
    # Miri: "inside `func` at /path/file.rs:L:C"
    for m in re.finditer(r"inside `([^`]+)` at ([^\s:]+\.rs)", text):
        frames.append((m.group(2), m.group(1)))
    # Miri (newer): "   3: path::to::func\n        at file.rs:L:C"
    for m in re.finditer(r"^\s*\d+: (.+?)\n\s+at ([^\s:]+\.rs):\d+", text, re.M):
        frames.append((m.group(2), m.group(1)))
    # valgrind: "by 0x...: func (file.rs:123)" / "at 0x...: func (file.rs:123)"
    for m in re.finditer(r"(?:at|by) 0x[0-9A-Fa-f]+: (.+?) \(([^():]+\.rs):\d+\)", text):
        frames.append((m.group(2), m.group(1)))
    # ASan: "#3 0x55.. in func /path/file.rs:123:9"
    for m in re.finditer(r"#\d+ 0x[0-9a-f]+ in (.+?) (/[^\s:]+\.rs):\d+", text):
        frames.append((m.group(2), m.group(1)))
    def clean(fn):
        fn = re.sub(r"<[^<>]*>", "", fn)
        fn = re.sub(r"::\{closure[^}]*\}", "", fn)
        fn = re.sub(r"::h[0-9a-f]{16}$", "", fn)
        return fn.strip()
    for path, fn in frames:
        # the host touching guest memory at completion time / probing a registered callback_ptr
        if any(x in fn for x in ("probe_ptr", "payload::probe", "host_read_elem", "host_write_elem", "sub_read_params", "sub_write_results")):
            return "host access to guest memory (buffer or registered pointer no longer valid)", clean(fn)
    for path, fn in frames:
        if "guest-rust/src" in path or (repo in path and "guest-rust" in path) or "async_support" in path:
            return "runtime", clean(fn)
    for path, fn in frames:
        base = os.path.basename(path)
        if base in ("scen.rs", "machine.rs") or "rt-host/src/scen" in path or "rt-host/src/machine" in path:
            return "scenario", clean(fn)
    for path, fn in frames:
        if "wit_bindgen" in fn:
            return "runtime", clean(fn)
    return None, None


def _miri_kind(text):
    m = re.search(r"error: (Undefined Behavior|unsupported operation|memory leaked|abnormal termination|post-monomorphization error|the evaluated program [a-z ]+)[:]? ?([^\n]*)", text)
    if not m:
        return None, None
    kind = m.group(1)
    detail = m.group(2)
    detail = re.sub(r"alloc\d+", "alloc#", detail)
    detail = re.sub(r"0x[0-9a-f]+", "ADDR", detail)
    detail = re.sub(r"\d+", "#", detail)
    return kind, detail[:80]


def _slug(s):
    return re.sub(r"[^A-Za-z0-9_.:#]+", "-", s).strip("-")


class Plan:
    def __init__(self, prop, binname):
        self.prop = prop
        self.bin = binname
        self.native_shards = 12
        self.miri_shards = 8
        self.miri_random = 40
        self.miri_budget_s = 60
        self.miri_timeout = 170
        self.native_timeout = 420
        self.valgrind = False
        self.native_args = []
        self.release_too = False
        # scenario used for the Miri build-and-smoke run
        self.smoke_scenario = "sw_u8"
        # additional builds of the harness with other cargo feature sets of the
        # runtime: [{"tag", "features": [...], "shards", "args": [...], "tiers": (...)}]
        self.feature_passes = []
        self.valgrind_args = ["--random", "300", "--max-exhaustive", "400", "--depth", "5"]
        self.asan_args = ["--random", "1500", "--max-exhaustive", "3000", "--depth", "6"]
        self.miri = True
        self.plain_pass_in_thorough = True


def build(plan, rep, release=False):
    return vcommon.cargo_build(ENGINE, bins=[plan.bin], release=release, timeout=1500)


DEFAULT_FEATURES = ["async-spawn", "inter-task-wakeup", "futures-stream"]


def feature_args(feats):
    """cargo arguments selecting exactly the given rt-host features"""
    a = ["--no-default-features"]
    if feats:
        a += ["--features", ",".join(feats)]
    return a


def variant_tag(feats):
    return "plain" if not feats else "+".join(sorted(feats))


def build_variant(plan, feats):
    """Build the harness with another feature set in its own target directory
    (so that the builds can run side by side and each stays incremental)."""
    tdir = os.path.join(vcommon.TARGET, "rthost-" + variant_tag(feats))
    vcommon.cargo_build(ENGINE, bins=[plan.bin], extra_args=feature_args(feats), env_extra={"CARGO_TARGET_DIR": tdir}, timeout=1800)
    return os.path.join(tdir, "debug")


def native_shards(plan, rep, bindir, tier, seed, scratch, tag, extra=None):
    exe = os.path.join(bindir, plan.bin)
    n = plan.native_shards
    jobs = []
    for i in range(n):
        out = os.path.join(scratch, "%s_%d.json" % (tag, i))
        cmd = [exe, "--seed", str(seed), "--tier", tier, "--shard", str(i), "--of", str(n), "--out", out] + plan.native_args + (extra or [])
        jobs.append((cmd, out, i))
    def go(job):
        cmd, out, i = job
        rc, so, se = _run(cmd, plan.native_timeout, env=vcommon.base_env())
        return job, rc, so, se
    with concurrent.futures.ThreadPoolExecutor(max_workers=n) as ex:
        for (cmd, out, i), rc, so, se in ex.map(go, jobs):
            data = None
            try:
                with open(out) as f:
                    data = json.load(f)
            except Exception:
                data = None
            if data is not None:
                rep.merge(data)
            if rc is None:
                rep.inconc("%s native shard: wall-clock watchdog fired" % tag)
            elif rc != 0:
                crash = _crash_line(se or "")
                if crash:
                    kind = {1001: "synchronous-wait-can-never-return", 1002: "violated-inside-synchronous-wait"}.get(crash["signal"], "signal-%d" % crash["signal"])
                    fatal = re.search(r"RT-HOST-FATAL ([^\n]*)", se or "")
                    rep.violations.append({
                        "signature": _crash_signature(crash),
                        "what": "harness process died while running the runtime (%s); %s" % (kind, fatal.group(1) if fatal else (se or "")[-400:]),
                        "replay": {"scenario": crash["scenario"], "vector": crash["vector"], "needs_confirmation": True},
                    })
                elif data is None:
                    rep.inconc("%s native shard %d exited rc=%s without a report: %s" % (tag, i, rc, (se or so)[-300:]))


def miri_shards(plan, rep, tier, seed, scratch):
    """`cargo miri run` in several processes with different seeds."""
    env = vcommon.base_env({"MIRIFLAGS": MIRIFLAGS, "RT_HOST_ANNOUNCE": "1"})
    vcommon.sync_mirror()
    base = ["cargo", "+nightly", "miri", "run", "--offline", "-q", "-p", ENGINE, "--bin", plan.bin, "--"]
    # build once (and smoke-run) so that the parallel runs do not queue on the build lock
    t0 = time.time()
    out0 = os.path.join(scratch, "miri_smoke.json")
    rc, so, se = _run(base + ["--seed", str(seed), "--random", "1", "--max-exhaustive", "0", "--scenario", plan.smoke_scenario, "--out", out0], 900, env=env, cwd=vcommon.CRATES)
    if rc != 0 and not os.path.exists(out0):
        rep.inconc("miri: build or smoke run failed (rc=%s): %s" % (rc, (se or "")[-400:]))
        return
    jobs = []
    for i in range(plan.miri_shards):
        out = os.path.join(scratch, "miri_%d.json" % i)
        # even shards keep Miri's leak check on and skip scenarios that legitimately leave a
        # deferred write behind; odd shards run those with the leak check off
        leak_on = (i % 2 == 0)
        e = dict(env)
        args = ["--seed", str(seed * 1000 + i + 1), "--random", str(plan.miri_random), "--time-budget-s", str(plan.miri_budget_s), "--max-exhaustive", "0", "--shard", "0", "--of", "1", "--out", out]
        if leak_on:
            args.append("--leak-clean=1")
        else:
            args.append("--only-leaky=1")
            e["MIRIFLAGS"] = MIRIFLAGS + " -Zmiri-ignore-leaks"
        jobs.append((base + args, out, i, e))
    def go(job):
        cmd, out, i, e = job
        rc, so, se = _run(cmd, plan.miri_timeout, env=e, cwd=vcommon.CRATES)
        return job, rc, so, se
    with concurrent.futures.ThreadPoolExecutor(max_workers=len(jobs)) as ex:
        for (cmd, out, i, e), rc, so, se in ex.map(go, jobs):
            data = None
            try:
                with open(out) as f:
                    data = json.load(f)
            except Exception:
                data = None
            if data is not None:
                # Miri executions are evidence of their own kind
                n = int(data.get("evaluations", 0))
                rep.extra["miri_executions"] = rep.extra.get("miri_executions", 0) + n
                data["extra"] = {}
                data["samples"] = []
                rep.merge(data)
            if rc is None:
                done = len(re.findall(r"RT-HOST-EXEC", se or ""))
                rep.extra["miri_executions"] = rep.extra.get("miri_executions", 0) + max(done - 1, 0)
                rep.extra["miri_shards_stopped_by_watchdog"] = rep.extra.get("miri_shards_stopped_by_watchdog", 0) + 1
                continue
            if rc != 0 and (data is None or "error: memory leaked" in (se or "")):
                kind, detail = _miri_kind(se or "")
                where, fn = _repo_frame(se or "")
                last = _last_exec(se or "")
                if kind and where:
                    sig = "miri:%s:%s:%s" % (_slug(kind), _slug(detail or ""), _slug(fn or "?"))
                    idx = (se or "").find("error:")
                    rep.violations.append({
                        "signature": sig,
                        "what": "Miri report in the %s (first in-repo frame `%s`): %s" % (where, fn, (se or "")[idx:idx + 1500]),
                        "replay": dict(last or {}, tool="miri"),
                    })
                else:
                    rep.inconc("miri shard %d failed outside the runtime (rc=%s): %s" % (i, rc, ((se or "")[-500:])))


def valgrind_shard(plan, rep, tier, seed, scratch, bindir_release):
    exe = os.path.join(bindir_release, plan.bin)
    out = os.path.join(scratch, "vg.json")
    log = os.path.join(scratch, "vg.log")
    env = vcommon.base_env({"RT_HOST_ANNOUNCE": "1"})
    cmd = ["valgrind", "--error-exitcode=9", "--leak-check=no", "--log-fd=2", "-q", exe, "--seed", str(seed + 77)] + plan.valgrind_args + ["--out", out]
    rc, so, se = _run(cmd, 1500, env=env)
    try:
        with open(out) as f:
            data = json.load(f)
        rep.extra["valgrind_executions"] = int(data.get("evaluations", 0))
        data["extra"] = {}
        data["samples"] = []
        rep.merge(data)
    except Exception:
        data = None
    if rc is None:
        rep.inconc("valgrind shard: wall-clock watchdog fired")
    elif rc == 9:
        # first error block
        m = re.search(r"==\d+== (Invalid [^\n]+|Use of uninitialised[^\n]+|Conditional jump[^\n]+|Mismatched free[^\n]+|Invalid free[^\n]+)((?:\n==\d+==[^\n]*)+)", se or "")
        block = m.group(0) if m else (se or "")[-1500:]
        where, fn = _repo_frame(block)
        head = (se or "")[: m.start()] if m else (se or "")
        last = _last_exec(head)
        if where:
            kind = re.sub(r"\d+", "#", m.group(1)) if m else "error"
            rep.violations.append({"signature": "valgrind:%s:%s" % (_slug(kind), _slug(fn or "?")), "what": "valgrind memcheck report in the %s: %s" % (where, block[:1500]), "replay": dict(last or {}, tool="valgrind")})
        else:
            rep.inconc("valgrind reported an error outside the runtime: %s" % block[:400])
    elif rc != 0 and data is None:
        rep.inconc("valgrind shard exited rc=%s: %s" % (rc, (se or "")[-300:]))


def asan_shard(plan, rep, tier, seed, scratch):
    """AddressSanitizer build (nightly, explicit target) of the same harness."""
    flags = "--cfg %s -Zsanitizer=address -Awarnings" % vcommon.GUARD
    try:
        vcommon.cargo_build(ENGINE, bins=[plan.bin], toolchain="nightly", extra_args=["--target", "x86_64-unknown-linux-gnu"], env_extra={"RUSTFLAGS": flags}, timeout=1800)
    except vcommon.HarnessFailure as e:
        rep.inconc("asan: build failed: %s" % str(e)[-300:])
        return
    exe = os.path.join(vcommon.TARGET, "x86_64-unknown-linux-gnu", "debug", plan.bin)
    out = os.path.join(scratch, "asan.json")
    env = vcommon.base_env({"ASAN_OPTIONS": "detect_leaks=0:abort_on_error=0", "RT_HOST_ANNOUNCE": "1"})
    rc, so, se = _run([exe, "--seed", str(seed + 99)] + plan.asan_args + ["--out", out], 1500, env=env)
    data = None
    try:
        with open(out) as f:
            data = json.load(f)
        rep.extra["asan_executions"] = int(data.get("evaluations", 0))
        data["extra"] = {}
        data["samples"] = []
        rep.merge(data)
    except Exception:
        data = None
    if rc is None:
        rep.inconc("asan shard: wall-clock watchdog fired")
    elif rc != 0 and "AddressSanitizer" in (se or ""):
        m = re.search(r"ERROR: AddressSanitizer: ([a-z\-]+)", se)
        idx = se.find("ERROR: AddressSanitizer")
        block = se[idx: idx + 3000]
        where, fn = _repo_frame(block)
        last = _last_exec(se[:idx])
        if where:
            rep.violations.append({"signature": "asan:%s:%s" % (m.group(1) if m else "error", _slug(fn or "?")), "what": "AddressSanitizer report in the %s: %s" % (where, block[:1500]), "replay": dict(last or {}, tool="asan")})
        else:
            rep.inconc("asan reported an error outside the runtime: %s" % block[:400])
    elif rc != 0 and data is None:
        rep.inconc("asan shard exited rc=%s: %s" % (rc, (se or "")[-300:]))


def confirm(plan, rep, bindir, scratch):
    """Replay every native violation in a fresh process; keep it only if the
    same signature shows up again (tool reports are kept as they are)."""
    exe = os.path.join(bindir, plan.bin)
    kept = []
    seen = set()
    for v in rep.violations:
        sig = v.get("signature")
        if sig in seen:
            continue
        seen.add(sig)
        rp = v.get("replay") or {}
        if rp.get("tool") or v.get("_confirmed"):
            kept.append(v)
            continue
        path = os.path.join(scratch, "confirm_%s.json" % vcommon.stable_hash(sig))
        with open(path, "w") as f:
            json.dump({"replay": rp}, f)
        out = path + ".out"
        rc, so, se = _run([exe, "--replay", path, "--out", out], 120, env=vcommon.base_env())
        again = []
        try:
            with open(out) as f:
                again = [x.get("signature") for x in json.load(f).get("violations", [])]
        except Exception:
            pass
        if sig in again:
            v["_confirmed"] = True
            kept.append(v)
        elif (sig.startswith("crash:") or rp.get("needs_confirmation")) and rc not in (0, None) and _crash_line(se or "") and _crash_signature(_crash_line(se or "")) == sig:
            v["_confirmed"] = True
            kept.append(v)
        else:
            rep.inconc("violation `%s` did not reproduce when replayed in a fresh process (suspected cross-execution contamination)" % sig)
    rep.violations = kept


def replay(plan, rep, replay_doc, bindir, scratch):
    rp = replay_doc.get("replay", replay_doc)
    path = os.path.join(scratch, "replay_in.json")
    with open(path, "w") as f:
        json.dump({"replay": rp}, f)
    out = os.path.join(scratch, "replay_out.json")
    exe = os.path.join(bindir, plan.bin)
    if rp.get("tool") == "miri":
        env = vcommon.base_env({"MIRIFLAGS": MIRIFLAGS + " -Zmiri-ignore-leaks", "RT_HOST_ANNOUNCE": "1"})
        cmd = ["cargo", "+nightly", "miri", "run", "--offline", "-q", "-p", ENGINE, "--bin", plan.bin, "--", "--replay", path, "--out", out]
        rc, so, se = _run(cmd, 900, env=env, cwd=vcommon.CRATES)
        kind, detail = _miri_kind(se or "")
        where, fn = _repo_frame(se or "")
        if rc not in (0, None) and kind and where:
            rep.violation("miri:%s:%s:%s" % (_slug(kind), _slug(detail or ""), _slug(fn or "?")), "Miri report reproduced: %s" % (se or "")[-1200:], rp)
    else:
        rc, so, se = _run([exe, "--replay", path, "--print", "1", "--out", out], 300, env=vcommon.base_env())
        if rc not in (0, None) and _crash_line(se or ""):
            c = _crash_line(se or "")
            rep.violation(_crash_signature(c), "crash reproduced: %s" % (se or "")[-600:], rp)
    try:
        with open(out) as f:
            rep.merge(json.load(f))
    except Exception:
        pass
    rep.evaluations = max(rep.evaluations, 1)


def replay_floor(rep, floors, tier):
    """A replayed single case that no longer fails must end as `held` (exit 0),
    not as `too little observed`: the per-tier floors are about exploration runs."""
    e, d = floors.get(tier, (1, 2))
    rep.extra["replay_mode"] = True
    rep.extra["replayed_cases"] = rep.evaluations
    rep.rule = ("REPLAY MODE: %d stored case(s) re-executed, nothing explored; evaluations/distinct are padded to the tier floors only so "
                "that a case which no longer fails ends as exit 0 instead of `too little observed`. " % rep.evaluations) + rep.rule
    rep.evaluations = max(rep.evaluations, e)
    rep.distinct_extra = max(0, d - len(rep.distinct))
    return rep


def run(prop, binname, tier, seed, replay_doc, rule, tune=None):
    rep = vcommon.Report(prop, level="exploration", rule=rule)
    plan = Plan(prop, binname)
    if tier == "thorough":
        plan.native_shards = 16
        plan.miri_shards = 16
        plan.miri_random = 200
        plan.miri_budget_s = 600
        plan.miri_timeout = 1200
        plan.native_timeout = 2400
        plan.valgrind = True
        plan.release_too = True
    if tune:
        tune(plan, tier)
    scratch = vcommon.scratch_dir(prop.lower())
    # (mirror mode: copy the workspace once, before builds start in several threads)
    vcommon.sync_mirror()
    try:
        if tier == "thorough" and replay_doc is None and plan.plain_pass_in_thorough and not os.environ.get("RTHOST_SKIP_PLAIN"):
            # the runtime without async-spawn / inter-task-wakeup / futures-stream
            plain = vcommon.cargo_build(ENGINE, bins=[plan.bin], extra_args=["--no-default-features"], timeout=1500)
            native_shards(plan, rep, plain, "quick", seed + 2, scratch, "plain-features")
            confirm(plan, rep, plain, scratch)
            rep.extra["plain_feature_executions"] = rep.evaluations
        if replay_doc is not None:
            rp = replay_doc.get("replay", replay_doc)
            feats = rp.get("features")
            if isinstance(feats, list) and not rp.get("tool"):
                feats = [f for f in feats if f in DEFAULT_FEATURES]
                if sorted(feats) != sorted(DEFAULT_FEATURES):
                    replay(plan, rep, replay_doc, build_variant(plan, feats), scratch)
                    return rep
            replay(plan, rep, replay_doc, build(plan, rep), scratch)
            return rep
        # other feature sets of the runtime: built side by side with the main build
        passes = [p for p in plan.feature_passes if tier in p.get("tiers", ("quick", "thorough"))]
        pool = concurrent.futures.ThreadPoolExecutor(max_workers=max(1, len(passes)))
        variant_builds = [(p, pool.submit(build_variant, plan, p["features"])) for p in passes]
        bindir = build(plan, rep)
        t0 = time.time()
        with concurrent.futures.ThreadPoolExecutor(max_workers=2) as ex:
            fut_native = ex.submit(native_shards, plan, rep, bindir, tier, seed, scratch, "dev")
            # RTHOST_SKIP_MIRI: development knob (sensitivity experiments), never set by ./check users
            fut_miri = ex.submit((lambda *a: None) if (os.environ.get("RTHOST_SKIP_MIRI") or not plan.miri) else miri_shards, plan, rep, tier, seed, scratch)
            fut_native.result()
            rep.extra["native_wall_s"] = round(time.time() - t0, 1)
            fut_miri.result()
            rep.extra["miri_wall_s"] = round(time.time() - t0, 1)
        confirm(plan, rep, bindir, scratch)
        for k, (p, fut) in enumerate(variant_builds):
            try:
                vdir = fut.result()
            except vcommon.HarnessFailure as e:
                rep.inconc("feature pass %s: build failed: %s" % (p["tag"], str(e)[-300:]))
                continue
            before = rep.evaluations
            saved = plan.native_shards
            plan.native_shards = p.get("shards", 4)
            try:
                native_shards(plan, rep, vdir, tier, seed + 10 + k, scratch, "features-" + p["tag"], extra=p.get("args"))
            finally:
                plan.native_shards = saved
            confirm(plan, rep, vdir, scratch)
            rep.extra["executions_features_%s" % p["tag"]] = rep.evaluations - before
        pool.shutdown(wait=False)
        if tier == "thorough":
            native_shards(plan, rep, bindir, "quick", seed + 3, scratch, "reuse-handles", extra=["--reuse", "1", "--max-exhaustive", "0"])
        if plan.release_too:
            rel = build(plan, rep, release=True)
            native_shards(plan, rep, rel, tier, seed + 1, scratch, "release", extra=["--max-exhaustive", "0"])
            if plan.valgrind:
                valgrind_shard(plan, rep, tier, seed, scratch, rel)
            if not os.environ.get("RTHOST_SKIP_ASAN"):
                asan_shard(plan, rep, tier, seed, scratch)
        confirm(plan, rep, bindir, scratch)
        merged = {}
        for i in rep.inconclusive:
            merged[i.get("why")] = merged.get(i.get("why"), 0) + int(i.get("count", 1))
        rep.inconclusive = [{"why": k, "count": v} for k, v in merged.items()]
        for v in rep.violations:
            v.pop("_confirmed", None)
        rep.assumptions += [
            "the mock host (crates/rt-host/src/host.rs) is the runtime's environment: its stream/future rendezvous, event and trap rules are written from the Component Model canonical ABI (DESIGN.md 2.4); a behaviour a real host has but the mock lacks is not explored",
            "Miri runs with -Zmiri-disable-stacked-borrows -Zmiri-permissive-provenance (aliasing model off by design); shards that include host-cancelled tasks run with -Zmiri-ignore-leaks and rely on the harness allocator ledger for leaks",
            "payload vtables are harness-written (u8 canonical; Item{id,tag:String} with lift/lower/dealloc_lists), native pointer width; generated vtables are exercised by C05-C08",
        ]
    finally:
        vcommon.rm_scratch(scratch)
    return rep
