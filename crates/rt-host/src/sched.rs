//! The choice oracle.  Every nondeterministic decision of the mock host, of the
//! driver and of the scenario bodies goes through [`choose`].  An execution is
//! fully determined by (scenario, choice vector); executions are replayed from
//! choice vectors.
//!
//! Policy of one execution: positions `< prefix.len()` replay the prefix
//! (clamped to the fan-out actually found there), later positions are drawn from
//! a PRNG seeded by `tail_seed` — unless the total budget is exhausted, after
//! which the answer is always 0.  Option 0 is by convention the
//! "progress-making" alternative of every choice point (complete fully, deliver
//! the first event, finish the body), so every execution terminates.
use std::cell::RefCell;
use vkit::Rng;

#[derive(Clone, Debug, Default)]
pub struct Taken {
    pub choice: u32,
    pub n: u32,
    pub label: &'static str,
}

pub struct Sched {
    prefix: Vec<u32>,
    rng: Rng,
    pub trace: Vec<Taken>,
    budget: usize,
    /// positions in `prefix.len()..zero_until` answer 0 (leftmost branch of the
    /// depth-first enumeration); the random tail starts after that
    zero_until: usize,
    /// number of prefix entries that had to be clamped (replay of a vector
    /// against a different tree)
    pub clamped: usize,
}

thread_local! {
    static SCHED: RefCell<Sched> = RefCell::new(Sched::new(vec![], 0, 0, 0));
}

impl Sched {
    pub fn new(prefix: Vec<u32>, zero_until: usize, tail_seed: u64, budget: usize) -> Sched {
        Sched { prefix, rng: Rng::new(tail_seed), trace: Vec::new(), budget, zero_until, clamped: 0 }
    }
}

/// Install the policy for the next execution.
pub fn begin(prefix: Vec<u32>, zero_until: usize, tail_seed: u64, budget: usize) {
    SCHED.with(|s| *s.borrow_mut() = Sched::new(prefix, zero_until, tail_seed, budget));
}

/// Finish the execution and return the choices taken.
pub fn end() -> Vec<Taken> {
    SCHED.with(|s| std::mem::take(&mut s.borrow_mut().trace))
}

pub fn clamped() -> usize {
    SCHED.with(|s| s.borrow().clamped)
}

pub fn position() -> usize {
    SCHED.with(|s| s.borrow().trace.len())
}

/// Ask the oracle to pick one of `n` alternatives (`n >= 1`).  Choice points
/// with a single alternative are not recorded.
pub fn choose(n: usize, label: &'static str) -> usize {
    if n <= 1 {
        return 0;
    }
    let _g = crate::alloc::host_mode();
    SCHED.with(|s| {
        let mut s = s.borrow_mut();
        let pos = s.trace.len();
        let c = if pos < s.prefix.len() {
            let c = s.prefix[pos] as usize;
            if c >= n {
                s.clamped += 1;
                c % n
            } else {
                c
            }
        } else if pos >= s.budget || pos < s.zero_until {
            0
        } else if label == "guest-act" && s.rng.usize(4) != 0 {
            // random walks would otherwise finish the body after a step or two
            1 + s.rng.usize(n - 1)
        } else {
            s.rng.usize(n)
        };
        s.trace.push(Taken { choice: c as u32, n: n as u32, label });
        crate::crash::note_choice(c as u32);
        c
    })
}

/// `true` with the given index being the "progress" alternative 0.
pub fn flip(label: &'static str) -> bool {
    choose(2, label) == 1
}

pub fn vector(trace: &[Taken]) -> Vec<u32> {
    trace.iter().map(|t| t.choice).collect()
}

pub fn hash_vector(v: &[u32]) -> u64 {
    let mut bytes = Vec::with_capacity(v.len() * 4);
    for x in v {
        bytes.extend_from_slice(&x.to_le_bytes());
    }
    vkit::hash64(&bytes)
}

/// Bounded-exhaustive enumeration of the choice tree to depth `depth`
/// (fan-out discovered dynamically): given the trace of the execution that was
/// just run with `prefix`, return the next prefix in depth-first order, or
/// `None` when the tree (truncated at `depth`) is exhausted.
pub fn next_prefix(trace: &[Taken], depth: usize) -> Option<Vec<u32>> {
    let lim = trace.len().min(depth);
    let mut i = lim;
    while i > 0 {
        i -= 1;
        if trace[i].choice + 1 < trace[i].n {
            let mut p: Vec<u32> = trace[..i].iter().map(|t| t.choice).collect();
            p.push(trace[i].choice + 1);
            return Some(p);
        }
    }
    None
}
