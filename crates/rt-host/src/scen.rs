//! Scenario registry: small guest programs written against the runtime's public
//! API, each run as one or two export tasks (or under `block_on`).
use crate::driver::{BoxFut, ExecCfg, TaskDef, TaskKind};
use crate::host::{self, Side};
use crate::machine::{fact, fresh_id, EpSpec, Machine, PeerCfg};
use crate::payload::{Item, Pl};
use crate::sched::choose;
use core::future::Future;
use core::pin::Pin;
use core::task::{Context, Poll};
use std::any::Any;
use std::cell::RefCell;
use std::rc::Rc;
use wit_bindgen::rt::async_support::stream_new;
use wit_bindgen::{StreamReader, StreamResult, StreamWrite, StreamWriter};

pub struct Scenario {
    pub name: &'static str,
    /// properties whose checks run this scenario
    pub props: &'static [&'static str],
    pub cfg: ExecCfg,
    /// built inside guest mode as pseudo-task 0
    pub build: fn() -> Vec<TaskDef>,
    /// only in the thorough tier
    pub thorough_only: bool,
}

thread_local! {
    /// objects shared between the tasks of one execution
    static MAILBOX: RefCell<Vec<(&'static str, Box<dyn Any>)>> = RefCell::new(Vec::new());
}
pub fn mailbox_put(key: &'static str, v: Box<dyn Any>) {
    // the mailbox's own storage is harness memory
    let _g = crate::alloc::host_mode();
    MAILBOX.with(|m| m.borrow_mut().push((key, v)));
}
pub fn mailbox_take(key: &'static str) -> Option<Box<dyn Any>> {
    MAILBOX.with(|m| {
        let mut m = m.borrow_mut();
        let i = m.iter().position(|(k, _)| *k == key)?;
        Some(m.remove(i).1)
    })
}
/// Drop whatever the tasks left in the mailbox (run as guest code).
pub fn cleanup() {
    loop {
        let x = MAILBOX.with(|m| m.borrow_mut().pop());
        match x {
            Some(x) => drop(x),
            None => break,
        }
    }
}

pub(crate) fn peer(acts: u32, items: u32, may_drop: bool) -> PeerCfg {
    PeerCfg { acts, items, may_drop }
}

fn mach<T: Pl>(kind: TaskKind, specs: Vec<EpSpec>, max_actions: u32, base: u32) -> TaskDef {
    TaskDef {
        kind,
        body: Box::new(move || {
            let mut m = Machine::<T>::new(specs, max_actions, base);
            // `block_on` panics (`waitable_set` is `None`, async_support.rs
            // `CallbackCode::Yield` arm) when the future yields before any
            // waitable was ever registered: an executor (C22) matter, kept out
            // of the C18-C20 scenarios
            m.no_early_yield = kind == TaskKind::BlockOn;
            m.avoid_done_ends = kind == TaskKind::BlockOn;
            Box::pin(m) as BoxFut
        }),
    }
}

fn cfg_plain() -> ExecCfg {
    ExecCfg::default()
}
fn cfg_cancel() -> ExecCfg {
    ExecCfg { cancel_inject: true, ..ExecCfg::default() }
}
fn cfg_stick() -> ExecCfg {
    ExecCfg { may_stick: true, ..ExecCfg::default() }
}

// ------------------------------------------------------------------ machine scenarios

fn sw_u8() -> Vec<TaskDef> {
    vec![mach::<u8>(TaskKind::Export, vec![EpSpec::StreamWriter(peer(3, 6, true))], 8, 0)]
}
fn sw_item() -> Vec<TaskDef> {
    vec![mach::<Item>(TaskKind::Export, vec![EpSpec::StreamWriter(peer(3, 6, true))], 8, 0)]
}
fn sr_u8() -> Vec<TaskDef> {
    vec![mach::<u8>(TaskKind::Export, vec![EpSpec::StreamReader(peer(3, 6, true))], 8, 1)]
}
fn sr_item() -> Vec<TaskDef> {
    vec![mach::<Item>(TaskKind::Export, vec![EpSpec::StreamReader(peer(3, 6, true))], 8, 1000)]
}
fn fw_u8() -> Vec<TaskDef> {
    vec![mach::<u8>(TaskKind::Export, vec![EpSpec::FutureWriter(peer(2, 1, true))], 7, 0)]
}
fn fw_item() -> Vec<TaskDef> {
    vec![mach::<Item>(TaskKind::Export, vec![EpSpec::FutureWriter(peer(2, 1, true))], 7, 0)]
}
fn fr_u8() -> Vec<TaskDef> {
    vec![mach::<u8>(TaskKind::Export, vec![EpSpec::FutureReader(peer(2, 1, false))], 7, 1)]
}
fn fr_item() -> Vec<TaskDef> {
    vec![mach::<Item>(TaskKind::Export, vec![EpSpec::FutureReader(peer(2, 1, false))], 7, 1000)]
}
fn sw_sr_item() -> Vec<TaskDef> {
    vec![mach::<Item>(TaskKind::Export, vec![EpSpec::StreamWriter(peer(2, 4, true)), EpSpec::StreamReader(peer(2, 4, true))], 9, 1000)]
}
fn fw_fr_item() -> Vec<TaskDef> {
    vec![mach::<Item>(TaskKind::Export, vec![EpSpec::FutureWriter(peer(2, 1, true)), EpSpec::FutureReader(peer(2, 1, false))], 9, 1000)]
}
fn sw_fw_item() -> Vec<TaskDef> {
    vec![mach::<Item>(TaskKind::Export, vec![EpSpec::StreamWriter(peer(2, 4, true)), EpSpec::FutureWriter(peer(2, 1, true))], 9, 1000)]
}
fn pair_u8() -> Vec<TaskDef> {
    vec![mach::<u8>(TaskKind::Export, vec![EpSpec::StreamPair], 9, 0)]
}
fn fpair_u8() -> Vec<TaskDef> {
    vec![mach::<u8>(TaskKind::Export, vec![EpSpec::FuturePair], 8, 0)]
}
fn two_tasks() -> Vec<TaskDef> {
    vec![
        mach::<Item>(TaskKind::Export, vec![EpSpec::StreamWriter(peer(2, 4, true))], 6, 0),
        mach::<Item>(TaskKind::Export, vec![EpSpec::FutureReader(peer(2, 1, false))], 5, 2000),
    ]
}
fn two_tasks_streams() -> Vec<TaskDef> {
    vec![
        mach::<u8>(TaskKind::Export, vec![EpSpec::StreamWriter(peer(2, 4, true))], 6, 0),
        mach::<Item>(TaskKind::Export, vec![EpSpec::StreamReader(peer(2, 4, true))], 6, 2000),
    ]
}
fn block_on_sw_item() -> Vec<TaskDef> {
    vec![mach::<Item>(TaskKind::BlockOn, vec![EpSpec::StreamWriter(peer(3, 6, true))], 7, 0)]
}
fn block_on_sr_u8() -> Vec<TaskDef> {
    vec![mach::<u8>(TaskKind::BlockOn, vec![EpSpec::StreamReader(peer(3, 6, true))], 7, 1)]
}
fn block_on_fw_fr_item() -> Vec<TaskDef> {
    vec![mach::<Item>(TaskKind::BlockOn, vec![EpSpec::FutureWriter(peer(2, 1, true)), EpSpec::FutureReader(peer(2, 1, false))], 8, 1000)]
}

// ------------------------------------------------------------------ high-level API

pub(crate) fn ids_of<T: Pl>(v: &[T]) -> Vec<u32> {
    v.iter().map(|x| x.id()).collect()
}

pub(crate) fn make_items<T: Pl>(n: usize, handle: u32) -> Vec<T> {
    let mut v = Vec::with_capacity(n);
    let mut ids = vec![];
    for _ in 0..n {
        let id = fresh_id::<T>();
        ids.push(id);
        v.push(T::make(id));
    }
    fact("handed", handle as u64, 0, ids);
    v
}

pub(crate) fn writer_to_host<T: Pl>(p: PeerCfg) -> StreamWriter<T> {
    let (w, r) = unsafe { stream_new::<T>(T::stream_vt()) };
    let rh = r.take_handle();
    drop(r);
    host::with(|h| h.give_reader_to_host(rh, p.peer(Side::Reader)));
    w
}
pub(crate) fn reader_from_host<T: Pl>(p: PeerCfg, base: u32) -> StreamReader<T> {
    let h = host::with(|h| h.host_writer_new(T::ELEM, false, p.peer(Side::Writer), base));
    StreamReader::<T>::new(h, T::stream_vt())
}

fn write_all_body<T: Pl>() -> BoxFut {
    Box::pin(async move {
        let items = [6u32, 2, 3][choose(3, "peer-items")];
        let mut w = writer_to_host::<T>(peer(4, items, choose(2, "peer-may-drop") == 1));
        let h = w.handle();
        let n = [4usize, 1, 0][choose(3, "write-all-len")];
        let v = make_items::<T>(n, h);
        let back = w.write_all(v).await;
        let dropped = !back.is_empty();
        let mut back_ids = ids_of(&back);
        drop(back);
        if !dropped && choose(2, "then-write-one") == 1 {
            let one = make_items::<T>(1, h).pop().unwrap();
            if let Some(b) = w.write_one(one).await {
                back_ids.push(b.id());
            }
        }
        fact("back", h as u64, 0, back_ids);
        drop(w);
    })
}
fn write_all_item() -> Vec<TaskDef> {
    vec![TaskDef { kind: TaskKind::Export, body: Box::new(write_all_body::<Item>) }]
}
fn write_all_u8() -> Vec<TaskDef> {
    vec![TaskDef { kind: TaskKind::Export, body: Box::new(write_all_body::<u8>) }]
}

fn next_collect_body<T: Pl>() -> BoxFut {
    Box::pin(async move {
        let items = [5u32, 2, 0][choose(3, "peer-items")];
        let mut r = reader_from_host::<T>(peer(4, items, true), 3000);
        let h = r.handle();
        let k = choose(3, "next-count");
        let mut ended = false;
        for _ in 0..k {
            match r.next().await {
                Some(x) => fact("got", h as u64, 0, vec![x.id()]),
                None => {
                    ended = true;
                    break;
                }
            }
        }
        if !ended {
            let rest = r.collect().await;
            fact("got", h as u64, 0, ids_of(&rest));
        } else {
            fact("got", h as u64, 0, vec![]);
            drop(r);
        }
    })
}
fn next_collect_item() -> Vec<TaskDef> {
    vec![TaskDef { kind: TaskKind::Export, body: Box::new(next_collect_body::<Item>) }]
}
fn next_collect_u8() -> Vec<TaskDef> {
    vec![TaskDef { kind: TaskKind::Export, body: Box::new(next_collect_body::<u8>) }]
}

#[cfg(feature = "futures-stream")]
fn into_stream_body<T: Pl>() -> BoxFut {
    use futures::StreamExt;
    Box::pin(async move {
        let items = [4u32, 1, 0][choose(3, "peer-items")];
        let r = reader_from_host::<T>(peer(4, items, true), 3000);
        let h = r.handle();
        let mut s = r.into_stream();
        let limit = [9usize, 1][choose(2, "take")];
        let mut got = vec![];
        let mut n = 0;
        while n < limit {
            match s.next().await {
                Some(x) => got.push(x.id()),
                None => break,
            }
            n += 1;
        }
        fact("got", h as u64, 0, got);
        drop(s);
    })
}
#[cfg(feature = "futures-stream")]
fn into_stream_item() -> Vec<TaskDef> {
    vec![TaskDef { kind: TaskKind::Export, body: Box::new(into_stream_body::<Item>) }]
}

// ------------------------------------------------------------------ two tasks, one guest<->guest stream

fn two_tasks_pair_u8() -> Vec<TaskDef> {
    let (w, r) = unsafe { stream_new::<u8>(u8::stream_vt()) };
    let a: TaskDef = TaskDef {
        kind: TaskKind::Export,
        body: Box::new(move || {
            Box::pin(async move {
                let mut w = w;
                let h = w.handle();
                let n = [3usize, 1][choose(2, "write-all-len")];
                let v = make_items::<u8>(n, h);
                let back = w.write_all(v).await;
                fact("back", h as u64, 0, ids_of(&back));
                drop(w);
            }) as BoxFut
        }),
    };
    let b: TaskDef = TaskDef {
        kind: TaskKind::Export,
        body: Box::new(move || {
            Box::pin(async move {
                let mut r = r;
                let h = r.handle();
                if choose(2, "reader-mode") == 0 {
                    let got = r.collect().await;
                    fact("got", h as u64, 0, got.iter().map(|x| *x as u32).collect());
                } else {
                    let mut got = vec![];
                    if let Some(x) = r.next().await {
                        got.push(x as u32);
                    }
                    fact("got", h as u64, 0, got);
                    drop(r);
                }
            }) as BoxFut
        }),
    };
    vec![a, b]
}

// ------------------------------------------------------------------ an operation that moves between tasks

pub(crate) struct Migrating {
    pub(crate) op: Option<Pin<Box<StreamWrite<'static, u8>>>>,
    pub(crate) writer: *mut StreamWriter<u8>,
    pub(crate) slot: u32,
    pub(crate) handle: u32,
}
impl Drop for Migrating {
    fn drop(&mut self) {
        if self.op.take().is_some() {
            crate::machine::report(host::Gv::OpDropped { slot: self.slot });
        }
        unsafe { drop(Box::from_raw(self.writer)) };
    }
}

pub(crate) struct PollShared(pub(crate) Rc<RefCell<Migrating>>, pub(crate) bool /* report first poll */);
impl Future for PollShared {
    type Output = Option<(StreamResult, Vec<u32>)>;
    fn poll(mut self: Pin<&mut Self>, cx: &mut Context<'_>) -> Poll<Self::Output> {
        let first = std::mem::replace(&mut self.1, false);
        let mut m = self.0.borrow_mut();
        let (slot, handle) = (m.slot, m.handle);
        let Some(op) = m.op.as_mut() else { return Poll::Ready(None) };
        let before = host::with(|h| h.ops.len());
        let r = op.as_mut().poll(cx);
        if first {
            let rec = host::with(|h| (before..h.ops.len()).find(|r| h.ops[*r].handle == handle));
            crate::machine::report(host::Gv::OpStarted { slot, rec });
        }
        match r {
            Poll::Ready((res, buf)) => {
                m.op = None;
                let back: Vec<u32> = buf.into_vec().iter().map(|x| *x as u32).collect();
                Poll::Ready(Some((res, back)))
            }
            Poll::Pending => Poll::Pending,
        }
    }
}

pub(crate) fn report_migrated(slot: u32, r: (StreamResult, Vec<u32>)) {
    let what = match r.0 {
        StreamResult::Complete(n) => format!("complete:{n}"),
        StreamResult::Dropped => "dropped".into(),
        StreamResult::Cancelled => "cancelled".into(),
    };
    crate::machine::report(host::Gv::OpResult { slot, how: "poll", what, back: vec![] });
    fact("into_vec", slot as u64, 0, r.1);
}

/// Poll once, then give up the future without dropping the operation.
pub(crate) struct Once<F>(pub(crate) F, pub(crate) bool);
impl<F: Future + Unpin> Future for Once<F> {
    type Output = Option<F::Output>;
    fn poll(mut self: Pin<&mut Self>, cx: &mut Context<'_>) -> Poll<Self::Output> {
        if self.1 {
            return Poll::Ready(None);
        }
        self.1 = true;
        match Pin::new(&mut self.0).poll(cx) {
            Poll::Ready(x) => Poll::Ready(Some(x)),
            Poll::Pending => Poll::Ready(None),
        }
    }
}

fn migrate_u8() -> Vec<TaskDef> {
    migrate(TaskKind::Export, TaskKind::Export)
}
fn migrate_v2_v1() -> Vec<TaskDef> {
    migrate(TaskKind::Export, TaskKind::V1Export)
}
fn migrate_v1_v2() -> Vec<TaskDef> {
    migrate(TaskKind::V1Export, TaskKind::Export)
}
fn migrate_v1_v1() -> Vec<TaskDef> {
    migrate(TaskKind::V1Export, TaskKind::V1Export)
}
fn v1_sw_u8() -> Vec<TaskDef> {
    vec![mach::<u8>(TaskKind::V1Export, vec![EpSpec::StreamWriter(peer(3, 6, true))], 8, 0)]
}
fn v1_sr_item() -> Vec<TaskDef> {
    vec![mach::<Item>(TaskKind::V1Export, vec![EpSpec::StreamReader(peer(3, 6, true))], 8, 1000)]
}
fn v1_fw_fr_item() -> Vec<TaskDef> {
    vec![mach::<Item>(TaskKind::V1Export, vec![EpSpec::FutureWriter(peer(2, 1, true)), EpSpec::FutureReader(peer(2, 1, false))], 9, 1000)]
}
fn v1_and_v2_tasks() -> Vec<TaskDef> {
    vec![
        mach::<Item>(TaskKind::V1Export, vec![EpSpec::StreamWriter(peer(2, 4, true))], 6, 0),
        mach::<Item>(TaskKind::Export, vec![EpSpec::FutureReader(peer(2, 1, false))], 5, 2000),
    ]
}

fn migrate(kind_a: TaskKind, kind_b: TaskKind) -> Vec<TaskDef> {
    let w = Box::into_raw(Box::new(writer_to_host::<u8>(peer(3, 4, choose(2, "peer-may-drop") == 1))));
    let wref: &'static mut StreamWriter<u8> = unsafe { &mut *w };
    let handle = wref.handle();
    let slot = crate::machine::new_slot();
    let v = make_items::<u8>(3, handle);
    let ids = ids_of(&v);
    crate::machine::report(host::Gv::OpNew { slot, handle, kind: "stream.write", ids });
    let shared = Rc::new(RefCell::new(Migrating { op: Some(Box::pin(wref.write(v))), writer: w, slot, handle }));
    let (sa, sb) = (shared.clone(), shared);
    let a = TaskDef {
        kind: kind_a,
        body: Box::new(move || {
            Box::pin(async move {
                // first poll registers the operation with task A
                if let Some(Some(r)) = Once(PollShared(sa.clone(), true), false).await {
                    report_migrated(slot, r);
                    return;
                }
                match choose(3, "a-after-first-poll") {
                    0 => {} // finish the body: the task stays alive for its registered waitable
                    1 => {
                        // await it here after all
                        if let Some(r) = PollShared(sa.clone(), false).await {
                            report_migrated(slot, r);
                        }
                    }
                    _ => wit_bindgen::yield_async().await,
                }
            }) as BoxFut
        }),
    };
    let b = TaskDef {
        kind: kind_b,
        body: Box::new(move || {
            Box::pin(async move {
                for _ in 0..choose(3, "b-yields-first") {
                    wit_bindgen::yield_async().await;
                }
                let started = host::with(|h| h.ops_on(handle) > 0);
                if !started && sb.borrow().op.is_some() {
                    // B would be the one starting the operation: that is the
                    // ordinary single-task case, covered elsewhere
                    return;
                }
                match choose(2, "b-mode") {
                    0 => {
                        // second poll happens in task B: the registration moves
                        if let Some(r) = PollShared(sb.clone(), false).await {
                            report_migrated(slot, r);
                        }
                    }
                    _ => {
                        // B polls once (registration moves to B) and leaves it
                        if let Some(Some(r)) = Once(PollShared(sb.clone(), false), false).await {
                            report_migrated(slot, r);
                        }
                    }
                }
            }) as BoxFut
        }),
    };
    vec![a, b]
}

/// Start a stream write, poll it once and — if it did not complete — leave it
/// registered with the current task (the operation is parked in the mailbox
/// and destroyed when the execution is cleaned up).
pub(crate) async fn leave_registered() {
    let w = Box::into_raw(Box::new(writer_to_host::<u8>(peer(2, 3, true))));
    let wref: &'static mut StreamWriter<u8> = unsafe { &mut *w };
    let handle = wref.handle();
    let slot = crate::machine::new_slot();
    let shared = Rc::new(RefCell::new(Migrating { op: Some(Box::pin(wref.write(vec![1u8, 2]))), writer: w, slot, handle }));
    if let Some(Some(_)) = Once(PollShared(shared.clone(), false), false).await {
        return;
    }
    fact("left-registered", handle as u64, 0, vec![]);
    mailbox_put("left-registered", Box::new(shared));
}

// ------------------------------------------------------------------ registry

macro_rules! scn {
    ($name:ident, $props:expr, $cfg:expr, $thorough:expr) => {
        Scenario { name: stringify!($name), props: $props, cfg: $cfg, build: $name, thorough_only: $thorough }
    };
}

pub fn all() -> Vec<Scenario> {
    const S: &[&str] = &["C18", "C19"];
    const F: &[&str] = &["C18", "C20"];
    const SF: &[&str] = &["C18", "C19", "C20"];
    let mut v = vec![
        scn!(sw_u8, S, cfg_plain(), false),
        scn!(sw_item, S, cfg_plain(), false),
        scn!(sr_u8, S, cfg_plain(), false),
        scn!(sr_item, S, cfg_plain(), false),
        scn!(fw_u8, F, cfg_plain(), false),
        scn!(fw_item, F, cfg_plain(), false),
        scn!(fr_u8, F, cfg_plain(), false),
        scn!(fr_item, F, cfg_plain(), false),
        scn!(sw_sr_item, S, cfg_plain(), false),
        scn!(fw_fr_item, F, cfg_plain(), false),
        scn!(sw_fw_item, SF, cfg_cancel(), false),
        scn!(pair_u8, S, cfg_stick(), false),
        scn!(fpair_u8, F, cfg_stick(), false),
        scn!(two_tasks, SF, cfg_plain(), false),
        scn!(two_tasks_streams, S, cfg_cancel(), false),
        scn!(write_all_item, S, cfg_plain(), false),
        scn!(write_all_u8, S, cfg_cancel(), false),
        scn!(next_collect_item, S, cfg_plain(), false),
        scn!(next_collect_u8, S, cfg_cancel(), false),
        scn!(two_tasks_pair_u8, S, cfg_plain(), false),
        scn!(migrate_u8, S, cfg_stick(), false),
        scn!(v1_sw_u8, S, cfg_cancel(), false),
        scn!(v1_sr_item, S, cfg_plain(), false),
        scn!(v1_fw_fr_item, F, cfg_cancel(), false),
        scn!(v1_and_v2_tasks, SF, cfg_plain(), false),
        scn!(migrate_v2_v1, S, cfg_stick(), false),
        scn!(migrate_v1_v2, S, cfg_stick(), false),
        scn!(migrate_v1_v1, S, cfg_stick(), false),
    ];
    #[cfg(feature = "futures-stream")]
    v.push(scn!(into_stream_item, S, cfg_cancel(), false));
    // the same programs with host-injected cancellation
    v.push(Scenario { name: "sw_item_cancel", props: S, cfg: cfg_cancel(), build: sw_item, thorough_only: false });
    v.push(Scenario { name: "sr_item_cancel", props: S, cfg: cfg_cancel(), build: sr_item, thorough_only: false });
    v.push(Scenario { name: "fw_item_cancel", props: F, cfg: cfg_cancel(), build: fw_item, thorough_only: false });
    v.push(Scenario { name: "fr_item_cancel", props: F, cfg: cfg_cancel(), build: fr_item, thorough_only: false });
    // `block_on` scenarios last: a finding inside a synchronous wait ends the shard
    v.push(scn!(block_on_sw_item, S, cfg_plain(), false));
    v.push(scn!(block_on_sr_u8, S, cfg_plain(), false));
    v.push(scn!(block_on_fw_fr_item, F, cfg_plain(), false));
    v.push(Scenario { name: "fpair_u8_cancel", props: F, cfg: ExecCfg { cancel_inject: true, may_stick: true, ..ExecCfg::default() }, build: fpair_u8, thorough_only: false });
    v.extend(crate::scen2::all());
    v
}
