//! Monitors: pure functions over the host's event log (plus the H3 snapshots
//! recorded in it) and the end-of-run summary.
//!
//! * C18 — M1 set ledger, M2 registration snapshots, M3 delivery (lost /
//!   misdirected events show up as stuck tasks, stale registrations, panics).
//! * C19 — per-operation count agreement, per-stream order/conservation,
//!   lowered-buffer release ledger.
//! * C20 — future outcomes agree with the host's decision, value delivered
//!   exactly once, writer never stranded.
//! Each finding carries the property that owns it and a stable signature.
use crate::driver::RunEnd;
use crate::host::{CState, Elem, Ev, Gv, Host, Led, Obj, OpRec, Side, TrapKind, CANCELLED, COMPLETED, DROPPED};
use crate::payload::is_default_id;
use std::collections::{BTreeMap, BTreeSet};

#[derive(Clone, Debug)]
pub struct Finding {
    pub prop: &'static str,
    pub sig: String,
    pub what: String,
}

#[derive(Clone, Debug, Default)]
pub struct Ctx {
    pub scenario: &'static str,
    pub may_stick: bool,
    /// net guest-heap blocks / bytes left by the execution (None: not measured)
    pub leak: Option<(i64, i64)>,
    pub props: &'static [&'static str],
}

fn f(prop: &'static str, sig: impl Into<String>, what: impl Into<String>) -> Finding {
    Finding { prop, sig: sig.into(), what: what.into() }
}

pub fn trap_owner(kind: TrapKind, what: &str) -> &'static str {
    use TrapKind::*;
    match kind {
        UnknownHandle | WrongKind | SetNotEmpty | CancelNothingInProgress | DropWhileCopying | WaitOnEmptyForever => "C18",
        CopyInProgress | CopyOnDoneEnd | LengthTooLarge => {
            if what.starts_with("future") {
                "C20"
            } else {
                "C19"
            }
        }
        FutureDropWritableUnwritten | FutureSecondWrite => "C20",
        SubtaskCancelResolved | SubtaskDropUnresolved => "C21",
        TaskReturnTwice | ContextMisuse | Other => "C22",
        IntraInstanceNonNumeric => "harness",
        Runaway => "inconclusive",
    }
}

pub fn panic_owner(file: &str) -> &'static str {
    let base = file.rsplit('/').next().unwrap_or(file);
    if file.contains("rt-host") {
        return "harness";
    }
    match base {
        "waitable.rs" | "async_support.rs" | "waitable_set.rs" | "cabi.rs" | "try_lock.rs" => "C18",
        "stream_support.rs" | "abi_buffer.rs" | "futures_stream.rs" => "C19",
        "future_support.rs" => "C20",
        "subtask.rs" => "C21",
        "spawn.rs" | "spawn_disabled.rs" => "C22",
        "inter_task_wakeup.rs" | "inter_task_wakeup_disabled.rs" | "unit_stream.rs" => "C23",
        _ => "any",
    }
}

fn normalize(msg: &str) -> String {
    let mut out = String::new();
    let mut last_hash = false;
    // addresses and other numbers never enter a signature
    let mut cleaned = String::new();
    let b: Vec<char> = msg.chars().collect();
    let mut i = 0;
    while i < b.len() {
        if b[i] == '0' && i + 1 < b.len() && b[i + 1] == 'x' {
            i += 2;
            while i < b.len() && b[i].is_ascii_hexdigit() {
                i += 1;
            }
            cleaned.push('0');
        } else {
            cleaned.push(b[i]);
            i += 1;
        }
    }
    for c in cleaned.chars().take(90) {
        if c.is_ascii_digit() {
            if !last_hash {
                out.push('#');
            }
            last_hash = true;
        } else if c.is_ascii_alphanumeric() || c == '_' || c == '.' || c == ':' {
            out.push(c);
            last_hash = false;
        } else {
            if !out.ends_with('-') {
                out.push('-');
            }
            last_hash = false;
        }
    }
    out.trim_matches('-').to_string()
}

/// Decode a stream code into the text the runtime should report.
fn stream_text(code: u32) -> String {
    let (res, k) = (code & 0xf, code >> 4);
    if k > 0 {
        format!("complete:{k}")
    } else {
        match res {
            COMPLETED => "complete:0".into(),
            DROPPED => "dropped".into(),
            CANCELLED => "cancelled".into(),
            _ => format!("?{code:#x}"),
        }
    }
}

struct OpView<'a> {
    slot: u32,
    handle: u32,
    kind: &'static str,
    ids: &'a [u32],
    started: Option<Option<usize>>,
    result: Option<(&'static str, &'a str, &'a [u32])>,
    dropped: bool,
}

fn ops_view(host: &Host) -> BTreeMap<u32, OpView<'_>> {
    let mut m: BTreeMap<u32, OpView> = BTreeMap::new();
    for ev in &host.log {
        if let Ev::Guest { gv, .. } = ev {
            match gv {
                Gv::OpNew { slot, handle, kind, ids } => {
                    m.insert(*slot, OpView { slot: *slot, handle: *handle, kind, ids, started: None, result: None, dropped: false });
                }
                Gv::OpStarted { slot, rec } => {
                    if let Some(o) = m.get_mut(slot) {
                        o.started = Some(*rec);
                    }
                }
                Gv::OpResult { slot, how, what, back } => {
                    if let Some(o) = m.get_mut(slot) {
                        o.result = Some((how, what, back));
                    }
                }
                Gv::OpDropped { slot } => {
                    if let Some(o) = m.get_mut(slot) {
                        o.dropped = true;
                    }
                }
                _ => {}
            }
        }
    }
    m
}

fn tail(host: &Host, n: usize) -> String {
    // centre the excerpt on the trap if there is one
    let end = match host.log.iter().position(|e| matches!(e, Ev::Trap { .. })) {
        Some(i) => (i + 4).min(host.log.len()),
        None => host.log.len(),
    };
    let start = end.saturating_sub(n);
    let mut s = String::new();
    for ev in host.log[start..end].iter().filter(|e| !matches!(e, Ev::Call { name, .. } if *name == "context.get" || *name == "context.set" || *name == "wasip3_task_set")) {
        s.push_str(&crate::trace::fmt_ev(ev));
        s.push_str(" | ");
    }
    s
}

/// All monitors.  `host` is the state after the run.
pub fn check(host: &Host, end: &RunEnd, cx: &Ctx) -> Vec<Finding> {
    let mut out = check_base(host, end, cx);
    // scenarios written for exactly one of C21-C23 own everything they exhibit
    // (a panic or trap anywhere in the runtime during such a scenario is that
    // check's observation; nobody else runs the scenario)
    if let [only] = cx.props {
        if matches!(*only, "C21" | "C22" | "C23") {
            for fd in out.iter_mut() {
                if !matches!(fd.prop, "inconclusive" | "harness") {
                    fd.prop = only;
                }
            }
        }
    }
    out
}

fn check_base(host: &Host, end: &RunEnd, cx: &Ctx) -> Vec<Finding> {
    let mut out = vec![];
    let any_cancel = host.tasks.iter().any(|t| t.cancel_delivered);

    // ---- panics and traps end the execution: nothing else is judged
    if let Some(p) = &end.panic {
        let owner = panic_owner(&p.file);
        let base = p.file.rsplit('/').next().unwrap_or(&p.file);
        let what = format!("guest panicked at {}:{}: {}; trace tail: {}", p.file, p.line, p.msg, tail(host, 12));
        match crate::monitors2::classify_panic(host, p, cx) {
            Some((prop, sig)) => out.push(f(prop, sig, what)),
            None => out.push(f(owner, format!("panic:{}:{}", base, normalize(&p.msg)), what)),
        }
        // the wake-up stream ledger is a safety property of the log prefix:
        // judge what happened before the panic as well
        // (unless the panic already names the root cause of what the ledger would see)
        let named = out.iter().any(|fd| fd.sig == "wakeup:wake-of-task-cancelled-while-sleeping:panic");
        if cx.props.contains(&"C23") && !named {
            crate::monitors2::c23(host, end, &mut out);
        }
        return out;
    }
    if let Some((kind, what)) = &host.trap {
        let owner = trap_owner(*kind, what);
        let builtin = what.split(|c| c == '(' || c == ':').next().unwrap_or("");
        out.push(f(owner, format!("trap:{}:{}", kind.name(), normalize(builtin)), format!("host trap: {what}; trace tail: {}", tail(host, 12))));
        return out;
    }
    if end.step_limit_hit {
        out.push(f("inconclusive", "step-limit", "driver step limit reached"));
        return out;
    }

    // ---- C21 / C22 / C23
    if cx.props.contains(&"C21") {
        crate::monitors2::c21(host, &mut out);
    }
    if cx.props.contains(&"C22") || cx.props.contains(&"C23") {
        crate::monitors2::c22(host, &mut out);
    }
    if cx.props.contains(&"C23") {
        crate::monitors2::c23(host, end, &mut out);
    }

    // ---- M1: set ledger
    for ev in &host.log {
        if let Ev::InSet { name, handle, set: Some(s) } = ev {
            out.push(f("C18", format!("M1:{name}:waitable-still-in-set"), format!("{name}({handle}) while the waitable is still a member of waitable set {s}")));
        }
    }

    // ---- M2: registration snapshots
    // A registration is *stale* if the waitable is not (any longer) a member of
    // the task's set.  The signature names the ABI of the task holding the
    // stale entry and of the task that joined the waitable last (an operation
    // that moved between tasks), so that each root cause has one signature.
    let abi = |t: u32| -> &'static str {
        match host.tasks.get(t as usize) {
            Some(t) if t.is_v1 => "v1",
            Some(t) if t.is_block_on => "block_on",
            Some(_) => "v2",
            None => "?",
        }
    };
    let mut seen_m2: BTreeSet<String> = BTreeSet::new();
    for (i, ev) in host.log.iter().enumerate() {
        if let Ev::Snapshot { task, at, set, keys, members, internal } = ev {
            let mut emit = |out: &mut Vec<Finding>, sig: String, what: String| {
                if seen_m2.insert(sig.clone()) {
                    out.push(f("C18", sig, what));
                }
            };
            for k in keys {
                if !k.exists || k.in_set != *set || set.is_none() {
                    let last_join = host.log[..i].iter().rev().find_map(|e| match e {
                        Ev::Call { task: jt, name: "waitable.join", a, b, .. } if *a == k.handle as u64 && *b != 0 => Some(*jt),
                        _ => None,
                    });
                    let dest = match last_join {
                        Some(jt) if jt != *task => format!("now-with-{}-task", abi(jt)),
                        _ => "not-moved".to_string(),
                    };
                    // ABIs of all the tasks that ever registered this waitable
                    let mut joiners: Vec<u32> = vec![];
                    for e in &host.log[..i] {
                        if let Ev::Call { task: jt, name: "waitable.join", a, b, .. } = e {
                            if *a == k.handle as u64 && *b != 0 && !joiners.contains(jt) {
                                joiners.push(*jt);
                            }
                        }
                    }
                    let mut abis: Vec<&str> = joiners.iter().map(|t| abi(*t)).collect();
                    abis.sort();
                    // moves that involve a v1-ABI task form one family (a v1
                    // task cannot be unregistered from outside, and the
                    // runtime's stored v2 task goes out of date): one signature
                    // per ABI mix; between v2 tasks the signature is detailed
                    let sig = if abis.len() > 1 && abis.contains(&"v1") {
                        format!("M2:stale-registration:operation-moved-between-tasks-involving-v1-abi:registered-by={}", abis.join("+"))
                    } else {
                        format!("M2:stale-registration:left-in-{}-task:{}:registered-by={}", abi(*task), dest, abis.join("+"))
                    };
                    emit(
                        &mut out,
                        sig,
                        format!("task {task} at {at}: waitable {} is still registered (callback_ptr kept) but it is {} (task's set: {:?})", k.handle, if !k.exists { "no longer a live handle".to_string() } else { format!("in set {:?}", k.in_set) }, set),
                    );
                } else if !k.in_progress {
                    emit(&mut out, format!("M2:registered-waitable-without-operation:{}-task", abi(*task)), format!("task {task} at {at}: waitable {} is registered but the host has no operation in progress on it", k.handle));
                }
            }
            for m in members {
                if !keys.iter().any(|k| k.handle == *m) && !internal.contains(m) {
                    emit(&mut out, format!("M2:set-member-not-registered:{}-task", abi(*task)), format!("task {task} at {at}: waitable {m} is in the task's set {:?} but not in its waitable map", set));
                }
            }
        }
    }

    // ---- M3: lost / misdirected deliveries leave a task suspended for ever
    if !end.stuck.is_empty() && !cx.may_stick {
        out.push(f("C18", "M3:task-suspended-with-nothing-left-to-wake-it", format!("tasks {:?} still suspended after every possible host event was delivered; trace tail: {}", end.stuck, tail(host, 14))));
    }

    // ---- per-operation agreement (C19 counts, C20 outcomes, C18 kind of result)
    let ops = ops_view(host);
    let mut done_seen: BTreeSet<u32> = BTreeSet::new(); // handles whose end the host moved to DONE (any DROPPED code)
    for r in &host.ops {
        if let Some(c) = r.code {
            if !r.is_future && c & 0xf == DROPPED {
                done_seen.insert(r.handle);
            }
        }
    }
    for o in ops.values() {
        let rec: Option<&OpRec> = o.started.flatten().and_then(|i| host.ops.get(i));
        let is_stream = o.kind.starts_with("stream");
        let prop: &'static str = if is_stream { "C19" } else { "C20" };
        // items moved by the host must be a prefix of what was handed over
        if let Some(r) = rec {
            if r.side == Side::Writer {
                let k = r.ids.len();
                if k > o.ids.len() || r.ids[..] != o.ids[..k] {
                    out.push(f(prop, format!("{}:host-received-other-items-than-handed-in-order", o.kind), format!("slot {} on handle {}: handed {:?}, host received {:?}", o.slot, o.handle, o.ids, r.ids)));
                }
            }
        }
        let Some((how, what, back)) = o.result else { continue };
        let expected: String = match (o.kind, rec) {
            ("stream.write" | "stream.write_buf" | "stream.read", Some(r)) => match r.code {
                Some(c) => stream_text(c),
                None => {
                    out.push(f(prop, format!("{}:result-without-host-completion", o.kind), format!("slot {}: runtime reported {what} but the host never completed the operation", o.slot)));
                    continue;
                }
            },
            ("stream.write" | "stream.write_buf" | "stream.read", None) => {
                if o.started == Some(None) && how == "cancel" && !done_seen.contains(&o.handle) {
                    "cancelled".into()
                } else if done_seen.contains(&o.handle) {
                    // the end already saw DROPPED with items: the runtime answers locally
                    if how == "cancel" && what == "cancelled" { "cancelled".into() } else { "dropped".into() }
                } else {
                    "cancelled".into()
                }
            }
            ("future.write", Some(r)) => match r.code {
                Some(COMPLETED) => "written".into(),
                Some(DROPPED) => format!("dropped:{}", o.ids.first().copied().unwrap_or(0)),
                Some(CANCELLED) => format!("cancelled:{}", o.ids.first().copied().unwrap_or(0)),
                other => format!("?{other:?}"),
            },
            ("future.write", None) => format!("cancelled:{}", o.ids.first().copied().unwrap_or(0)),
            ("future.read", Some(r)) => match r.code {
                Some(COMPLETED) => format!("value:{}", r.ids.first().copied().unwrap_or(u32::MAX)),
                Some(CANCELLED) => "cancelled".into(),
                other => format!("?{other:?}"),
            },
            ("future.read", None) => "cancelled".into(),
            _ => continue,
        };
        if expected != what {
            let via = rec.and_then(|r| r.via);
            let kind_of = |s: &str| s.split(':').next().unwrap_or("").to_string();
            out.push(f(
                prop,
                if kind_of(what) == kind_of(&expected) { format!("{}:{}:reported-count-or-value-differs-from-the-host's", o.kind, how) } else { format!("{}:{}:reported-{}-host-decided-{}", o.kind, how, kind_of(what), kind_of(&expected)) },
                format!("slot {} on handle {} ({how}): runtime reported `{what}`, the host decided `{expected}` (code {:?} via {:?})", o.slot, o.handle, rec.and_then(|r| r.code), via),
            ));
            if kind_of(what) != kind_of(&expected) && via == Some(crate::host::Via::Event) {
                out.push(f("C18", format!("M3:{}:result-does-not-reflect-delivered-event", o.kind), format!("slot {}: delivered event says `{expected}`, operation reported `{what}`", o.slot)));
            }
        }
        if o.kind == "stream.read" {
            let want: &[u32] = rec.map(|r| &r.ids[..]).unwrap_or(&[]);
            if back != want {
                out.push(f("C19", "stream.read:buffer-does-not-grow-by-the-items-the-host-wrote", format!("slot {}: host wrote {:?}, buffer gained {:?}", o.slot, want, back)));
            }
        }
    }
    for ev in &host.log {
        if let Ev::Guest { gv: Gv::Fact { key, a, ids, .. }, .. } = ev {
            match *key {
                "into_vec" => {
                    if let Some(o) = ops.get(&(*a as u32)) {
                        let rec = o.started.flatten().and_then(|i| host.ops.get(i));
                        let k = rec.map(|r| r.ids.len()).unwrap_or(0).min(o.ids.len());
                        if ids[..] != o.ids[k..] {
                            out.push(f("C19", "into_vec:returned-values-differ-from-untransferred-suffix", format!("slot {}: handed {:?}, host took {k}, into_vec returned {:?}", o.slot, o.ids, ids)));
                        }
                    }
                }
                "read-buffer-prefix-changed" => out.push(f("C19", "stream.read:earlier-buffer-contents-changed", format!("slot {a}: buffer is now {ids:?}"))),
                "violation" => {}
                _ => {}
            }
        }
    }

    // ---- per-stream / per-future conservation
    let mut handed: BTreeMap<u32, Vec<u32>> = BTreeMap::new(); // by writer handle
    let mut got: BTreeMap<u32, Vec<u32>> = BTreeMap::new(); // by reader handle (high-level scenarios)
    let mut backs: BTreeMap<u32, Vec<u32>> = BTreeMap::new();
    let mut explicit_future_write: BTreeSet<u32> = BTreeSet::new();
    for ev in &host.log {
        if let Ev::Guest { gv, .. } = ev {
            match gv {
                Gv::Fact { key: "handed", a, ids, .. } => handed.entry(*a as u32).or_default().extend_from_slice(ids),
                Gv::Fact { key: "got", a, ids, .. } => got.entry(*a as u32).or_default().extend_from_slice(ids),
                Gv::Fact { key: "back", a, ids, .. } => backs.entry(*a as u32).or_default().extend_from_slice(ids),
                Gv::OpNew { kind: "future.write", handle, .. } => {
                    explicit_future_write.insert(*handle);
                }
                _ => {}
            }
        }
    }
    for sh in &host.shared {
        let prop: &'static str = if sh.is_future { "C20" } else { "C19" };
        let kind = if sh.is_future { "future" } else { "stream" };
        if sh.elem == Elem::Unit {
            continue;
        }
        // what the host reader received: no duplicates, order of handing kept
        let recv = &sh.host_recv;
        let mut seen = BTreeSet::new();
        for id in recv {
            if *id == u32::MAX {
                out.push(f(prop, format!("{kind}:host-read-corrupt-element"), format!("shared {}: the host read an element whose list data does not belong to its id", sh.id)));
            } else if !seen.insert(*id) {
                out.push(f(prop, format!("{kind}:value-delivered-twice"), format!("shared {}: host received {:?}", sh.id, recv)));
            }
        }
        if sh.is_future && recv.len() > 1 {
            out.push(f("C20", "future:more-than-one-value-delivered", format!("shared {}: host received {:?}", sh.id, recv)));
        }
        // order: ids received from one writer handle appear in the order handed
        let writer_handles: BTreeSet<u32> = host.ops.iter().filter(|r| r.shared == sh.id && r.side == Side::Writer).map(|r| r.handle).collect();
        for wh in writer_handles {
            if let Some(hd) = handed.get(&wh) {
                let pos: BTreeMap<u32, usize> = hd.iter().enumerate().map(|(i, id)| (*id, i)).collect();
                let mut last: Option<usize> = None;
                let wrote: Vec<u32> = host.ops.iter().filter(|r| r.shared == sh.id && r.side == Side::Writer).flat_map(|r| r.ids.iter().copied()).collect();
                for id in &wrote {
                    match pos.get(id) {
                        Some(p) => {
                            if last.map_or(false, |l| *p <= l) {
                                out.push(f(prop, format!("{kind}:values-arrive-out-of-order"), format!("shared {}: handed {:?}, written in order {:?}", sh.id, hd, wrote)));
                                break;
                            }
                            last = Some(*p);
                        }
                        None => {
                            if !(sh.is_future && is_default_id(*id)) {
                                out.push(f(prop, format!("{kind}:host-received-value-never-handed"), format!("shared {}: value {id} was never handed to the writer (handed {:?})", sh.id, hd)));
                            }
                        }
                    }
                }
                // high-level API: everything handed is either delivered or given back
                if let Some(b) = backs.get(&wh) {
                    let mut all = wrote.clone();
                    all.extend_from_slice(b);
                    if &all != hd {
                        out.push(f(prop, format!("{kind}:delivered-plus-returned-differs-from-handed"), format!("shared {}: handed {:?}, delivered {:?}, returned {:?}", sh.id, hd, wrote, b)));
                    }
                }
            }
        }
        // reader side, high-level API: what the guest obtained is what the host copied
        let reader_handles: BTreeSet<u32> = host.ops.iter().filter(|r| r.shared == sh.id && r.side == Side::Reader).map(|r| r.handle).collect();
        for rh in reader_handles {
            if let Some(g) = got.get(&rh) {
                let copied: Vec<u32> = host.ops.iter().filter(|r| r.shared == sh.id && r.side == Side::Reader).flat_map(|r| r.ids.iter().copied()).collect();
                let ok = if any_cancel { copied.starts_with(g) } else { g == &copied };
                if !ok {
                    out.push(f(prop, format!("{kind}:reader-obtained-differs-from-what-host-copied"), format!("shared {}: host copied {:?}, reader obtained {:?}", sh.id, copied, g)));
                }
            }
        }
    }
    // a future write nobody asked for must carry the default value
    let explicit_recs: BTreeSet<usize> = ops.values().filter_map(|o| o.started.flatten()).collect();
    for (i, r) in host.ops.iter().enumerate() {
        if r.is_future && r.side == Side::Writer && !explicit_recs.contains(&i) && !r.ids.is_empty() && !is_default_id(r.ids[0]) {
            out.push(f("C20", "future:implicit-write-is-not-the-default-value", format!("handle {}: value {} written without an explicit write", r.handle, r.ids[0])));
        }
    }

    // ---- ownership ledger of `Item`s: every value ends in exactly one place
    #[derive(Clone, Copy, PartialEq, Debug)]
    enum St {
        Rust,
        Abi,
        Gone,
    }
    let mut st: BTreeMap<u32, (St, bool /*host has it*/, bool /*from host*/)> = BTreeMap::new();
    let mut ledger_bad = |out: &mut Vec<Finding>, prop: &'static str, sig: &str, id: u32, what: String| {
        out.push(f(prop, format!("ledger:{sig}"), format!("value {id}: {what}")));
    };
    // which property a value belongs to
    let mut id_prop: BTreeMap<u32, &'static str> = BTreeMap::new();
    for ev in &host.log {
        if let Ev::Copy { shared, ids, .. } = ev {
            for id in ids {
                id_prop.insert(*id, if host.shared[*shared].is_future { "C20" } else { "C19" });
            }
        }
        if let Ev::Guest { gv: Gv::Fact { key: "handed", b, ids, .. }, .. } = ev {
            for id in ids {
                id_prop.entry(*id).or_insert(if *b == 1 { "C20" } else { "C19" });
            }
        }
    }
    let default_prop: &'static str = if cx.props.contains(&"C19") && !cx.props.contains(&"C20") { "C19" } else if cx.props.contains(&"C20") && !cx.props.contains(&"C19") { "C20" } else { "C19" };
    let pr = |id: u32| -> &'static str {
        if is_default_id(id) {
            "C20"
        } else {
            id_prop.get(&id).copied().unwrap_or(default_prop)
        }
    };
    let item_elem = |sh: usize| host.shared[sh].elem == Elem::Item;
    for ev in &host.log {
        match ev {
            Ev::Ledger(Led::Create(id)) => {
                st.insert(*id, (St::Rust, false, false));
            }
            Ev::Ledger(Led::Lower(id)) => match st.get_mut(id) {
                Some(s) if s.0 == St::Rust => s.0 = St::Abi,
                s => ledger_bad(&mut out, pr(*id), "lower-of-value-not-owned", *id, format!("lowered in state {s:?}")),
            },
            Ev::Ledger(Led::Lift(id)) => match st.get_mut(id) {
                Some(s) if s.0 == St::Abi && (!s.1 || s.2) => s.0 = St::Rust,
                Some(s) if s.0 == St::Abi && s.1 => {
                    let p = pr(*id);
                    ledger_bad(&mut out, p, "value-both-delivered-and-taken-back", *id, "lifted back after the host had received it".into());
                    s.0 = St::Rust;
                }
                s => ledger_bad(&mut out, pr(*id), "lift-of-buffer-not-holding-a-value", *id, format!("lifted in state {s:?} (double lift / use after release)")),
            },
            Ev::Ledger(Led::DeallocLists(id)) => match st.get_mut(id) {
                Some(s) if s.0 == St::Abi && s.1 && !s.2 => s.0 = St::Gone,
                Some(s) if s.0 == St::Abi && !s.1 => {
                    let p = pr(*id);
                    ledger_bad(&mut out, p, "lowered-value-released-but-never-delivered", *id, "dealloc_lists on a value the host never received (value lost)".into());
                    s.0 = St::Gone;
                }
                s => ledger_bad(&mut out, pr(*id), "dealloc-lists-of-buffer-not-holding-a-value", *id, format!("dealloc_lists in state {s:?} (double release)")),
            },
            Ev::Ledger(Led::ItemDrop(id)) => match st.get_mut(id) {
                Some(s) if s.0 == St::Rust => s.0 = St::Gone,
                s => ledger_bad(&mut out, pr(*id), "drop-of-value-not-owned", *id, format!("dropped in state {s:?} (double drop)")),
            },
            Ev::Copy { shared, to_host, ids, .. } if item_elem(*shared) => {
                for id in ids {
                    if *to_host {
                        match st.get_mut(id) {
                            Some(s) if s.0 == St::Abi => s.1 = true,
                            s => ledger_bad(&mut out, pr(*id), "host-read-a-buffer-not-holding-the-value", *id, format!("host read it in state {s:?}")),
                        }
                    } else {
                        st.insert(*id, (St::Abi, true, true));
                    }
                }
            }
            _ => {}
        }
    }
    // a deferred default write still pending when the host cancelled its task
    // legitimately leaves that one value (and its handles) behind
    let deferred_pending: Vec<u32> = host
        .shared
        .iter()
        .filter(|s| s.is_future && s.ends[1].state == CState::Copying)
        .filter_map(|s| s.ends[1].op.as_ref().map(|o| o.rec))
        .filter(|r| *r != usize::MAX)
        .filter(|r| !explicit_recs.contains(r))
        .map(|r| host.ops[r].handle)
        .collect();
    let exempt = any_cancel && !deferred_pending.is_empty();
    for (id, s) in &st {
        let ok = match s {
            (St::Gone, _, _) => true,
            (St::Abi, _, false) if exempt && is_default_id(*id) => true,
            _ => false,
        };
        if !ok {
            let sig = match s.0 {
                St::Abi if s.2 => "received-value-never-lifted",
                St::Abi if s.1 => "delivered-value-buffer-never-released",
                St::Abi => "lowered-value-never-released-nor-taken-back",
                _ => "value-never-dropped",
            };
            ledger_bad(&mut out, pr(*id), sig, *id, format!("final state {s:?}"));
        }
    }

    // ---- handles left behind
    for (h, d) in host.live_guest_handles() {
        let obj = host.table[h as usize].as_ref().unwrap();
        // the pending deferred write keeps its task's shared state (set,
        // wake-up stream) alive: all of it is classified by the host's state
        if exempt {
            continue;
        }
        let prop: &'static str = match obj {
            Obj::End { shared, .. } if host.shared[*shared].is_future => "C20",
            Obj::End { shared, .. } if host.shared[*shared].elem == Elem::Unit => "C23",
            Obj::End { .. } => "C19",
            Obj::Set { .. } => "C18",
            Obj::Subtask(_) => "C21",
            Obj::ErrCtx(_) => "any",
            Obj::Res { .. } => "C21",
        };
        out.push(f(prop, format!("handle-never-dropped:{d}"), format!("handle {h} ({d}) is still live after every task has exited")));
    }

    // ---- guest heap
    if let Some((blocks, bytes)) = cx.leak {
        if blocks != 0 && !exempt {
            let prop: &'static str = if cx.props.contains(&"C20") && !cx.props.contains(&"C19") { "C20" } else if cx.props.contains(&"C19") { "C19" } else { "C18" };
            let dir = if blocks > 0 { "leaked" } else { "freed-more-than-allocated" };
            out.push(f(prop, format!("guest-heap:{dir}:{}", cx.scenario), format!("{blocks} blocks / {bytes} bytes net after the scenario finished")));
        }
    }
    out
}
