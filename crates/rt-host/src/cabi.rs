//! Mirror of the `wasip3_task` C ABI structures (the runtime's `cabi` module is
//! private): layout per `crates/guest-rust/src/rt/async_support/cabi.rs`.
use core::ffi::c_void;

pub const WASIP3_TASK_V1: u32 = 1;
pub const WASIP3_TASK_V2: u32 = 2;

pub type WaitableCallback = unsafe extern "C" fn(callback_ptr: *mut c_void, code: u32);

#[repr(C)]
pub struct Wasip3Task {
    pub version: u32,
    pub ptr: *mut c_void,
    pub waitable_register: unsafe extern "C" fn(ptr: *mut c_void, waitable: u32, callback: WaitableCallback, callback_ptr: *mut c_void) -> *mut c_void,
    pub waitable_unregister: unsafe extern "C" fn(ptr: *mut c_void, waitable: u32) -> *mut c_void,
}

#[repr(C)]
pub struct Wasip3TaskVtable {
    pub waitable_register: unsafe extern "C" fn(ptr: *mut c_void, waitable: u32, callback: WaitableCallback, callback_ptr: *mut c_void) -> *mut c_void,
    pub waitable_unregister: unsafe extern "C" fn(ptr: *mut c_void, waitable: u32) -> *mut c_void,
    pub clone: unsafe extern "C" fn(ptr: *mut c_void) -> *mut c_void,
    pub drop: unsafe extern "C" fn(ptr: *mut c_void),
}

#[repr(C)]
pub struct Wasip3TaskV2 {
    pub v1: Wasip3Task,
    pub vtable: &'static Wasip3TaskVtable,
}
