fn main() {
    rt_host::runner::main_for(
        "C23",
        "one evaluation = one execution of a scenario (two export tasks, or one, sharing a Waker-based channel; wake-ups from the same task, the other task and a C-ABI waitable callback) under one choice vector; distinct = distinct event traces per scenario",
    );
}
