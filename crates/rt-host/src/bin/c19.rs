fn main() {
    rt_host::runner::main_for(
        "C19",
        "one evaluation = one execution of a scenario under one choice vector (host decisions + guest actions); distinct = distinct event traces (hash of calls, deliveries, copies, callback codes, guest-visible results) per scenario",
    );
}
