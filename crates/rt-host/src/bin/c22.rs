fn main() {
    rt_host::runner::main_for(
        "C22",
        "one evaluation = one execution of a scenario (export tasks driven through start_task/callback, or block_on, whose bodies yield, spawn, await imports, streams and futures) under one choice vector (host event order incl. EVENT_CANCEL + guest actions); distinct = distinct event traces per scenario; callback-code sequences are counted separately",
    );
}
