fn main() {
    rt_host::runner::main_for(
        "C21",
        "one evaluation = one execution of a scenario (a task body that starts, polls and drops async import calls through an instrumented Subtask implementation) under one choice vector (host status sequence + guest actions); distinct = distinct event traces (calls, deliveries, host status changes, Subtask callbacks, results) per scenario",
    );
}
