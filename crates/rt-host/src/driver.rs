//! Drives guest tasks the way a component-model host would.
//!
//! * async-lifted export with callback: call the entry (`start_task(fut)`),
//!   then per returned code — EXIT: task over; YIELD: later
//!   `callback(EVENT_NONE,0,0)`; WAIT(set): deliver one pending event of that
//!   set.  Tasks are only ever resumed at suspension points, one at a time
//!   (the runtime is cooperative).  The host may inject `EVENT_CANCEL` once per
//!   task at a suspension point.
//! * `block_on`: the body runs synchronously; `waitable-set.wait/poll` built-ins
//!   let the host script advance.
//!
//! Every scheduling decision is a choice point; alternative 0 always makes
//! progress (resume the first runnable task).
use crate::host::{self, Ev, HostAct, KeyState, TaskSt, TrapKind, CALLBACK_EXIT, CALLBACK_WAIT, CALLBACK_YIELD, EVENT_CANCEL, EVENT_NONE};
use crate::sched::choose;
use core::ffi::c_void;
use core::future::Future;
use core::mem::MaybeUninit;
use core::pin::Pin;
use std::cell::RefCell;
use std::panic::{catch_unwind, AssertUnwindSafe};
use wit_bindgen::rt::async_support as rt;

pub type BoxFut = Pin<Box<dyn Future<Output = ()> + 'static>>;
pub type Body = Box<dyn FnOnce() -> BoxFut>;

#[derive(Copy, Clone, PartialEq, Eq, Debug)]
pub enum TaskKind {
    Export,
    BlockOn,
    /// export run by the harness-written v1-ABI executor (`v1exec`)
    V1Export,
}

pub struct TaskDef {
    pub kind: TaskKind,
    pub body: Body,
}

#[derive(Clone, Debug)]
pub struct ExecCfg {
    /// the host may inject EVENT_CANCEL at suspension points
    pub cancel_inject: bool,
    /// a task left waiting with nothing that can ever wake it is expected
    pub may_stick: bool,
    pub step_limit: usize,
}
impl Default for ExecCfg {
    fn default() -> Self {
        ExecCfg { cancel_inject: false, may_stick: false, step_limit: 500 }
    }
}

#[derive(Clone, Debug, Default)]
pub struct PanicInfo {
    pub msg: String,
    pub file: String,
    pub line: u32,
    /// task that was running
    pub task: u32,
}

#[derive(Clone, Debug, Default)]
pub struct RunEnd {
    pub steps: usize,
    pub panic: Option<PanicInfo>,
    pub step_limit_hit: bool,
    /// tasks still suspended when nothing could happen any more
    pub stuck: Vec<u32>,
    /// tasks that received an injected EVENT_CANCEL
    pub cancelled: Vec<u32>,
    /// tasks cancelled by the end-of-run cleanup
    pub cleanup_cancelled: Vec<u32>,
}

thread_local! {
    static LAST_PANIC: RefCell<Option<PanicInfo>> = RefCell::new(None);
}

pub fn install_panic_hook() {
    std::panic::set_hook(Box::new(|info| {
        let _g = crate::alloc::host_mode();
        let msg = if let Some(s) = info.payload().downcast_ref::<&str>() {
            s.to_string()
        } else if let Some(s) = info.payload().downcast_ref::<String>() {
            s.clone()
        } else {
            "<non-string panic>".to_string()
        };
        let (file, line) = info.location().map(|l| (l.file().to_string(), l.line())).unwrap_or_default();
        LAST_PANIC.with(|p| {
            let mut p = p.borrow_mut();
            if p.is_none() {
                *p = Some(PanicInfo { msg, file, line, task: 0 });
            }
        });
    }));
}

/// Run guest code as task `t`: guest allocation mode, panics captured.
pub fn run_guest<R>(t: u32, f: impl FnOnce() -> R) -> Result<R, PanicInfo> {
    host::with(|h| h.cur_task = t);
    let r = {
        let _g = crate::alloc::guest_mode();
        catch_unwind(AssertUnwindSafe(f))
    };
    host::with(|h| h.cur_task = 0);
    match r {
        Ok(r) => Ok(r),
        Err(payload) => {
            let _g = crate::alloc::host_mode();
            // the payload is dropped here, in host mode (it was allocated in guest mode;
            // the ledger matches frees by address)
            drop(payload);
            let mut info = LAST_PANIC.with(|p| p.borrow_mut().take()).unwrap_or_default();
            info.task = t;
            Err(info)
        }
    }
}

fn probe_ptr(p: *mut c_void) -> bool {
    if p.is_null() {
        return false;
    }
    unsafe {
        let _ = core::ptr::read_volatile(p as *const MaybeUninit<u8>);
    }
    true
}

fn record_snapshot(task: u32, at: &'static str, set: Option<u32>, keys: Vec<(u32, *mut c_void)>) {
    // probe the callback_ptr of every registration that *looks* right to the
    // host (live handle, in this task's set, operation in progress): if the
    // operation state it points to has been freed, Miri / valgrind report it
    // here even if no event ever arrives.  (Registrations that are already
    // inconsistent are reported by M2 from the snapshot itself.)
    let states: Vec<KeyState> = host::with(|h| keys.iter().map(|(k, _)| h.key_state(*k)).collect());
    let probed: Vec<bool> = keys.iter().zip(states.iter()).map(|((_, p), ks)| ks.exists && ks.in_set == set && ks.in_progress && probe_ptr(*p)).collect();
    host::with(|h| {
        let members = set.map(|s| h.set_members(s)).unwrap_or_default();
        let internal: Vec<u32> = members.iter().copied().filter(|m| h.is_unit_reader(*m)).collect();
        let keys: Vec<KeyState> = states
            .into_iter()
            .zip(probed)
            .map(|(mut ks, pr)| {
                ks.probed = pr;
                ks
            })
            .collect();
        h.log.push(Ev::Snapshot { task, at, set, keys, members, internal });
    });
}

/// M2 snapshot of an export task between callbacks (state is in the context slot).
pub fn snapshot_task(t: u32, at: &'static str) {
    let _g = crate::alloc::host_mode();
    if let Some((set, keys)) = crate::v1exec::registrations(t) {
        record_snapshot(t, at, set, keys);
        return;
    }
    let ctx = host::with(|h| h.tasks[t as usize].ctx);
    if ctx == 0 {
        return;
    }
    let keys = unsafe { rt::verif::task_waitables(ctx as *mut u8) };
    let set = unsafe { rt::verif::task_waitable_set(ctx as *mut u8) };
    record_snapshot(t, at, set, keys);
}

/// M2 snapshot taken inside `waitable-set.wait/poll` for the task owning `s`.
pub fn snapshot_set(s: u32, at: &'static str) {
    let (shared, task, bad) = host::with(|h| (h.set_owner_shared(s), h.cur_task, h.violated()));
    if shared == 0 || bad {
        return;
    }
    let keys = unsafe { rt::verif::shared_waitables(shared as *mut c_void) };
    record_snapshot(task, at, Some(s), keys);
}

/// A synchronous `waitable-set.wait` that can never return (or a violated
/// execution inside one): the process cannot continue.  The crash line names
/// the scenario and the choice vector; the Python side replays it.
pub fn fatal_in_wait(kind: &str) -> ! {
    let what = host::with(|h| h.trap.clone());
    eprintln!("RT-HOST-FATAL kind={kind} trap={what:?}");
    if std::env::var("RT_HOST_DEBUG").is_ok() {
        host::with(|h| {
            let n = h.log.len();
            for ev in &h.log[..n.min(80)] {
                eprintln!("{}", crate::trace::fmt_ev(ev));
            }
        });
    }
    crate::runner::emergency_finish()
}

fn note_code(t: u32, code: u32) {
    host::with(|h| {
        let task = &mut h.tasks[t as usize];
        task.codes.push(code);
        task.callbacks += 1;
        h.log.push(Ev::TaskRet { task: t, code });
        let st = match code & 0xf {
            CALLBACK_EXIT if code == 0 => TaskSt::Exited,
            CALLBACK_YIELD if code == 1 => TaskSt::Yielded,
            CALLBACK_WAIT => {
                let s = code >> 4;
                if !matches!(h.table.get(s as usize), Some(Some(host::Obj::Set { .. }))) {
                    h.trap(TrapKind::UnknownHandle, format!("callback returned WAIT({s}) but {s} is not a waitable set"));
                }
                TaskSt::Waiting(s)
            }
            _ => {
                h.trap(TrapKind::Other, format!("callback returned unknown code {code:#x}"));
                TaskSt::Exited
            }
        };
        h.tasks[t as usize].st = st;
        if st == TaskSt::Exited {
            let task = &h.tasks[t as usize];
            if task.returned + task.task_cancel_calls != 1 && !h.violated() {
                h.trap(TrapKind::Other, "task exited without exactly one task.return / task.cancel".into());
            }
        }
    });
    observe_return(t, code);
    if code != 0 {
        snapshot_task(t, "return");
    }
    // registrations of the *other* suspended tasks must stay consistent too
    // (an operation may have moved away from them during this callback)
    let others: Vec<u32> = host::with(|h| h.tasks[1..].iter().filter(|o| o.id != t && matches!(o.st, TaskSt::Yielded | TaskSt::Waiting(_))).map(|o| o.id).collect());
    for o in others {
        snapshot_task(o, "other-task-returned");
    }
}

/// What the host and hook H3 see of task `t` right after a callback returned
/// `code` (C22 oracle): context slot, executor sleep state, remaining Rust
/// work, registrations, the waitable set named by WAIT.
fn observe_return(t: u32, code: u32) {
    let _g = crate::alloc::host_mode();
    let (ctx, skip) = host::with(|h| {
        let task = &h.tasks[t as usize];
        (task.ctx, task.is_v1 || task.is_block_on || h.violated())
    });
    if skip {
        return;
    }
    let mut evs: Vec<(&'static str, u64, u64)> = vec![("ret.ctx", (ctx != 0) as u64, code as u64)];
    if code == 0 {
        host::with(|h| {
            for (i, o) in h.table.iter().enumerate() {
                if let Some(host::Obj::Set { members, owner_task, .. }) = o {
                    if *owner_task == t {
                        evs.push(("exit.live-own-set", i as u64, members.len() as u64));
                    }
                }
            }
        });
    } else if ctx != 0 {
        let p = ctx as *mut u8;
        let (sleep, work, nkeys, set) = unsafe { (rt::verif::task_sleep_state(p), rt::verif::task_has_rust_work(p), rt::verif::task_waitables(p).len(), rt::verif::task_waitable_set(p)) };
        evs.push(("ret.sleep", sleep as u64, work as u64));
        evs.push(("ret.regs", nkeys as u64, set.unwrap_or(0) as u64));
        if code & 0xf == CALLBACK_WAIT {
            host::with(|h| {
                if let Some(Some(host::Obj::Set { members, owner_task, .. })) = h.table.get((code >> 4) as usize) {
                    evs.push(("ret.wait-set", members.len() as u64, *owner_task as u64));
                }
            });
        }
    }
    host::with(|h| {
        for (key, a, b) in evs {
            h.log.push(Ev::Mon { task: t, key, a, b });
        }
    });
}

#[derive(Copy, Clone, Debug)]
enum Act {
    Start(u32),
    Resume(u32),
    Deliver(u32, u32),
    Host(HostAct),
    Cancel(u32),
}

pub fn run(defs: Vec<TaskDef>, cfg: &ExecCfg) -> RunEnd {
    let _g = crate::alloc::host_mode();
    let mut end = RunEnd::default();
    let mut bodies: Vec<(u32, TaskKind, Option<Body>)> = vec![];
    for d in defs {
        let id = host::with(|h| h.new_task(d.kind == TaskKind::BlockOn));
        bodies.push((id, d.kind, Some(d.body)));
    }
    let mut cancels_left = if cfg.cancel_inject { 1 } else { 0 };

    loop {
        if host::with(|h| h.violated()) || end.panic.is_some() {
            break;
        }
        end.steps += 1;
        if end.steps > cfg.step_limit {
            end.step_limit_hit = true;
            break;
        }
        let mut acts: Vec<Act> = vec![];
        host::with(|h| {
            for t in &h.tasks[1..] {
                match t.st {
                    TaskSt::NotStarted => acts.push(Act::Start(t.id)),
                    TaskSt::Yielded => acts.push(Act::Resume(t.id)),
                    TaskSt::Waiting(s) => {
                        if !h.pending_in_set(s).is_empty() {
                            acts.push(Act::Deliver(t.id, s));
                        }
                    }
                    _ => {}
                }
            }
            for a in h.host_actions() {
                acts.push(Act::Host(a));
            }
            if cancels_left > 0 {
                for t in &h.tasks[1..] {
                    if matches!(t.st, TaskSt::Yielded | TaskSt::Waiting(_)) && !t.cancel_delivered {
                        acts.push(Act::Cancel(t.id));
                    }
                }
            }
        });
        if acts.is_empty() {
            break;
        }
        let act = acts[choose(acts.len(), "step")];
        match act {
            Act::Start(t) => {
                let (_, kind, body) = bodies.iter_mut().find(|b| b.0 == t).unwrap();
                let body = body.take().unwrap();
                let kind = *kind;
                host::with(|h| {
                    h.tasks[t as usize].st = TaskSt::Running;
                    h.log.push(Ev::TaskStart { task: t });
                });
                match kind {
                    TaskKind::Export => {
                        let r = run_guest(t, move || {
                            let fut = body();
                            rt::start_task(async move {
                                let guard = rt::TaskCancelOnDrop::new();
                                fut.await;
                                host::with(|h| h.task_return(0));
                                guard.forget();
                            }) as u32
                        });
                        match r {
                            Ok(code) => note_code(t, code),
                            Err(p) => end.panic = Some(p),
                        }
                    }
                    TaskKind::V1Export => {
                        host::with(|h| h.tasks[t as usize].is_v1 = true);
                        let r = run_guest(t, move || {
                            let fut = body();
                            crate::v1exec::start(
                                t,
                                Box::pin(async move {
                                    let guard = rt::TaskCancelOnDrop::new();
                                    fut.await;
                                    host::with(|h| h.task_return(0));
                                    guard.forget();
                                }),
                            )
                        });
                        match r {
                            Ok(code) => note_code(t, code),
                            Err(p) => end.panic = Some(p),
                        }
                    }
                    TaskKind::BlockOn => {
                        let r = run_guest(t, move || {
                            let fut = body();
                            rt::block_on(fut)
                        });
                        match r {
                            Ok(()) => host::with(|h| {
                                h.tasks[t as usize].st = TaskSt::Exited;
                                h.log.push(Ev::TaskRet { task: t, code: 0 });
                            }),
                            Err(p) => end.panic = Some(p),
                        }
                    }
                }
            }
            Act::Resume(t) => {
                host::with(|h| {
                    h.tasks[t as usize].st = TaskSt::Running;
                    h.log.push(Ev::Deliver { task: t, via: "callback", code: EVENT_NONE, handle: 0, payload: 0 });
                });
                match run_guest(t, || call_callback(t, EVENT_NONE, 0, 0)) {
                    Ok(code) => note_code(t, code),
                    Err(p) => end.panic = Some(p),
                }
            }
            Act::Deliver(t, s) => {
                let ev = host::with(|h| {
                    h.cur_task = t;
                    let ev = h.deliver_from_set(s, "callback");
                    h.cur_task = 0;
                    h.tasks[t as usize].st = TaskSt::Running;
                    ev
                });
                let Some((e0, e1, e2)) = ev else { continue };
                match run_guest(t, || call_callback(t, e0, e1, e2)) {
                    Ok(code) => note_code(t, code),
                    Err(p) => end.panic = Some(p),
                }
            }
            Act::Host(a) => host::with(|h| h.apply(a)),
            Act::Cancel(t) => {
                cancels_left -= 1;
                end.cancelled.push(t);
                deliver_cancel(t, &mut end);
            }
        }
    }

    // whatever is still suspended can never be resumed by an event; the host
    // cancels it so that its destructors run (after a trap the host answers
    // leniently, so this also tears down a violated execution)
    if end.panic.is_none() && !end.step_limit_hit {
        let violated = host::with(|h| h.violated());
        let left: Vec<u32> = host::with(|h| h.tasks[1..].iter().filter(|t| matches!(t.st, TaskSt::Yielded | TaskSt::Waiting(_))).map(|t| t.id).collect());
        if !violated {
            end.stuck = left.clone();
        }
        host::with(|h| h.log.push(Ev::Note("end-of-schedule", left.len() as u64)));
        for t in left {
            if end.panic.is_some() {
                break;
            }
            end.cleanup_cancelled.push(t);
            deliver_cancel(t, &mut end);
        }
    }
    end
}

fn call_callback(t: u32, e0: u32, e1: u32, e2: u32) -> u32 {
    if host::with(|h| h.tasks[t as usize].is_v1) {
        crate::v1exec::callback(t, e0, e1, e2)
    } else {
        unsafe { rt::callback(e0, e1, e2) }
    }
}

fn deliver_cancel(t: u32, end: &mut RunEnd) {
    host::with(|h| {
        h.tasks[t as usize].cancel_delivered = true;
        h.tasks[t as usize].st = TaskSt::Running;
        h.log.push(Ev::Deliver { task: t, via: "callback", code: EVENT_CANCEL, handle: 0, payload: 0 });
    });
    match run_guest(t, || call_callback(t, EVENT_CANCEL, 0, 0)) {
        Ok(code) => note_code(t, code),
        Err(p) => end.panic = Some(p),
    }
}
