//! rt-host: mock component-model host + schedule oracle + driver + monitors for
//! the Rust async guest runtime (`wit_bindgen::rt::async_support`).
//!
//! * [`host`]     — state machines of the canonical built-ins, event log
//! * [`builtins`] — the C symbols the runtime links against (hook H2)
//! * [`sched`]    — choice oracle, replay, bounded-exhaustive enumeration
//! * [`driver`]   — runs export tasks (`start_task`/`callback`) and `block_on`
//! * [`payload`]  — `u8` and `Item{id, tag}` payload vtables (instrumented)
//! * [`machine`]  — generic choice-driven guest program over the public API
//! * [`alloc`]    — counting global allocator (guest-mode ledger)
//! * [`subcall`]  — instrumented `Subtask` implementation + call program (C21)
//! * [`work`]     — tracked futures, waker spy, Waker-based channel, task programs (C22, C23)
//! * [`scen2`]    — scenarios of C21-C23; [`monitors2`] — their oracles
pub mod alloc;
pub mod builtins;
pub mod cabi;
pub mod cabi_client;
pub mod crash;
pub mod driver;
pub mod host;
pub mod machine;
pub mod monitors;
pub mod monitors2;
pub mod payload;
pub mod runner;
pub mod scen;
pub mod scen2;
pub mod sched;
pub mod subcall;
pub mod trace;
pub mod v1exec;
pub mod work;

#[cfg(not(feature = "no-global-alloc"))]
#[global_allocator]
static GLOBAL: alloc::Counting = alloc::Counting;
