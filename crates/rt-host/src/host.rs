//! The mock component-model host: state machines of the canonical built-ins the
//! Rust guest runtime imports (DESIGN.md section 2.4).
//!
//! Streams and futures follow the rendezvous of the Component Model
//! specification (`SharedStreamImpl` / `SharedFutureImpl`): at most one side
//! holds the *pending buffer*; the other side's `read`/`write` copies
//! `min(remain)` items, completes immediately and leaves a `COMPLETED` event
//! pending on the first side, whose buffer stays available for further copies
//! until the event is delivered; `drop` of one side turns the other side's
//! pending operation into `DROPPED|progress`; `cancel-*` returns the pending
//! event if there is one, else `CANCELLED|progress`.  A *host peer* is an agent
//! that owns one end and uses exactly the same rendezvous with host-side
//! buffers, so every outcome the guest sees is one the specification allows.
//! The only extension (DESIGN: "CANCELLED|k") is that a host peer may consume
//! `k < n` items at the very moment the guest cancels.
//!
//! All state lives in one thread-local [`Host`]; every built-in call, every
//! delivered event, every copy and every guest-visible completion is appended
//! to `Host::log`.  A trap is recorded (never a process abort): afterwards the
//! host answers leniently and the execution is marked violated.
use crate::payload::{self, ItemAbi};
#[allow(unused_imports)]
use core::ptr;
use crate::sched::choose;
use std::cell::RefCell;
use std::collections::BTreeMap;

pub const EVENT_NONE: u32 = 0;
pub const EVENT_SUBTASK: u32 = 1;
pub const EVENT_STREAM_READ: u32 = 2;
pub const EVENT_STREAM_WRITE: u32 = 3;
pub const EVENT_FUTURE_READ: u32 = 4;
pub const EVENT_FUTURE_WRITE: u32 = 5;
pub const EVENT_CANCEL: u32 = 6;

pub const BLOCKED: u32 = 0xffff_ffff;
pub const COMPLETED: u32 = 0;
pub const DROPPED: u32 = 1;
pub const CANCELLED: u32 = 2;

pub const STATUS_STARTING: u32 = 0;
pub const STATUS_STARTED: u32 = 1;
pub const STATUS_RETURNED: u32 = 2;
pub const STATUS_STARTED_CANCELLED: u32 = 3;
pub const STATUS_RETURNED_CANCELLED: u32 = 4;

pub const CALLBACK_EXIT: u32 = 0;
pub const CALLBACK_YIELD: u32 = 1;
pub const CALLBACK_WAIT: u32 = 2;

pub const MAX_LENGTH: u32 = (1 << 28) - 1;

#[derive(Copy, Clone, PartialEq, Eq, Debug)]
pub enum Elem {
    Unit,
    U8,
    Item,
}
impl Elem {
    pub fn size(self) -> usize {
        match self {
            Elem::Unit => 0,
            Elem::U8 => 1,
            Elem::Item => std::mem::size_of::<ItemAbi>(),
        }
    }
    pub fn name(self) -> &'static str {
        match self {
            Elem::Unit => "unit",
            Elem::U8 => "u8",
            Elem::Item => "item",
        }
    }
}

#[derive(Copy, Clone, PartialEq, Eq, Debug)]
pub enum Side {
    Reader = 0,
    Writer = 1,
}
impl Side {
    pub fn other(self) -> Side {
        match self {
            Side::Reader => Side::Writer,
            Side::Writer => Side::Reader,
        }
    }
}

#[derive(Copy, Clone, PartialEq, Eq, Debug)]
pub enum Owner {
    Guest(u32),
    Host,
    Gone,
}

#[derive(Copy, Clone, PartialEq, Eq, Debug)]
pub enum CState {
    Idle,
    Copying,
    Done,
}

#[derive(Copy, Clone, PartialEq, Eq, Debug)]
pub enum CopyResult {
    Completed = 0,
    Dropped = 1,
    Cancelled = 2,
}

#[derive(Clone, Debug)]
pub struct Op {
    pub ptr: usize,
    pub n: u32,
    pub progress: u32,
    pub result: Option<CopyResult>,
    /// index into `Host::ops` (guest operations only)
    pub rec: usize,
}
impl Op {
    fn remain(&self) -> u32 {
        self.n - self.progress
    }
}

#[derive(Clone, Debug)]
pub struct EndState {
    pub owner: Owner,
    pub dropped: bool,
    pub state: CState,
    pub op: Option<Op>,
    pub in_set: Option<u32>,
    pub ops_started: u32,
}

/// Behaviour envelope of a host-owned end.
#[derive(Clone, Debug)]
pub struct Peer {
    pub side: Side,
    /// how many further actions (post / drop) the peer may take spontaneously
    pub acts_left: u32,
    /// total number of items the peer is still willing to read / write
    pub items_left: u32,
    pub may_drop: bool,
}

#[derive(Clone, Debug)]
pub struct Shared {
    pub id: usize,
    pub elem: Elem,
    pub is_future: bool,
    pub ends: [EndState; 2],
    /// which side holds the pending buffer (spec: `pending_buffer`)
    pub pending: Option<Side>,
    pub peer: Option<Peer>,
    /// ids received by a host reader, in order
    pub host_recv: Vec<u32>,
    /// ids sent by a host writer, in order (as copied into guest memory)
    pub host_sent: Vec<u32>,
    next_out: u32,
    /// ids a host writer has in its current buffer
    out_buf: Vec<u32>,
}

#[derive(Copy, Clone, PartialEq, Eq, Debug)]
pub enum Via {
    Immediate,
    Event,
    Cancel,
}

/// One guest `read`/`write` as the host saw it.
#[derive(Clone, Debug)]
pub struct OpRec {
    pub handle: u32,
    pub shared: usize,
    pub side: Side,
    pub is_future: bool,
    pub elem: Elem,
    pub n: u32,
    /// ids of the items moved by this operation, in order
    pub ids: Vec<u32>,
    /// the packed code the guest was given (return value / event payload)
    pub code: Option<u32>,
    pub via: Option<Via>,
    pub task: u32,
}

#[derive(Clone, Debug)]
pub struct Subtask {
    pub state: u32,
    /// status not yet delivered to the guest
    pub pending: Option<u32>,
    pub resolve_delivered: bool,
    pub cancel_requested: bool,
    pub in_set: Option<u32>,
    pub dropped: bool,
    /// harness token identifying the call (C21 scenarios); `Host::subcalls[token - 1]`
    pub token: u32,
}

/// One field of the lowered parameters of an async import call, as the host
/// received it (flat values) or where it will find it (indirect parameters).
#[derive(Clone, Debug, PartialEq, Eq)]
pub enum PField {
    /// scalar passed flat (value received with the call)
    FlatU32 { got: u32, expect: u32 },
    /// `Item`-like record passed flat as (id, ptr, len): the bytes are read when the callee starts
    FlatItem { id: u32, ptr: usize, len: usize },
    /// `own<resource>` handle passed flat: taken by the host when the callee starts
    FlatOwn { handle: u32 },
    MemU32 { addr: usize, expect: u32 },
    /// canonical `ItemAbi` record in the parameter block
    MemItem { addr: usize },
    MemOwn { addr: usize },
}

#[derive(Copy, Clone, Debug, PartialEq, Eq, Default)]
pub enum RKind {
    #[default]
    None,
    U32,
    /// `Item{id, tag}`: the host writes an `ItemAbi` whose list data comes from the guest allocator
    Item,
}

/// Guest memory of one async import call as a host sees it.
#[derive(Clone, Debug, Default)]
pub struct SubMem {
    /// harness-side id of the call (facts `sub.*` carry it)
    pub cid: u32,
    pub params: Vec<PField>,
    pub results: usize,
    pub rkind: RKind,
    /// (address, size) of the parameter/result block (`(0, 0)`: none)
    pub block: (usize, usize),
}

/// One async import call as the host saw it.
#[derive(Clone, Debug, Default)]
pub struct SubRec {
    pub token: u32,
    pub cid: u32,
    pub task: u32,
    /// 0: returned at once (no subtask handle)
    pub handle: u32,
    pub mem: SubMem,
    /// statuses in the order the *guest* learnt them, with the channel
    /// (`call` return value, `event`, `cancel` return value)
    pub seen: Vec<(u32, &'static str)>,
    /// host-side state changes in order
    pub host: Vec<u32>,
    /// ids (and resource handles, as `0x8000_0000 | h`) the host lifted from the parameters
    pub params_read: Option<Vec<u32>>,
    pub result_written: Option<u32>,
    /// host accesses that found the guest memory invalid (freed block, corrupt element)
    pub problems: Vec<String>,
    pub cancels: u32,
    pub drops: u32,
}

#[derive(Clone, Debug)]
pub enum Obj {
    Set { members: Vec<u32>, owner_shared: usize, owner_task: u32 },
    End { shared: usize, side: Side },
    Subtask(Subtask),
    ErrCtx(String),
    /// an `own<resource>` handle of a harness resource type (C21 parameters)
    Res { id: u32 },
}

#[derive(Copy, Clone, PartialEq, Eq, Debug)]
pub enum TaskSt {
    NotStarted,
    Running,
    Yielded,
    Waiting(u32),
    Exited,
}

#[derive(Clone, Debug)]
pub struct Task {
    pub id: u32,
    pub ctx: usize,
    pub st: TaskSt,
    pub returned: u32,
    pub task_cancel_calls: u32,
    pub cancel_delivered: bool,
    pub callbacks: u32,
    pub codes: Vec<u32>,
    pub is_block_on: bool,
    pub is_v1: bool,
    /// `wasip3_task::ptr` (the runtime's `SharedTaskState`) most recently installed while this task ran
    pub shared_ptr: usize,
}

#[derive(Copy, Clone, PartialEq, Eq, Debug)]
pub enum TrapKind {
    UnknownHandle,
    WrongKind,
    SetNotEmpty,
    CopyInProgress,
    CopyOnDoneEnd,
    LengthTooLarge,
    CancelNothingInProgress,
    DropWhileCopying,
    FutureDropWritableUnwritten,
    FutureSecondWrite,
    SubtaskCancelResolved,
    SubtaskDropUnresolved,
    WaitOnEmptyForever,
    IntraInstanceNonNumeric,
    TaskReturnTwice,
    ContextMisuse,
    /// the execution produced an absurd number of events (harness bound)
    Runaway,
    Other,
}
impl TrapKind {
    pub fn name(self) -> &'static str {
        match self {
            TrapKind::UnknownHandle => "unknown-handle",
            TrapKind::WrongKind => "wrong-kind-of-handle",
            TrapKind::SetNotEmpty => "waitable-set-drop-nonempty",
            TrapKind::CopyInProgress => "copy-already-in-progress",
            TrapKind::CopyOnDoneEnd => "copy-on-done-end",
            TrapKind::LengthTooLarge => "length-too-large",
            TrapKind::CancelNothingInProgress => "cancel-nothing-in-progress",
            TrapKind::DropWhileCopying => "drop-while-copying",
            TrapKind::FutureDropWritableUnwritten => "future-drop-writable-unwritten",
            TrapKind::FutureSecondWrite => "future-second-write",
            TrapKind::SubtaskCancelResolved => "subtask-cancel-resolved",
            TrapKind::SubtaskDropUnresolved => "subtask-drop-unresolved",
            TrapKind::WaitOnEmptyForever => "wait-can-never-return",
            TrapKind::IntraInstanceNonNumeric => "intra-instance-copy-of-non-numeric",
            TrapKind::TaskReturnTwice => "task-resolved-twice",
            TrapKind::ContextMisuse => "context-slot-misuse",
            TrapKind::Runaway => "runaway-execution",
            TrapKind::Other => "other",
        }
    }
}

#[derive(Clone, Debug)]
pub struct KeyState {
    pub handle: u32,
    pub exists: bool,
    pub in_set: Option<u32>,
    pub in_progress: bool,
    pub probed: bool,
}

/// Ledger events of the instrumented payload vtables and of `Item`.
#[derive(Clone, Debug, PartialEq, Eq)]
pub enum Led {
    Create(u32),
    Lower(u32),
    Lift(u32),
    DeallocLists(u32),
    ItemDrop(u32),
}

/// Guest-visible facts reported by scenario bodies.
#[derive(Clone, Debug, PartialEq, Eq)]
pub enum Gv {
    /// an operation object was created: slot id, handle, kind, ids handed over
    OpNew { slot: u32, handle: u32, kind: &'static str, ids: Vec<u32> },
    /// first poll of the operation started host operation `rec` (or none)
    OpStarted { slot: u32, rec: Option<usize> },
    /// result as the runtime reported it: `what` is a canonical text such as
    /// `complete:2`, `dropped`, `cancelled`, `written`, `value:17`
    OpResult { slot: u32, how: &'static str, what: String, back: Vec<u32> },
    OpDropped { slot: u32 },
    /// free-form fact (`key`, numbers)
    Fact { key: &'static str, a: u64, b: u64, ids: Vec<u32> },
}

#[derive(Clone, Debug)]
pub enum Ev {
    Call { task: u32, name: &'static str, a: u64, b: u64, ret: u64 },
    Deliver { task: u32, via: &'static str, code: u32, handle: u32, payload: u32 },
    Copy { shared: usize, to_host: bool, k: u32, ids: Vec<u32> },
    Peer { shared: usize, what: &'static str, arg: u32 },
    TaskStart { task: u32 },
    TaskRet { task: u32, code: u32 },
    Snapshot { task: u32, at: &'static str, set: Option<u32>, keys: Vec<KeyState>, members: Vec<u32>, internal: Vec<u32> },
    Ledger(Led),
    Guest { task: u32, gv: Gv },
    Trap { kind: TrapKind, what: String },
    /// set membership of a waitable at the moment it is cancelled / dropped (M1)
    InSet { name: &'static str, handle: u32, set: Option<u32> },
    Note(&'static str, u64),
    /// monitor observation (executor state at a callback return, work tracking,
    /// wake-ups); not part of the behavioural trace hash
    Mon { task: u32, key: &'static str, a: u64, b: u64 },
}

#[derive(Copy, Clone, Debug, PartialEq, Eq)]
pub enum HostAct {
    /// (shared, 0 = post / 1 = drop, argument)
    Peer(usize, u8, u32),
    /// (subtask handle, new status)
    Subtask(u32, u32),
}

pub struct Host {
    pub reuse: bool,
    pub table: Vec<Option<Obj>>,
    free: Vec<u32>,
    pub shared: Vec<Shared>,
    pub ops: Vec<OpRec>,
    pub tasks: Vec<Task>,
    pub cur_task: u32,
    pub wasip3: usize,
    /// `wasip3_task::ptr` of the task structure most recently installed
    pub cur_shared_ptr: usize,
    pub log: Vec<Ev>,
    pub trap: Option<(TrapKind, String)>,
    pub backpressure: i64,
    pub calls: BTreeMap<&'static str, u64>,
    pub yields: u32,
    pub lenient_waits: u32,
    next_token: u32,
    /// hook used by `[waitable-set-wait]` when nothing is pending: lets the
    /// host script advance.  Returns false if nothing can ever advance.
    pub advance_in_wait: bool,
    /// async import calls (C21)
    pub subcalls: Vec<SubRec>,
    next_res: u32,
    /// how often each monitor-side check was evaluated (evidence)
    pub checks: BTreeMap<&'static str, u64>,
    /// C08: an external reference host lifts the lowered parameters / lowers the
    /// result of the async import call `token` itself: called (token, false)
    /// when the callee starts and (token, true) when it returns.  Runs while the
    /// host is borrowed: it must not call back into [`with`].
    pub sub_hook: Option<fn(u32, bool)>,
}

thread_local! {
    pub static HOST: RefCell<Host> = RefCell::new(Host::new(false));
}

/// Borrow the host in host mode (allocations not counted).
pub fn with<R>(f: impl FnOnce(&mut Host) -> R) -> R {
    let _g = crate::alloc::host_mode();
    HOST.with(|h| f(&mut h.borrow_mut()))
}

pub fn reset(reuse: bool) {
    let _g = crate::alloc::host_mode();
    HOST.with(|h| *h.borrow_mut() = Host::new(reuse));
}

pub fn take() -> Host {
    let _g = crate::alloc::host_mode();
    HOST.with(|h| std::mem::replace(&mut *h.borrow_mut(), Host::new(false)))
}

fn fresh_end(owner: Owner) -> EndState {
    EndState { owner, dropped: false, state: CState::Idle, op: None, in_set: None, ops_started: 0 }
}

impl Host {
    pub fn new(reuse: bool) -> Host {
        Host {
            reuse,
            table: vec![None],
            free: Vec::new(),
            shared: Vec::new(),
            ops: Vec::new(),
            tasks: vec![Task { id: 0, ctx: 0, st: TaskSt::Running, returned: 0, task_cancel_calls: 0, cancel_delivered: false, callbacks: 0, codes: vec![], is_block_on: false, is_v1: false, shared_ptr: 0 }],
            cur_task: 0,
            wasip3: 0,
            cur_shared_ptr: 0,
            log: Vec::new(),
            trap: None,
            backpressure: 0,
            calls: BTreeMap::new(),
            yields: 0,
            lenient_waits: 0,
            next_token: 1,
            advance_in_wait: true,
            subcalls: Vec::new(),
            next_res: 1,
            checks: BTreeMap::new(),
            sub_hook: None,
        }
    }

    // ------------------------------------------------------------------ basics

    pub fn violated(&self) -> bool {
        self.trap.is_some()
    }

    pub fn trap(&mut self, kind: TrapKind, what: String) {
        self.log.push(Ev::Trap { kind, what: what.clone() });
        if self.trap.is_none() {
            self.trap = Some((kind, what));
        }
    }

    pub fn note_call(&mut self, name: &'static str, a: u64, b: u64, ret: u64) {
        self.call(name, a, b, ret)
    }

    /// Everything the host script could do right now (peers and subtasks).
    pub fn host_actions(&self) -> Vec<HostAct> {
        let mut v: Vec<HostAct> = self.peer_actions().into_iter().map(|(s, k, a)| HostAct::Peer(s, k, a)).collect();
        v.extend(self.subtask_actions().into_iter().map(|(h, st)| HostAct::Subtask(h, st)));
        v
    }

    pub fn apply(&mut self, a: HostAct) {
        match a {
            HostAct::Peer(s, k, x) => self.peer_apply((s, k, x)),
            HostAct::Subtask(h, st) => self.subtask_advance(h, st),
        }
    }

    fn call(&mut self, name: &'static str, a: u64, b: u64, ret: u64) {
        if self.log.len() > 60_000 && self.trap.is_none() {
            self.trap(TrapKind::Runaway, "more than 60000 events in one execution".into());
        }
        *self.calls.entry(name).or_insert(0) += 1;
        self.log.push(Ev::Call { task: self.cur_task, name, a, b, ret });
    }

    fn alloc_handle(&mut self, obj: Obj) -> u32 {
        if self.reuse {
            if let Some(h) = self.free.pop() {
                self.table[h as usize] = Some(obj);
                return h;
            }
        }
        self.table.push(Some(obj));
        (self.table.len() - 1) as u32
    }

    fn free_handle(&mut self, h: u32) {
        self.table[h as usize] = None;
        if self.reuse {
            self.free.push(h);
        }
    }

    fn obj(&self, h: u32) -> Option<&Obj> {
        self.table.get(h as usize).and_then(|o| o.as_ref())
    }

    /// (shared index, side) of a guest-owned stream/future end
    fn end_of(&mut self, h: u32, name: &'static str, want: Option<Side>, want_future: Option<bool>) -> Option<(usize, Side)> {
        match self.obj(h) {
            Some(Obj::End { shared, side }) => {
                let (shared, side) = (*shared, *side);
                if want.map_or(false, |w| w != side) || want_future.map_or(false, |f| f != self.shared[shared].is_future) {
                    self.trap(TrapKind::WrongKind, format!("{name}: handle {h} is not the required kind of end"));
                    return None;
                }
                Some((shared, side))
            }
            Some(_) => {
                self.trap(TrapKind::WrongKind, format!("{name}: handle {h} is not a stream/future end"));
                None
            }
            None => {
                self.trap(TrapKind::UnknownHandle, format!("{name}: unknown handle {h}"));
                None
            }
        }
    }

    pub fn live_guest_handles(&self) -> Vec<(u32, String)> {
        let mut v = vec![];
        for (i, o) in self.table.iter().enumerate() {
            if let Some(o) = o {
                let d = match o {
                    Obj::Set { members, .. } => format!("waitable-set({} members)", members.len()),
                    Obj::End { shared, side } => {
                        let s = &self.shared[*shared];
                        format!("{}-{}-{}", if s.is_future { "future" } else { "stream" }, if *side == Side::Reader { "readable" } else { "writable" }, s.elem.name())
                    }
                    Obj::Subtask(_) => "subtask".to_string(),
                    Obj::ErrCtx(_) => "error-context".to_string(),
                    Obj::Res { .. } => "own-resource".to_string(),
                };
                v.push((i as u32, d));
            }
        }
        v
    }

    // ------------------------------------------------------------------ waitable sets

    pub fn waitable_set_new(&mut self) -> u32 {
        let owner_shared = self.cur_shared_ptr;
        let owner_task = self.cur_task;
        let h = self.alloc_handle(Obj::Set { members: vec![], owner_shared, owner_task });
        self.call("waitable-set.new", 0, 0, h as u64);
        h
    }

    pub fn waitable_set_drop(&mut self, s: u32) {
        self.call("waitable-set.drop", s as u64, 0, 0);
        match self.obj(s) {
            Some(Obj::Set { members, .. }) => {
                if !members.is_empty() {
                    let m = members.clone();
                    self.trap(TrapKind::SetNotEmpty, format!("waitable-set.drop({s}): set still has members {m:?}"));
                    return;
                }
                self.free_handle(s);
            }
            Some(_) => self.trap(TrapKind::WrongKind, format!("waitable-set.drop({s}): not a waitable set")),
            None => self.trap(TrapKind::UnknownHandle, format!("waitable-set.drop({s}): unknown handle")),
        }
    }

    fn in_set_slot(&mut self, w: u32) -> Option<&mut Option<u32>> {
        match self.table.get(w as usize).and_then(|o| o.clone()) {
            Some(Obj::End { shared, side }) => Some(&mut self.shared[shared].ends[side as usize].in_set),
            Some(Obj::Subtask(_)) => match self.table[w as usize].as_mut() {
                Some(Obj::Subtask(s)) => Some(&mut s.in_set),
                _ => None,
            },
            _ => None,
        }
    }

    pub fn in_set_of(&self, w: u32) -> Option<u32> {
        match self.obj(w) {
            Some(Obj::End { shared, side }) => self.shared[*shared].ends[*side as usize].in_set,
            Some(Obj::Subtask(s)) => s.in_set,
            _ => None,
        }
    }

    pub fn waitable_join(&mut self, w: u32, s: u32) {
        self.call("waitable.join", w as u64, s as u64, 0);
        if self.violated() {
            return;
        }
        if s != 0 {
            match self.obj(s) {
                Some(Obj::Set { .. }) => {}
                Some(_) => return self.trap(TrapKind::WrongKind, format!("waitable.join({w},{s}): {s} is not a waitable set")),
                None => return self.trap(TrapKind::UnknownHandle, format!("waitable.join({w},{s}): unknown set")),
            }
        }
        let cur = match self.obj(w) {
            Some(Obj::End { .. }) | Some(Obj::Subtask(_)) => self.in_set_of(w),
            Some(_) => return self.trap(TrapKind::WrongKind, format!("waitable.join({w},{s}): {w} is not a waitable")),
            None => return self.trap(TrapKind::UnknownHandle, format!("waitable.join({w},{s}): unknown waitable")),
        };
        if let Some(old) = cur {
            if let Some(Obj::Set { members, .. }) = self.table[old as usize].as_mut() {
                members.retain(|m| *m != w);
            }
        }
        let new = if s == 0 { None } else { Some(s) };
        if let Some(slot) = self.in_set_slot(w) {
            *slot = new;
        }
        if let Some(s) = new {
            if let Some(Obj::Set { members, .. }) = self.table[s as usize].as_mut() {
                members.push(w);
            }
        }
    }

    fn has_pending_event(&self, w: u32) -> bool {
        match self.obj(w) {
            Some(Obj::End { shared, side }) => self.shared[*shared].ends[*side as usize].op.as_ref().map_or(false, |o| o.result.is_some()),
            Some(Obj::Subtask(s)) => s.pending.is_some(),
            _ => false,
        }
    }

    pub fn set_members(&self, s: u32) -> Vec<u32> {
        match self.obj(s) {
            Some(Obj::Set { members, .. }) => members.clone(),
            _ => vec![],
        }
    }

    pub fn pending_in_set(&self, s: u32) -> Vec<u32> {
        let mut v: Vec<u32> = self.set_members(s).into_iter().filter(|w| self.has_pending_event(*w)).collect();
        v.sort();
        v
    }

    /// Take the pending event of waitable `w` (spec: `get_pending_event`):
    /// this is the moment the guest learns the outcome.
    fn take_event(&mut self, w: u32, via: Via) -> (u32, u32, u32) {
        match self.obj(w).cloned() {
            Some(Obj::End { shared, side }) => {
                let sh = &mut self.shared[shared];
                let is_future = sh.is_future;
                let op = sh.ends[side as usize].op.take().expect("pending event without op");
                let res = op.result.expect("take_event without result");
                if sh.pending == Some(side) {
                    sh.pending = None;
                }
                let e = &mut sh.ends[side as usize];
                e.state = if res == CopyResult::Dropped || (is_future && res == CopyResult::Completed) { CState::Done } else { CState::Idle };
                let payload = if is_future { res as u32 } else { (res as u32) | (op.progress << 4) };
                let code = match (is_future, side) {
                    (false, Side::Reader) => EVENT_STREAM_READ,
                    (false, Side::Writer) => EVENT_STREAM_WRITE,
                    (true, Side::Reader) => EVENT_FUTURE_READ,
                    (true, Side::Writer) => EVENT_FUTURE_WRITE,
                };
                // the guest buffer must still be valid now: touch it
                payload::probe(op.ptr, op.n as usize * sh.elem.size());
                let rec = &mut self.ops[op.rec];
                rec.code = Some(payload);
                rec.via = Some(via);
                (code, w, payload)
            }
            Some(Obj::Subtask(mut s)) => {
                let st = s.pending.take().expect("subtask event without status");
                if st >= STATUS_RETURNED {
                    s.resolve_delivered = true;
                }
                if let Some(rec) = self.subcalls.get_mut(s.token as usize - 1) {
                    rec.seen.push((st, "event"));
                }
                self.table[w as usize] = Some(Obj::Subtask(s));
                (EVENT_SUBTASK, w, st)
            }
            _ => (EVENT_NONE, 0, 0),
        }
    }

    /// Deliver one pending event of set `s` (choice point: which one).
    pub fn deliver_from_set(&mut self, s: u32, via: &'static str) -> Option<(u32, u32, u32)> {
        let pend = self.pending_in_set(s);
        if pend.is_empty() {
            return None;
        }
        let w = pend[choose(pend.len(), "which-event")];
        let ev = self.take_event(w, Via::Event);
        self.log.push(Ev::Deliver { task: self.cur_task, via, code: ev.0, handle: ev.1, payload: ev.2 });
        Some(ev)
    }

    pub fn waitable_set_poll(&mut self, s: u32) -> (u32, u32, u32) {
        if !matches!(self.obj(s), Some(Obj::Set { .. })) {
            self.call("waitable-set.poll", s as u64, 0, 0);
            if !self.violated() {
                self.trap(TrapKind::UnknownHandle, format!("waitable-set.poll({s}): not a waitable set"));
            }
            return (0, 0, 0);
        }
        // the host is free to report "nothing yet" only if nothing is pending
        let r = self.deliver_from_set(s, "poll").unwrap_or((0, 0, 0));
        self.call("waitable-set.poll", s as u64, 0, r.0 as u64);
        r
    }

    // ------------------------------------------------------------------ streams / futures

    pub fn new_shared(&mut self, elem: Elem, is_future: bool, reader: Owner, writer: Owner) -> usize {
        let id = self.shared.len();
        self.shared.push(Shared {
            id,
            elem,
            is_future,
            ends: [fresh_end(reader), fresh_end(writer)],
            pending: None,
            peer: None,
            host_recv: vec![],
            host_sent: vec![],
            next_out: 0,
            out_buf: vec![],
        });
        id
    }

    /// `stream.new` / `future.new`: both ends belong to the guest.
    pub fn pair_new(&mut self, elem: Elem, is_future: bool) -> u64 {
        let sh = self.new_shared(elem, is_future, Owner::Gone, Owner::Gone);
        let r = self.alloc_handle(Obj::End { shared: sh, side: Side::Reader });
        let w = self.alloc_handle(Obj::End { shared: sh, side: Side::Writer });
        self.shared[sh].ends[0].owner = Owner::Guest(r);
        self.shared[sh].ends[1].owner = Owner::Guest(w);
        let ret = (r as u64) | ((w as u64) << 32);
        self.call(if is_future { "future.new" } else { "stream.new" }, sh as u64, 0, ret);
        ret
    }

    /// The guest passes a readable end to the host (lifting an owned
    /// `stream<T>` / `future<T>` parameter or result): the handle leaves the
    /// guest's table and a host peer with the given envelope takes over.
    pub fn give_reader_to_host(&mut self, h: u32, peer: Peer) -> Option<usize> {
        self.call("lift-readable-end", h as u64, 0, 0);
        let (sh, _) = self.end_of(h, "lift-readable-end", Some(Side::Reader), None)?;
        let e = &mut self.shared[sh].ends[0];
        if e.state == CState::Copying {
            self.trap(TrapKind::CopyInProgress, format!("lift-readable-end({h}): end has an operation in progress"));
            return None;
        }
        if let Some(s) = e.in_set.take() {
            if let Some(Obj::Set { members, .. }) = self.table[s as usize].as_mut() {
                members.retain(|m| *m != h);
            }
        }
        let e = &mut self.shared[sh].ends[0];
        e.owner = Owner::Host;
        self.shared[sh].peer = Some(Peer { side: Side::Reader, ..peer });
        self.free_handle(h);
        Some(sh)
    }

    /// The host creates a stream/future, keeps the writable end and gives the
    /// readable end to the guest (lowering an owned `stream<T>`/`future<T>`).
    pub fn host_writer_new(&mut self, elem: Elem, is_future: bool, peer: Peer, id_base: u32) -> u32 {
        let sh = self.new_shared(elem, is_future, Owner::Gone, Owner::Host);
        let r = self.alloc_handle(Obj::End { shared: sh, side: Side::Reader });
        self.shared[sh].ends[0].owner = Owner::Guest(r);
        self.shared[sh].peer = Some(Peer { side: Side::Writer, ..peer });
        self.shared[sh].next_out = id_base;
        self.call("lower-readable-end", sh as u64, 0, r as u64);
        r
    }

    fn move_items(&mut self, sh: usize, k: u32) {
        if k == 0 {
            return;
        }
        let s = &self.shared[sh];
        let elem = s.elem;
        let sz = elem.size();
        let (rd, wr) = (&s.ends[0], &s.ends[1]);
        let rop = rd.op.as_ref().unwrap();
        let wop = wr.op.as_ref().unwrap();
        let src = wop.ptr + wop.progress as usize * sz;
        let dst = rop.ptr + rop.progress as usize * sz;
        let mut ids = Vec::with_capacity(k as usize);
        let to_host;
        match (wr.owner, rd.owner) {
            (Owner::Guest(_), Owner::Host) => {
                to_host = true;
                for i in 0..k as usize {
                    match payload::host_read_elem(elem, src + i * sz) {
                        Ok(id) => ids.push(id),
                        Err(e) => {
                            ids.push(u32::MAX);
                            self.log.push(Ev::Note("corrupt-element", 0));
                            let _ = e;
                        }
                    }
                }
            }
            (Owner::Host, Owner::Guest(_)) => {
                to_host = false;
                let start = s.out_buf.len() - (wop.n - wop.progress) as usize;
                for i in 0..k as usize {
                    let id = s.out_buf[start + i];
                    payload::host_write_elem(elem, dst + i * sz, id);
                    ids.push(id);
                }
            }
            (Owner::Guest(_), Owner::Guest(_)) => {
                to_host = false;
                match elem {
                    Elem::Unit => {}
                    Elem::U8 => {
                        for i in 0..k as usize {
                            let b = payload::host_read_elem(elem, src + i).unwrap_or(0);
                            payload::host_write_elem(elem, dst + i, b);
                            ids.push(b);
                        }
                    }
                    Elem::Item => {
                        self.trap(TrapKind::IntraInstanceNonNumeric, "copy between two ends held by the same instance for a non-numeric payload".into());
                        return;
                    }
                }
            }
            _ => return,
        }
        let s = &mut self.shared[sh];
        if to_host {
            s.host_recv.extend_from_slice(&ids);
        } else if s.ends[1].owner == Owner::Host {
            s.host_sent.extend_from_slice(&ids);
        }
        for side in 0..2 {
            let e = &mut s.ends[side];
            let op = e.op.as_mut().unwrap();
            op.progress += k;
            if let Owner::Guest(_) = e.owner {
                let rec = op.rec;
                self.ops[rec].ids.extend_from_slice(&ids);
            }
        }
        self.log.push(Ev::Copy { shared: sh, to_host, k, ids });
    }

    /// A host-side operation is consumed by the host the moment it resolves.
    fn host_reclaim(&mut self, sh: usize, side: Side) {
        let s = &mut self.shared[sh];
        if s.ends[side as usize].owner != Owner::Host {
            return;
        }
        if let Some(op) = s.ends[side as usize].op.take() {
            if side == Side::Writer {
                // unsent items stay queued for the next host write
                let unsent = (op.n - op.progress) as usize;
                let keep = s.out_buf.split_off(s.out_buf.len() - unsent);
                s.out_buf = keep;
            }
            let res = op.result;
            let e = &mut s.ends[side as usize];
            e.state = if res == Some(CopyResult::Dropped) || (s.is_future && res == Some(CopyResult::Completed)) { CState::Done } else { CState::Idle };
        }
        if s.pending == Some(side) {
            s.pending = None;
        }
    }

    /// Spec `SharedStreamImpl.read/write` and `SharedFutureImpl.read/write`.
    fn start_copy(&mut self, sh: usize, x: Side, op: Op) {
        let y = x.other();
        {
            let e = &mut self.shared[sh].ends[x as usize];
            e.state = CState::Copying;
            e.op = Some(op);
            e.ops_started += 1;
        }
        let s = &self.shared[sh];
        if s.ends[y as usize].dropped {
            self.shared[sh].ends[x as usize].op.as_mut().unwrap().result = Some(CopyResult::Dropped);
            self.host_reclaim(sh, x);
            return;
        }
        match s.pending {
            None => self.shared[sh].pending = Some(x),
            Some(p) if p == y => {
                let prem = s.ends[y as usize].op.as_ref().unwrap().remain();
                let xrem = s.ends[x as usize].op.as_ref().unwrap().remain();
                let pn = s.ends[y as usize].op.as_ref().unwrap().n;
                let xn = s.ends[x as usize].op.as_ref().unwrap().n;
                if s.is_future {
                    self.move_items(sh, 1);
                    let s = &mut self.shared[sh];
                    s.ends[y as usize].op.as_mut().unwrap().result = Some(CopyResult::Completed);
                    s.ends[x as usize].op.as_mut().unwrap().result = Some(CopyResult::Completed);
                    s.pending = None;
                    self.host_reclaim(sh, y);
                    self.host_reclaim(sh, x);
                } else if prem > 0 {
                    if xrem > 0 {
                        self.move_items(sh, prem.min(xrem));
                        self.shared[sh].ends[y as usize].op.as_mut().unwrap().result = Some(CopyResult::Completed);
                        self.host_reclaim(sh, y);
                    }
                    self.shared[sh].ends[x as usize].op.as_mut().unwrap().result = Some(CopyResult::Completed);
                    self.host_reclaim(sh, x);
                } else if x == Side::Writer && xn == 0 && pn == 0 {
                    self.shared[sh].ends[x as usize].op.as_mut().unwrap().result = Some(CopyResult::Completed);
                    self.host_reclaim(sh, x);
                } else {
                    let s = &mut self.shared[sh];
                    s.ends[y as usize].op.as_mut().unwrap().result = Some(CopyResult::Completed);
                    s.pending = Some(x);
                    self.host_reclaim(sh, y);
                    self.shared[sh].pending = Some(x);
                }
            }
            Some(_) => {
                // x itself holds the pending buffer: excluded by the caller's
                // "operation already in progress" check
            }
        }
    }

    /// Host peer posts a read (capacity `c`) or a write (`c` fresh items).
    pub fn peer_post(&mut self, sh: usize, c: u32) {
        let Some(peer) = self.shared[sh].peer.clone() else { return };
        let side = peer.side;
        if self.shared[sh].ends[side as usize].state != CState::Idle || self.shared[sh].ends[side as usize].dropped {
            return;
        }
        let c = if self.shared[sh].is_future { 1 } else { c.min(peer.items_left).max(if peer.items_left == 0 { 0 } else { 1 }) };
        if let Some(p) = self.shared[sh].peer.as_mut() {
            p.items_left = p.items_left.saturating_sub(c);
        }
        if side == Side::Writer {
            let s = &mut self.shared[sh];
            // top up the host's outgoing buffer to exactly c items
            while (s.out_buf.len() as u32) < c {
                let id = s.next_out;
                s.next_out += 1;
                s.out_buf.push(if s.elem == Elem::U8 { id & 0xff } else { id });
            }
            // (a buffer longer than c can only be left over from a partially
            // consumed earlier write; write all of it)
        }
        let n = if side == Side::Writer { self.shared[sh].out_buf.len() as u32 } else { c };
        self.log.push(Ev::Peer { shared: sh, what: if side == Side::Reader { "host-read" } else { "host-write" }, arg: n });
        self.start_copy(sh, side, Op { ptr: 0, n, progress: 0, result: None, rec: usize::MAX });
    }

    /// Host peer drops its end (cancelling its own pending operation first).
    pub fn peer_drop(&mut self, sh: usize) {
        let Some(peer) = self.shared[sh].peer.clone() else { return };
        let side = peer.side;
        let s = &mut self.shared[sh];
        if s.ends[side as usize].dropped {
            return;
        }
        if s.is_future && side == Side::Writer && s.ends[1].state != CState::Done {
            return; // a writable future end cannot be dropped unwritten
        }
        if s.ends[side as usize].op.is_some() {
            s.ends[side as usize].op = None;
            s.ends[side as usize].state = CState::Idle;
            if s.pending == Some(side) {
                s.pending = None;
            }
        }
        self.log.push(Ev::Peer { shared: sh, what: "host-drop", arg: 0 });
        self.drop_side(sh, side);
    }

    fn drop_side(&mut self, sh: usize, x: Side) {
        let y = x.other();
        let s = &mut self.shared[sh];
        s.ends[x as usize].dropped = true;
        s.ends[x as usize].owner = Owner::Gone;
        // only a dropped *reader* is observable for futures
        if s.is_future && x == Side::Writer {
            return;
        }
        if s.pending == Some(y) {
            s.ends[y as usize].op.as_mut().unwrap().result = Some(CopyResult::Dropped);
            s.pending = None;
            self.host_reclaim(sh, y);
        }
    }

    /// Actions a host peer could take right now: (shared, kind, arg) with kind
    /// 0 = post(arg), 1 = drop.
    pub fn peer_actions(&self) -> Vec<(usize, u8, u32)> {
        let mut v = vec![];
        for s in &self.shared {
            let Some(p) = &s.peer else { continue };
            let e = &s.ends[p.side as usize];
            if e.dropped {
                continue;
            }
            let other = &s.ends[p.side.other() as usize];
            let other_waiting = s.pending == Some(p.side.other()) && other.op.as_ref().map_or(false, |o| o.result.is_none());
            // a spontaneous action needs budget, unless the guest is waiting on
            // this peer (then resolving it is always possible)
            if p.acts_left == 0 && !other_waiting {
                continue;
            }
            if other.dropped && !(s.is_future && p.side == Side::Writer) {
                continue; // nobody is left to observe this peer
            }
            if e.state == CState::Idle {
                if s.is_future {
                    v.push((s.id, 0, 1));
                } else if p.items_left > 0 {
                    let want = other.op.as_ref().map(|o| o.n - o.progress).filter(|_| other_waiting).unwrap_or(2).max(1);
                    v.push((s.id, 0, want.min(p.items_left)));
                    if want > 1 {
                        v.push((s.id, 0, 1));
                    }
                    if want > 2 {
                        v.push((s.id, 0, want - 1));
                    }
                }
            }
            let can_drop = !(s.is_future && p.side == Side::Writer && e.state != CState::Done);
            if can_drop && (p.may_drop || (p.items_left == 0 && !s.is_future)) {
                v.push((s.id, 1, 0));
            }
        }
        v
    }

    pub fn peer_apply(&mut self, a: (usize, u8, u32)) {
        if let Some(p) = self.shared[a.0].peer.as_mut() {
            p.acts_left = p.acts_left.saturating_sub(1);
        }
        match a.1 {
            0 => self.peer_post(a.0, a.2),
            _ => self.peer_drop(a.0),
        }
    }

    /// At the start of a guest operation: what the peer "had already done".
    fn lazy_peer(&mut self, sh: usize, n: u32) {
        let s = &self.shared[sh];
        let Some(p) = s.peer.clone() else { return };
        let e = &s.ends[p.side as usize];
        if e.dropped || e.state != CState::Idle || s.pending.is_some() {
            return;
        }
        if s.is_future {
            let can_drop = p.side == Side::Reader && p.may_drop;
            match choose(if can_drop { 3 } else { 2 }, "future-peer-ready") {
                0 => self.peer_post(sh, 1),
                1 => {}
                _ => self.peer_drop(sh),
            }
            return;
        }
        // options: 0 full, 1 blocked, 2 one item (n>1), 3 n-1 items (n>2), last: dropped
        let mut opts: Vec<i64> = vec![];
        if p.items_left > 0 {
            opts.push(n.max(1) as i64);
        }
        opts.push(-1);
        if p.items_left > 0 && n > 1 {
            opts.push(1);
        }
        if p.items_left > 0 && n > 2 {
            opts.push((n - 1) as i64);
        }
        if p.may_drop {
            opts.push(-2);
        }
        match opts[choose(opts.len(), "peer-ready")] {
            -1 => {}
            -2 => self.peer_drop(sh),
            c => self.peer_post(sh, c as u32),
        }
    }

    pub fn copy_start(&mut self, name: &'static str, h: u32, ptr: usize, n: u32, side: Side, is_future: bool) -> u32 {
        if self.violated() {
            self.call(name, h as u64, n as u64, BLOCKED as u64);
            return BLOCKED;
        }
        let Some((sh, _)) = self.end_of(h, name, Some(side), Some(is_future)) else {
            self.call(name, h as u64, n as u64, BLOCKED as u64);
            return BLOCKED;
        };
        let st = self.shared[sh].ends[side as usize].state;
        if st != CState::Idle {
            let kind = match (st, is_future, side) {
                (CState::Copying, _, _) => TrapKind::CopyInProgress,
                (_, true, Side::Writer) => TrapKind::FutureSecondWrite,
                _ => TrapKind::CopyOnDoneEnd,
            };
            self.trap(kind, format!("{name}({h}): end is {st:?}"));
            self.call(name, h as u64, n as u64, BLOCKED as u64);
            return BLOCKED;
        }
        if n > MAX_LENGTH {
            self.trap(TrapKind::LengthTooLarge, format!("{name}({h}): length {n} > 2^28-1"));
            self.call(name, h as u64, n as u64, BLOCKED as u64);
            return BLOCKED;
        }
        let elem = self.shared[sh].elem;
        let rec = self.ops.len();
        self.ops.push(OpRec { handle: h, shared: sh, side, is_future, elem, n, ids: vec![], code: None, via: None, task: self.cur_task });
        self.lazy_peer(sh, n);
        self.start_copy(sh, side, Op { ptr, n, progress: 0, result: None, rec });
        let ret = if self.shared[sh].ends[side as usize].op.as_ref().map_or(false, |o| o.result.is_some()) {
            self.take_event(h, Via::Immediate).2
        } else {
            BLOCKED
        };
        self.call(name, h as u64, n as u64, ret as u64);
        ret
    }

    pub fn copy_cancel(&mut self, name: &'static str, h: u32, side: Side, is_future: bool) -> u32 {
        let lenient = if is_future { CANCELLED } else { CANCELLED };
        if self.violated() {
            self.call(name, h as u64, 0, lenient as u64);
            return lenient;
        }
        let Some((sh, _)) = self.end_of(h, name, Some(side), Some(is_future)) else {
            self.call(name, h as u64, 0, lenient as u64);
            return lenient;
        };
        if self.shared[sh].ends[side as usize].state != CState::Copying {
            self.trap(TrapKind::CancelNothingInProgress, format!("{name}({h}): no operation in progress"));
            self.call(name, h as u64, 0, lenient as u64);
            return lenient;
        }
        let in_set = self.shared[sh].ends[side as usize].in_set;
        self.log.push(Ev::InSet { name, handle: h, set: in_set });
        let has = self.shared[sh].ends[side as usize].op.as_ref().unwrap().result.is_some();
        if !has {
            // a host peer may consume k < n items at this very moment
            let s = &self.shared[sh];
            let host_peer = s.peer.as_ref().map_or(false, |p| p.side == side.other() && p.items_left > 0) && !s.ends[side.other() as usize].dropped && !s.is_future;
            let n = s.ends[side as usize].op.as_ref().unwrap().n;
            if host_peer && n > 1 {
                let mut opts = vec![0u32, 1];
                if n > 2 {
                    opts.push(n - 1);
                }
                let k = opts[choose(opts.len(), "cancel-partial")];
                if k > 0 {
                    let k = k.min(self.shared[sh].peer.as_ref().unwrap().items_left);
                    // the host posts an operation for k items that meets the pending guest buffer
                    let y = side.other();
                    if y == Side::Writer {
                        let s = &mut self.shared[sh];
                        while (s.out_buf.len() as u32) < k {
                            let id = s.next_out;
                            s.next_out += 1;
                            s.out_buf.push(if s.elem == Elem::U8 { id & 0xff } else { id });
                        }
                    }
                    let hn = if y == Side::Writer { self.shared[sh].out_buf.len() as u32 } else { k };
                    if hn == k {
                        if let Some(p) = self.shared[sh].peer.as_mut() {
                            p.items_left -= k;
                        }
                        let e = &mut self.shared[sh].ends[y as usize];
                        e.op = Some(Op { ptr: 0, n: hn, progress: 0, result: None, rec: usize::MAX });
                        self.move_items(sh, k);
                        self.shared[sh].ends[y as usize].op.as_mut().unwrap().result = Some(CopyResult::Completed);
                        self.host_reclaim(sh, y);
                        self.log.push(Ev::Peer { shared: sh, what: "host-consumes-at-cancel", arg: k });
                    }
                }
            }
            let s = &mut self.shared[sh];
            s.ends[side as usize].op.as_mut().unwrap().result = Some(CopyResult::Cancelled);
        }
        let ret = self.take_event(h, Via::Cancel).2;
        self.call(name, h as u64, 0, ret as u64);
        ret
    }

    pub fn end_drop(&mut self, name: &'static str, h: u32, side: Side, is_future: bool) {
        self.call(name, h as u64, 0, 0);
        if self.violated() {
            return;
        }
        let Some((sh, _)) = self.end_of(h, name, Some(side), Some(is_future)) else { return };
        let e = &self.shared[sh].ends[side as usize];
        self.log.push(Ev::InSet { name, handle: h, set: e.in_set });
        if e.state == CState::Copying {
            return self.trap(TrapKind::DropWhileCopying, format!("{name}({h}): an operation is in progress"));
        }
        if is_future && side == Side::Writer && e.state != CState::Done {
            return self.trap(TrapKind::FutureDropWritableUnwritten, format!("{name}({h}): writable end dropped before a value was delivered or the reader was seen dropped"));
        }
        // spec: Waitable.drop leaves its set
        if let Some(s) = e.in_set {
            if let Some(Obj::Set { members, .. }) = self.table[s as usize].as_mut() {
                members.retain(|m| *m != h);
            }
        }
        self.shared[sh].ends[side as usize].in_set = None;
        self.free_handle(h);
        self.drop_side(sh, side);
    }

    // ------------------------------------------------------------------ subtasks

    /// Is the guest allocation at `addr` still live?  `true` when the ledger
    /// cannot tell (tracking off: Miri / sanitizer shards see the access itself).
    fn guest_block_live(addr: usize) -> bool {
        addr == 0 || crate::alloc::is_live(addr) != Some(false)
    }

    /// The callee starts: the host lifts the lowered parameters out of guest
    /// memory (every byte it needs is read now, never later).
    fn sub_read_params(&mut self, token: u32) {
        let mem = self.subcalls[token as usize - 1].mem.clone();
        let mut ids: Vec<u32> = vec![];
        let mut problems: Vec<String> = vec![];
        let block_live = Self::guest_block_live(mem.block.0);
        let mut block_reported = false;
        let mut read_item = |id: u32, ptr: usize, len: usize, problems: &mut Vec<String>| {
            if len > 64 {
                problems.push(format!("corrupt-params: item {id} has implausible tag length {len}"));
                return;
            }
            if len > 0 && !Self::guest_block_live(ptr) {
                problems.push(format!("params-list-freed-before-callee-started: list data of item {id} is no longer allocated"));
                return;
            }
            let mut bytes = Vec::with_capacity(len);
            for i in 0..len {
                bytes.push(unsafe { core::ptr::read_volatile((ptr as *const u8).add(i)) });
            }
            if bytes != payload::tag_for(id).as_bytes() {
                problems.push(format!("corrupt-params: item {id} has tag bytes {bytes:?}"));
            }
        };
        let mut owns: Vec<u32> = vec![];
        for f in &mem.params {
            let in_mem = matches!(f, PField::MemU32 { .. } | PField::MemItem { .. } | PField::MemOwn { .. });
            if in_mem && !block_live {
                if !block_reported {
                    problems.push("params-block-freed-before-callee-started: the parameter block is no longer allocated when the host lifts the parameters".into());
                    block_reported = true;
                }
                continue;
            }
            match f {
                PField::FlatU32 { got, expect } => {
                    if got != expect {
                        problems.push(format!("corrupt-params: flat scalar is {got}, lowered value was {expect}"));
                    }
                    ids.push(*got);
                }
                PField::FlatItem { id, ptr, len } => {
                    read_item(*id, *ptr, *len, &mut problems);
                    ids.push(*id);
                }
                PField::FlatOwn { handle } => owns.push(*handle),
                PField::MemU32 { addr, expect } => {
                    let got = unsafe { core::ptr::read_volatile(*addr as *const u32) };
                    if got != *expect {
                        problems.push(format!("corrupt-params: scalar in the parameter block is {got}, lowered value was {expect}"));
                    }
                    ids.push(got);
                }
                PField::MemItem { addr } => {
                    let abi = unsafe { core::ptr::read_volatile(*addr as *const ItemAbi) };
                    read_item(abi.id, abi.ptr as usize, abi.len, &mut problems);
                    ids.push(abi.id);
                }
                PField::MemOwn { addr } => owns.push(unsafe { core::ptr::read_volatile(*addr as *const u32) }),
            }
        }
        for h in owns {
            // lifting `own<R>` removes the handle from the guest's table
            match self.obj(h) {
                Some(Obj::Res { .. }) => self.free_handle(h),
                _ => problems.push(format!("own-handle-not-owned: parameter handle {h} is not a resource the guest owns when the callee starts")),
            }
            ids.push(0x8000_0000 | h);
        }
        if let Some(hook) = self.sub_hook {
            hook(token, false);
        }
        self.log.push(Ev::Peer { shared: token as usize, what: "subtask-lifts-params", arg: ids.len() as u32 });
        let rec = &mut self.subcalls[token as usize - 1];
        rec.params_read = Some(ids);
        rec.problems.extend(problems);
    }

    /// The callee returns: the host lowers the result into guest memory.
    fn sub_write_results(&mut self, token: u32) {
        let mem = self.subcalls[token as usize - 1].mem.clone();
        let id = 7000 + token;
        let mut problem = None;
        match mem.rkind {
            RKind::None => {}
            _ if !Self::guest_block_live(mem.block.0) => problem = Some("results-block-freed-before-callee-returned: the result area is no longer allocated when the host lowers the result".to_string()),
            RKind::U32 => unsafe { core::ptr::write_volatile(mem.results as *mut u32, id) },
            RKind::Item => payload::host_write_elem(Elem::Item, mem.results, id),
        }
        if let Some(hook) = self.sub_hook {
            hook(token, true);
        }
        self.log.push(Ev::Peer { shared: token as usize, what: "subtask-lowers-result", arg: id });
        let rec = &mut self.subcalls[token as usize - 1];
        rec.result_written = Some(id);
        rec.problems.extend(problem);
    }

    /// `resource.new`-like: the guest obtains an `own<R>` handle (C21 parameters).
    pub fn res_new(&mut self) -> u32 {
        let id = self.next_res;
        self.next_res += 1;
        let h = self.alloc_handle(Obj::Res { id });
        self.call("resource.new", id as u64, 0, h as u64);
        h
    }

    /// `resource.drop` of an own handle.
    pub fn res_drop(&mut self, h: u32) {
        self.call("resource.drop", h as u64, 0, 0);
        if self.violated() {
            return;
        }
        match self.obj(h) {
            Some(Obj::Res { .. }) => self.free_handle(h),
            Some(_) => self.trap(TrapKind::WrongKind, format!("resource.drop({h}): not a resource handle")),
            None => self.trap(TrapKind::UnknownHandle, format!("resource.drop({h}): unknown handle (already transferred or dropped)")),
        }
    }

    /// An `[async-lower]` import call: the harness `Subtask::call_import`
    /// forwards here with the guest memory the host will use.  Returns
    /// `status | handle << 4`.
    pub fn subtask_call(&mut self, mem: SubMem) -> u32 {
        let token = self.next_token;
        self.next_token += 1;
        let task = self.cur_task;
        self.subcalls.push(SubRec { token, cid: mem.cid, task, mem, ..SubRec::default() });
        if self.violated() {
            self.subcalls[token as usize - 1].seen.push((STATUS_RETURNED, "call"));
            self.call("async-lower-call", token as u64, 0, STATUS_RETURNED as u64);
            return STATUS_RETURNED;
        }
        // 0: returned at once, 1: starting, 2: started
        let c = choose(3, "subtask-start");
        let (status, handle) = match c {
            0 => {
                self.sub_read_params(token);
                self.sub_write_results(token);
                (STATUS_RETURNED, 0)
            }
            c => {
                let state = if c == 1 { STATUS_STARTING } else { STATUS_STARTED };
                if state == STATUS_STARTED {
                    self.sub_read_params(token);
                }
                let h = self.alloc_handle(Obj::Subtask(Subtask { state, pending: None, resolve_delivered: false, cancel_requested: false, in_set: None, dropped: false, token }));
                (state, h)
            }
        };
        let rec = &mut self.subcalls[token as usize - 1];
        rec.handle = handle;
        rec.host.push(status);
        rec.seen.push((status, "call"));
        let packed = status | (handle << 4);
        self.call("async-lower-call", token as u64, 0, packed as u64);
        packed
    }

    /// Compatibility form without guest memory.
    pub fn subtask_start(&mut self) -> (u32, u32) {
        let packed = self.subtask_call(SubMem::default());
        (packed, self.next_token - 1)
    }

    /// Subtasks that can make progress: (handle, next status)
    pub fn subtask_actions(&self) -> Vec<(u32, u32)> {
        let mut v = vec![];
        for (i, o) in self.table.iter().enumerate() {
            if let Some(Obj::Subtask(s)) = o {
                // (a state change while an event is still pending is
                // indistinguishable, for the guest, from the direct transition)
                if s.pending.is_some() || s.resolve_delivered {
                    continue;
                }
                match s.state {
                    STATUS_STARTING => {
                        v.push((i as u32, STATUS_RETURNED));
                        v.push((i as u32, STATUS_STARTED));
                    }
                    STATUS_STARTED => v.push((i as u32, STATUS_RETURNED)),
                    _ => {}
                }
            }
        }
        v
    }

    pub fn subtask_advance(&mut self, h: u32, status: u32) {
        let Some(Obj::Subtask(s)) = self.table[h as usize].clone() else { return };
        let token = s.token;
        if s.state == STATUS_STARTING {
            self.sub_read_params(token);
        }
        if status == STATUS_RETURNED {
            self.sub_write_results(token);
        }
        if let Some(Obj::Subtask(s)) = self.table[h as usize].as_mut() {
            s.state = status;
            s.pending = Some(status);
        }
        self.subcalls[token as usize - 1].host.push(status);
        self.log.push(Ev::Peer { shared: token as usize, what: "subtask-status", arg: status });
    }

    pub fn subtask_state(&self, h: u32) -> Option<Subtask> {
        match self.obj(h) {
            Some(Obj::Subtask(s)) => Some(s.clone()),
            _ => None,
        }
    }

    /// Synchronous `subtask.cancel` (the form the runtime imports): blocks until
    /// the subtask has resolved and returns its final state.
    pub fn subtask_cancel(&mut self, h: u32) -> u32 {
        if self.violated() {
            self.call("subtask.cancel", h as u64, 0, STATUS_RETURNED_CANCELLED as u64);
            return STATUS_RETURNED_CANCELLED;
        }
        let ret = match self.obj(h).cloned() {
            Some(Obj::Subtask(mut s)) => {
                self.log.push(Ev::InSet { name: "subtask.cancel", handle: h, set: s.in_set });
                self.subcalls[s.token as usize - 1].cancels += 1;
                if s.resolve_delivered || s.cancel_requested {
                    self.trap(TrapKind::SubtaskCancelResolved, format!("subtask.cancel({h}): subtask already resolved or cancellation already requested"));
                    STATUS_RETURNED_CANCELLED
                } else {
                    s.cancel_requested = true;
                    let pending = s.pending.take();
                    let st = match (pending, s.state) {
                        // already resolved, event not yet delivered: that state is the answer
                        (Some(p), _) if p >= STATUS_RETURNED => p,
                        // not started (waiting for backpressure): cancelled before it starts
                        (None, STATUS_STARTING) => STATUS_STARTED_CANCELLED,
                        // the callee is running (whether or not the guest has been
                        // told): while the caller blocks it either returns a value
                        // or acknowledges the cancellation
                        _ => {
                            if choose(2, "subtask-cancel-race") == 0 {
                                STATUS_RETURNED_CANCELLED
                            } else {
                                self.sub_write_results(s.token);
                                STATUS_RETURNED
                            }
                        }
                    };
                    if st != s.state {
                        self.subcalls[s.token as usize - 1].host.push(st);
                    }
                    self.subcalls[s.token as usize - 1].seen.push((st, "cancel"));
                    s.state = st;
                    s.resolve_delivered = true;
                    self.table[h as usize] = Some(Obj::Subtask(s));
                    st
                }
            }
            Some(_) => {
                self.trap(TrapKind::WrongKind, format!("subtask.cancel({h}): not a subtask"));
                STATUS_RETURNED_CANCELLED
            }
            None => {
                self.trap(TrapKind::UnknownHandle, format!("subtask.cancel({h}): unknown handle"));
                STATUS_RETURNED_CANCELLED
            }
        };
        self.call("subtask.cancel", h as u64, 0, ret as u64);
        ret
    }

    pub fn subtask_drop(&mut self, h: u32) {
        self.call("subtask.drop", h as u64, 0, 0);
        if self.violated() {
            return;
        }
        match self.obj(h).cloned() {
            Some(Obj::Subtask(s)) => {
                self.log.push(Ev::InSet { name: "subtask.drop", handle: h, set: s.in_set });
                self.subcalls[s.token as usize - 1].drops += 1;
                if !s.resolve_delivered {
                    return self.trap(TrapKind::SubtaskDropUnresolved, format!("subtask.drop({h}): subtask has not resolved"));
                }
                if let Some(set) = s.in_set {
                    if let Some(Obj::Set { members, .. }) = self.table[set as usize].as_mut() {
                        members.retain(|m| *m != h);
                    }
                }
                self.free_handle(h);
            }
            Some(_) => self.trap(TrapKind::WrongKind, format!("subtask.drop({h}): not a subtask")),
            None => self.trap(TrapKind::UnknownHandle, format!("subtask.drop({h}): unknown handle (double drop?)")),
        }
    }

    // ------------------------------------------------------------------ tasks, context

    pub fn new_task(&mut self, is_block_on: bool) -> u32 {
        let id = self.tasks.len() as u32;
        self.tasks.push(Task { id, ctx: 0, st: TaskSt::NotStarted, returned: 0, task_cancel_calls: 0, cancel_delivered: false, callbacks: 0, codes: vec![], is_block_on, is_v1: false, shared_ptr: 0 });
        id
    }

    pub fn context_get(&mut self) -> usize {
        let v = self.tasks[self.cur_task as usize].ctx;
        self.call("context.get", 0, 0, (v != 0) as u64);
        v
    }

    pub fn context_set(&mut self, v: usize) {
        self.call("context.set", (v != 0) as u64, 0, 0);
        let t = self.cur_task as usize;
        self.tasks[t].ctx = v;
    }

    pub fn wasip3_task_set(&mut self, p: usize) -> usize {
        let prev = std::mem::replace(&mut self.wasip3, p);
        if p != 0 {
            // SAFETY: the caller passes a pointer to a live `wasip3_task`; only
            // the runtime's own (v2) tasks point to a `SharedTaskState`
            let t = unsafe { &*(p as *const crate::cabi::Wasip3Task) };
            self.cur_shared_ptr = if t.version >= crate::cabi::WASIP3_TASK_V2 { t.ptr as usize } else { 0 };
            let (ct, sp) = (self.cur_task as usize, self.cur_shared_ptr);
            if ct != 0 {
                self.tasks[ct].shared_ptr = sp;
            }
        }
        self.call("wasip3_task_set", (p != 0) as u64, 0, (prev != 0) as u64);
        prev
    }

    pub fn task_return(&mut self, value: u64) {
        self.call("task.return", value, 0, 0);
        let t = self.cur_task as usize;
        self.tasks[t].returned += 1;
        if self.tasks[t].returned + self.tasks[t].task_cancel_calls > 1 {
            self.trap(TrapKind::TaskReturnTwice, "task.return / task.cancel called more than once for one task".into());
        }
    }

    pub fn task_cancel(&mut self) {
        self.call("task.cancel", 0, 0, 0);
        let t = self.cur_task as usize;
        self.tasks[t].task_cancel_calls += 1;
        if self.tasks[t].returned + self.tasks[t].task_cancel_calls > 1 {
            self.trap(TrapKind::TaskReturnTwice, "task.return / task.cancel called more than once for one task".into());
        } else if !self.tasks[t].cancel_delivered {
            self.trap(TrapKind::Other, "task.cancel called although the host never requested cancellation".into());
        }
    }

    // ------------------------------------------------------------------ misc built-ins

    pub fn error_context_new(&mut self, msg: String) -> u32 {
        let h = self.alloc_handle(Obj::ErrCtx(msg));
        self.call("error-context.new", 0, 0, h as u64);
        h
    }
    pub fn error_context_message(&mut self, h: u32) -> String {
        self.call("error-context.debug-message", h as u64, 0, 0);
        match self.obj(h) {
            Some(Obj::ErrCtx(m)) => m.clone(),
            _ => {
                self.trap(TrapKind::UnknownHandle, format!("error-context.debug-message({h})"));
                String::new()
            }
        }
    }
    pub fn error_context_drop(&mut self, h: u32) {
        self.call("error-context.drop", h as u64, 0, 0);
        match self.obj(h) {
            Some(Obj::ErrCtx(_)) => self.free_handle(h),
            _ => self.trap(TrapKind::UnknownHandle, format!("error-context.drop({h})")),
        }
    }

    pub fn guest(&mut self, gv: Gv) {
        let task = self.cur_task;
        self.log.push(Ev::Guest { task, gv });
    }
    pub fn ledger(&mut self, l: Led) {
        self.log.push(Ev::Ledger(l));
    }

    /// Host view of a registered key (M2).
    pub fn key_state(&self, h: u32) -> KeyState {
        match self.obj(h) {
            Some(Obj::End { shared, side }) => {
                let e = &self.shared[*shared].ends[*side as usize];
                KeyState { handle: h, exists: true, in_set: e.in_set, in_progress: e.state == CState::Copying, probed: false }
            }
            Some(Obj::Subtask(s)) => KeyState { handle: h, exists: true, in_set: s.in_set, in_progress: !s.resolve_delivered, probed: false },
            _ => KeyState { handle: h, exists: false, in_set: None, in_progress: false, probed: false },
        }
    }

    pub fn end_is_done(&self, h: u32) -> bool {
        matches!(self.obj(h), Some(Obj::End { shared, side }) if self.shared[*shared].ends[*side as usize].state == CState::Done)
    }

    pub fn is_unit_reader(&self, h: u32) -> bool {
        matches!(self.obj(h), Some(Obj::End { shared, side: Side::Reader }) if self.shared[*shared].elem == Elem::Unit)
    }

    pub fn set_owner_shared(&self, s: u32) -> usize {
        match self.obj(s) {
            Some(Obj::Set { owner_shared, .. }) => *owner_shared,
            _ => 0,
        }
    }

    pub fn ops_on(&self, h: u32) -> usize {
        self.ops.iter().filter(|o| o.handle == h).count()
    }
}
