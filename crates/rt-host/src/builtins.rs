//! The canonical built-ins the runtime imports, as plain C symbols named by
//! their wasm import name (hook H2).  Each forwards to the thread-local host.
//! None of these functions may panic (they are `extern "C"`).
use crate::host::{self, Elem, Side, TrapKind};
use crate::sched::choose;
use core::ffi::c_void;

#[unsafe(export_name = "[waitable-set-new]")]
pub unsafe extern "C" fn waitable_set_new() -> u32 {
    host::with(|h| h.waitable_set_new())
}
#[unsafe(export_name = "[waitable-set-drop]")]
pub unsafe extern "C" fn waitable_set_drop(s: u32) {
    host::with(|h| h.waitable_set_drop(s))
}
#[unsafe(export_name = "[waitable-join]")]
pub unsafe extern "C" fn waitable_join(w: u32, s: u32) {
    host::with(|h| h.waitable_join(w, s))
}
#[unsafe(export_name = "[waitable-set-poll]")]
pub unsafe extern "C" fn waitable_set_poll(s: u32, out: *mut [u32; 2]) -> u32 {
    let _g = crate::alloc::host_mode();
    crate::driver::snapshot_set(s, "poll");
    // a violated execution that keeps polling synchronously (`block_on` with
    // an executor that never stops yielding) can only be ended from here
    let spinning = host::with(|h| {
        if h.violated() {
            h.lenient_waits += 1;
        }
        h.lenient_waits > 2000
    });
    if spinning {
        crate::driver::fatal_in_wait("violated");
    }
    let (e0, e1, e2) = host::with(|h| h.waitable_set_poll(s));
    unsafe { *out = [e1, e2] };
    e0
}
#[unsafe(export_name = "[waitable-set-wait]")]
pub unsafe extern "C" fn waitable_set_wait(s: u32, out: *mut [u32; 2]) -> u32 {
    let _g = crate::alloc::host_mode();
    crate::driver::snapshot_set(s, "wait");
    loop {
        let r = host::with(|h| {
            if h.violated() {
                return Some(None);
            }
            if !matches!(h.table.get(s as usize), Some(Some(host::Obj::Set { .. }))) {
                h.trap(TrapKind::UnknownHandle, format!("waitable-set.wait({s}): not a waitable set"));
                return Some(None);
            }
            h.deliver_from_set(s, "wait").map(Some)
        });
        match r {
            Some(Some((e0, e1, e2))) => {
                host::with(|h| h.note_call("waitable-set.wait", s as u64, 0, e0 as u64));
                unsafe { *out = [e1, e2] };
                return e0;
            }
            Some(None) => {
                // violated execution inside a synchronous wait: answer "no
                // event" so that the body gets polled again and can wind down
                // (choice-driven bodies finish once their budget is used up);
                // give up if it never does
                let n = host::with(|h| {
                    h.lenient_waits += 1;
                    h.lenient_waits
                });
                if n > 400 {
                    crate::driver::fatal_in_wait("violated");
                }
                unsafe { *out = [0, 0] };
                return 0;
            }
            None => {}
        }
        // nothing pending: let the host script advance
        let acts = host::with(|h| h.host_actions());
        if acts.is_empty() {
            host::with(|h| h.trap(TrapKind::WaitOnEmptyForever, format!("waitable-set.wait({s}): no member has or can ever get a pending event")));
            crate::driver::fatal_in_wait("stuck");
        }
        let a = acts[choose(acts.len(), "advance-in-wait")];
        host::with(|h| h.apply(a));
    }
}

#[unsafe(export_name = "[subtask-cancel]")]
pub unsafe extern "C" fn subtask_cancel(h: u32) -> u32 {
    host::with(|x| x.subtask_cancel(h))
}
#[unsafe(export_name = "[subtask-drop]")]
pub unsafe extern "C" fn subtask_drop(h: u32) {
    host::with(|x| x.subtask_drop(h))
}
#[unsafe(export_name = "[context-get-0]")]
pub unsafe extern "C" fn context_get() -> *mut u8 {
    host::with(|h| h.context_get()) as *mut u8
}
#[unsafe(export_name = "[context-set-0]")]
pub unsafe extern "C" fn context_set(v: *mut u8) {
    host::with(|h| h.context_set(v as usize))
}
#[unsafe(export_name = "[thread-yield]")]
pub unsafe extern "C" fn thread_yield() -> bool {
    host::with(|h| {
        h.yields += 1;
        h.note_call("thread.yield", 0, 0, 0);
    });
    false
}
#[unsafe(export_name = "[backpressure-inc]")]
pub unsafe extern "C" fn backpressure_inc() {
    host::with(|h| {
        h.backpressure += 1;
        h.note_call("backpressure.inc", 0, 0, 0);
    })
}
#[unsafe(export_name = "[backpressure-dec]")]
pub unsafe extern "C" fn backpressure_dec() {
    host::with(|h| {
        h.backpressure -= 1;
        h.note_call("backpressure.dec", 0, 0, 0);
        if h.backpressure < 0 {
            h.trap(TrapKind::Other, "backpressure.dec below zero".into());
        }
    })
}
#[unsafe(export_name = "[task-cancel]")]
pub unsafe extern "C" fn task_cancel() {
    host::with(|h| h.task_cancel())
}
#[unsafe(export_name = "wasip3_task_set")]
pub unsafe extern "C" fn wasip3_task_set(p: *mut c_void) -> *mut c_void {
    host::with(|h| h.wasip3_task_set(p as usize)) as *mut c_void
}

#[repr(C)]
pub struct RetPtr {
    ptr: *mut u8,
    len: usize,
}
#[unsafe(export_name = "[error-context-new-utf8]")]
pub unsafe extern "C" fn error_context_new(p: *const u8, n: usize) -> u32 {
    let _g = crate::alloc::host_mode();
    let mut v = Vec::with_capacity(n);
    for i in 0..n {
        v.push(unsafe { core::ptr::read_volatile(p.add(i)) });
    }
    host::with(|h| h.error_context_new(String::from_utf8_lossy(&v).into_owned()))
}
#[unsafe(export_name = "[error-context-drop]")]
pub unsafe extern "C" fn error_context_drop(h: u32) {
    host::with(|x| x.error_context_drop(h))
}
#[unsafe(export_name = "[error-context-debug-message-utf8]")]
pub unsafe extern "C" fn error_context_debug_message(h: u32, ret: *mut RetPtr) {
    let msg = host::with(|x| x.error_context_message(h));
    let len = msg.len();
    let ptr = if len == 0 {
        core::ptr::NonNull::<u8>::dangling().as_ptr()
    } else {
        let _g = crate::alloc::guest_mode();
        unsafe {
            let p = std::alloc::alloc(core::alloc::Layout::from_size_align_unchecked(len, 1));
            core::ptr::copy_nonoverlapping(msg.as_ptr(), p, len);
            p
        }
    };
    unsafe { *ret = RetPtr { ptr, len } };
}

// ---- unit-stream intrinsics (inter-task wakeup)
#[unsafe(export_name = "[stream-new-unit]")]
pub unsafe extern "C" fn unit_new() -> u64 {
    host::with(|h| h.pair_new(Elem::Unit, false))
}
#[unsafe(export_name = "[async-lower][stream-write-unit]")]
pub unsafe extern "C" fn unit_write(s: u32, p: *const u8, n: usize) -> u32 {
    host::with(|h| h.copy_start("stream.write", s, p as usize, n as u32, Side::Writer, false))
}
#[unsafe(export_name = "[async-lower][stream-read-unit]")]
pub unsafe extern "C" fn unit_read(s: u32, p: *mut u8, n: usize) -> u32 {
    host::with(|h| h.copy_start("stream.read", s, p as usize, n as u32, Side::Reader, false))
}
#[unsafe(export_name = "[stream-cancel-read-unit]")]
pub unsafe extern "C" fn unit_cancel_read(s: u32) -> u32 {
    host::with(|h| h.copy_cancel("stream.cancel-read", s, Side::Reader, false))
}
#[unsafe(export_name = "[stream-cancel-write-unit]")]
pub unsafe extern "C" fn unit_cancel_write(s: u32) -> u32 {
    host::with(|h| h.copy_cancel("stream.cancel-write", s, Side::Writer, false))
}
#[unsafe(export_name = "[stream-drop-readable-unit]")]
pub unsafe extern "C" fn unit_drop_readable(s: u32) {
    host::with(|h| h.end_drop("stream.drop-readable", s, Side::Reader, false))
}
#[unsafe(export_name = "[stream-drop-writable-unit]")]
pub unsafe extern "C" fn unit_drop_writable(s: u32) {
    host::with(|h| h.end_drop("stream.drop-writable", s, Side::Writer, false))
}
