//! Scenarios of C21 (async import calls), C22 (export executor) and C23
//! (cross-task wake-ups).  Each scenario belongs to exactly one property, which
//! then owns everything the execution exhibits.
use crate::driver::{BoxFut, ExecCfg, TaskDef, TaskKind};
use crate::machine::fact;
use crate::scen::{mailbox_put, Scenario};
use crate::sched::choose;
use crate::subcall::{CallCfg, CallMachine, PShape, RShape};
use crate::work::{chan, chan_send, chan_wake, prog, ChanRef, Closer, Join2, ProgCfg, Recv, Step, Tracked, KIND_ROOT};
use core::future::Future;
use core::pin::Pin;
use core::task::{Context, Poll};
use wit_bindgen::{StreamRead, StreamReader};

fn cfg_plain() -> ExecCfg {
    ExecCfg::default()
}
fn cfg_cancel() -> ExecCfg {
    ExecCfg { cancel_inject: true, ..ExecCfg::default() }
}

// =============================================================================== C21

fn call_task(kind: TaskKind, shapes: Vec<(PShape, RShape)>, max_calls: u32, concurrent: usize, max_actions: u32) -> TaskDef {
    TaskDef {
        kind,
        body: Box::new(move || {
            // `block_on` may not be left waiting without a registration; an
            // export task may yield at any time
            let cfg = CallCfg { shapes, max_calls, concurrent, max_actions, early_yield: false };
            Box::pin(CallMachine::new(cfg)) as BoxFut
        }),
    }
}

macro_rules! c21_one {
    ($name:ident, $p:ident, $r:ident) => {
        fn $name() -> Vec<TaskDef> {
            vec![call_task(TaskKind::Export, vec![(PShape::$p, RShape::$r)], 1, 1, 7)]
        }
    };
}
c21_one!(c21_flat_scalar_none, FlatScalar, None);
c21_one!(c21_flat_scalar_u32, FlatScalar, U32);
c21_one!(c21_flat_item_u32, FlatItem, U32);
c21_one!(c21_flat_item_item, FlatItem, Item);
c21_one!(c21_flat_item_own_none, FlatItemOwn, None);
c21_one!(c21_flat_item_own_item, FlatItemOwn, Item);
c21_one!(c21_ind_scalars_none, IndScalars, None);
c21_one!(c21_ind_scalars_u32, IndScalars, U32);
c21_one!(c21_ind_items_none, IndItems, None);
c21_one!(c21_ind_items_u32, IndItems, U32);
c21_one!(c21_ind_items_item, IndItems, Item);

fn c21_two_concurrent() -> Vec<TaskDef> {
    vec![call_task(TaskKind::Export, vec![(PShape::FlatItemOwn, RShape::Item), (PShape::IndItems, RShape::U32)], 2, 2, 10)]
}
fn c21_sequence() -> Vec<TaskDef> {
    let all = vec![
        (PShape::FlatItem, RShape::Item),
        (PShape::IndItems, RShape::Item),
        (PShape::FlatScalar, RShape::None),
        (PShape::FlatItemOwn, RShape::U32),
        (PShape::IndScalars, RShape::Item),
    ];
    vec![call_task(TaskKind::Export, all, 3, 1, 12)]
}
fn c21_two_tasks() -> Vec<TaskDef> {
    vec![
        call_task(TaskKind::Export, vec![(PShape::IndItems, RShape::Item)], 1, 1, 6),
        call_task(TaskKind::Export, vec![(PShape::FlatItemOwn, RShape::U32)], 1, 1, 6),
    ]
}
fn c21_block_on_ind_items_item() -> Vec<TaskDef> {
    vec![call_task(TaskKind::BlockOn, vec![(PShape::IndItems, RShape::Item)], 2, 1, 8)]
}
fn c21_block_on_flat_item_own_u32() -> Vec<TaskDef> {
    vec![call_task(TaskKind::BlockOn, vec![(PShape::FlatItemOwn, RShape::U32)], 2, 2, 8)]
}

// =============================================================================== C22

const IMPORT_A: Step = Step::Import(PShape::FlatItem, RShape::U32);
const IMPORT_B: Step = Step::Import(PShape::IndItems, RShape::Item);
const IMPORT_C: Step = Step::Import(PShape::FlatScalar, RShape::None);

fn prog_task(kind: TaskKind, menu: &'static [Step], steps: u32, child_menu: &'static [Step], child_steps: u32) -> TaskDef {
    TaskDef { kind, body: Box::new(move || Tracked::boxed(KIND_ROOT, prog(ProgCfg { menu, steps, child_menu, child_steps }))) }
}

fn c22_yield_import() -> Vec<TaskDef> {
    vec![prog_task(TaskKind::Export, &[Step::Finish, Step::Yield, IMPORT_A], 4, &[], 0)]
}
fn c22_mix() -> Vec<TaskDef> {
    vec![prog_task(TaskKind::Export, &[Step::Finish, Step::Yield, IMPORT_C, Step::Read, Step::Write, Step::Both], 4, &[], 0)]
}
fn c22_futures() -> Vec<TaskDef> {
    vec![prog_task(TaskKind::Export, &[Step::Finish, Step::FutRead, Step::Yield, IMPORT_B], 3, &[], 0)]
}
fn c22_spawn() -> Vec<TaskDef> {
    vec![prog_task(TaskKind::Export, &[Step::Finish, Step::Spawn, Step::Yield, IMPORT_A, Step::Read], 4, &[Step::Finish, Step::Yield, IMPORT_C, Step::Read], 2)]
}
fn c22_spawn_deep() -> Vec<TaskDef> {
    vec![prog_task(TaskKind::Export, &[Step::Finish, Step::Spawn, Step::Spawn, Step::Yield], 4, &[Step::Finish, Step::Yield, IMPORT_A, Step::Write, Step::FutRead], 3)]
}
fn c22_leave_registered() -> Vec<TaskDef> {
    vec![prog_task(TaskKind::Export, &[Step::Finish, Step::LeaveRegistered, Step::Yield, IMPORT_A], 3, &[], 0)]
}
fn c22_backpressure() -> Vec<TaskDef> {
    vec![prog_task(TaskKind::Export, &[Step::Finish, Step::Backpressure, IMPORT_C, Step::Yield], 3, &[], 0)]
}
fn c22_two_tasks() -> Vec<TaskDef> {
    vec![
        prog_task(TaskKind::Export, &[Step::Finish, Step::Yield, IMPORT_A, Step::Read], 3, &[], 0),
        prog_task(TaskKind::Export, &[Step::Finish, Step::Yield, IMPORT_C, Step::Spawn], 3, &[Step::Finish, Step::Yield, Step::Read], 2),
    ]
}
fn c22_block_on_yield_first() -> Vec<TaskDef> {
    vec![prog_task(TaskKind::BlockOn, &[Step::Finish, Step::Yield, IMPORT_A, Step::Read], 4, &[], 0)]
}
fn c22_block_on_mix() -> Vec<TaskDef> {
    vec![prog_task(TaskKind::BlockOn, &[Step::Finish, Step::Yield, IMPORT_B, Step::Read, Step::Write, Step::Both, Step::Spawn], 4, &[Step::Finish, Step::Yield, IMPORT_C], 2)]
}
fn c22_block_on_then_export() -> Vec<TaskDef> {
    vec![
        prog_task(TaskKind::BlockOn, &[Step::Finish, Step::Yield, Step::FutRead], 3, &[], 0),
        prog_task(TaskKind::Export, &[Step::Finish, Step::Yield, IMPORT_A], 3, &[], 0),
    ]
}

/// A foreign C-ABI client whose completion callback re-enters the task's
/// `waitable_register` / `waitable_unregister`.
fn cabi_client_task(kind: TaskKind, initial: u32, budget: u32) -> TaskDef {
    TaskDef { kind, body: Box::new(move || Tracked::boxed(KIND_ROOT, Box::pin(crate::cabi_client::ClientFut::new(initial, budget)))) }
}
fn c22_cabi_client_reentrant() -> Vec<TaskDef> {
    vec![cabi_client_task(TaskKind::Export, 2, 2)]
}
fn c22_cabi_client_reentrant_three() -> Vec<TaskDef> {
    vec![cabi_client_task(TaskKind::Export, 3, 1)]
}
fn c22_cabi_client_reentrant_block_on() -> Vec<TaskDef> {
    vec![cabi_client_task(TaskKind::BlockOn, 2, 2)]
}
fn c22_cabi_client_reentrant_two_tasks() -> Vec<TaskDef> {
    vec![cabi_client_task(TaskKind::Export, 2, 1), prog_task(TaskKind::Export, &[Step::Finish, Step::Yield, IMPORT_A, Step::Read], 3, &[], 0)]
}

// =============================================================================== C23

/// Task body that sleeps on the Rust-level channel.
fn sleeper(c: ChanRef, steps: u32, with_read: bool) -> BoxFut {
    Box::pin(async move {
        let mut left = steps;
        while left > 0 {
            left -= 1;
            match choose(if with_read { 5 } else { 3 }, "guest-act") {
                0 => break,
                // leave an operation registered: if the body ends now the task
                // stays suspended without Rust work (sleep state POLLING/WOKEN)
                // while its waker is still in the channel
                4 => crate::scen::leave_registered().await,
                1 => match Recv(c.clone()).await {
                    Some(v) => fact("recv", v as u64, 0, vec![]),
                    None => {
                        fact("recv-closed", 0, 0, vec![]);
                        break;
                    }
                },
                2 => wit_bindgen::yield_async().await,
                _ => {
                    // sleep on the channel and on a host stream at once
                    let c2 = c.clone();
                    let a: BoxFut = Box::pin(async move {
                        if let Some(v) = Recv(c2).await {
                            fact("recv", v as u64, 1, vec![]);
                        }
                    });
                    let b: BoxFut = Box::pin(async {
                        let mut r = crate::scen::reader_from_host::<u8>(crate::machine::PeerCfg { acts: 2, items: 2, may_drop: true }, 70);
                        let _ = r.next().await;
                        drop(r);
                    });
                    Join2::new(a, b).await;
                }
            }
        }
    })
}

/// A stream read polled with *another task's* waker: its completion callback
/// (C ABI `waitable_register` callback) is what wakes that task.
struct ForeignWake {
    op: Option<Pin<Box<StreamRead<'static, u8>>>>,
    reader: *mut StreamReader<u8>,
}
impl Drop for ForeignWake {
    fn drop(&mut self) {
        self.op = None;
        unsafe { drop(Box::from_raw(self.reader)) };
    }
}

fn cabi_wake_step(c: &ChanRef) {
    let Some(w) = c.borrow().waker.clone() else { return };
    let reader = Box::into_raw(Box::new(crate::scen::reader_from_host::<u8>(crate::machine::PeerCfg { acts: 2, items: 1, may_drop: false }, 80)));
    let rref: &'static mut StreamReader<u8> = unsafe { &mut *reader };
    let mut fw = ForeignWake { op: Some(Box::pin(rref.read(Vec::with_capacity(1)))), reader };
    let mut cx = Context::from_waker(&w);
    match fw.op.as_mut().unwrap().as_mut().poll(&mut cx) {
        Poll::Ready(_) => {
            fact("cabi-wake-op-completed-at-once", 0, 0, vec![]);
            drop(fw);
        }
        Poll::Pending => {
            fact("cabi-wake-op-registered", 0, 0, vec![]);
            mailbox_put("foreign-wake", Box::new(fw));
        }
    }
}

/// Task body that wakes the sleeper in various ways; the channel is closed
/// (and the sleeper woken) whenever this body ends or is destroyed.
fn waker_body(c: ChanRef, steps: u32, cabi: bool) -> BoxFut {
    Box::pin(async move {
        let _closer = Closer(c.clone());
        let mut left = steps;
        let mut next = 1u32;
        while left > 0 {
            left -= 1;
            match choose(if cabi { 6 } else { 5 }, "guest-act") {
                0 => break,
                1 => {
                    chan_send(&c, next);
                    next += 1;
                }
                2 => {
                    chan_wake(&c, 1);
                }
                3 => {
                    chan_wake(&c, 3);
                }
                4 => wit_bindgen::yield_async().await,
                _ => cabi_wake_step(&c),
            }
        }
    })
}

fn two(steps_a: u32, steps_b: u32, with_read: bool, cabi: bool) -> Vec<TaskDef> {
    let c = chan();
    let (ca, cb) = (c.clone(), c);
    vec![
        TaskDef { kind: TaskKind::Export, body: Box::new(move || Tracked::boxed(KIND_ROOT, sleeper(ca, steps_a, with_read))) },
        TaskDef { kind: TaskKind::Export, body: Box::new(move || Tracked::boxed(KIND_ROOT, waker_body(cb, steps_b, cabi))) },
    ]
}
#[cfg(feature = "inter-task-wakeup")]
fn c23_two_tasks() -> Vec<TaskDef> {
    two(3, 4, false, false)
}
#[cfg(feature = "inter-task-wakeup")]
fn c23_sleeper_with_read() -> Vec<TaskDef> {
    two(3, 3, true, false)
}
#[cfg(feature = "inter-task-wakeup")]
fn c23_cabi_wake() -> Vec<TaskDef> {
    two(3, 3, false, true)
}
/// Receiver and sender inside one task: every wake-up happens while the task
/// is being polled (no wake-up stream needed; also runs without the feature).
fn c23_same_task() -> Vec<TaskDef> {
    let c = chan();
    let (ca, cb) = (c.clone(), c);
    vec![TaskDef {
        kind: TaskKind::Export,
        body: Box::new(move || {
            let a = Tracked::boxed(crate::work::KIND_PART, same_task_receiver(ca));
            let b = Tracked::boxed(crate::work::KIND_PART, same_task_sender(cb));
            Tracked::boxed(KIND_ROOT, Box::pin(Join2::new(a, b)))
        }),
    }]
}
fn c23_block_on_same_task() -> Vec<TaskDef> {
    let c = chan();
    let (ca, cb) = (c.clone(), c);
    vec![TaskDef {
        kind: TaskKind::BlockOn,
        body: Box::new(move || {
            let a = Tracked::boxed(crate::work::KIND_PART, same_task_receiver(ca));
            let b = Tracked::boxed(crate::work::KIND_PART, same_task_sender(cb));
            Tracked::boxed(KIND_ROOT, Box::pin(Join2::new(a, b)))
        }),
    }]
}
fn same_task_receiver(c: ChanRef) -> BoxFut {
    Box::pin(async move {
        for _ in 0..3 {
            match Recv(c.clone()).await {
                Some(v) => fact("recv", v as u64, 2, vec![]),
                None => break,
            }
        }
    })
}
/// The sender only suspends by yielding or on a host stream, so the task as a
/// whole never sleeps on Rust-level events alone.
fn same_task_sender(c: ChanRef) -> BoxFut {
    Box::pin(async move {
        let _closer = Closer(c.clone());
        let mut next = 1;
        for _ in 0..3 {
            match choose(5, "guest-act") {
                0 => break,
                1 => {
                    chan_send(&c, next);
                    next += 1;
                }
                2 => {
                    chan_wake(&c, 2);
                }
                3 => wit_bindgen::yield_async().await,
                _ => {
                    let mut r = crate::scen::reader_from_host::<u8>(crate::machine::PeerCfg { acts: 2, items: 2, may_drop: true }, 90);
                    let _ = r.next().await;
                    drop(r);
                }
            }
        }
    })
}
/// The sender is a spawned task of the sleeping task.
#[cfg(all(feature = "inter-task-wakeup", feature = "async-spawn"))]
fn c23_spawned_sender() -> Vec<TaskDef> {
    let c = chan();
    let (ca, cb) = (c.clone(), c);
    vec![TaskDef {
        kind: TaskKind::Export,
        body: Box::new(move || {
            Tracked::boxed(
                KIND_ROOT,
                Box::pin(async move {
                    wit_bindgen::spawn_local(Tracked::new(crate::work::KIND_SPAWNED, same_task_sender(cb)));
                    sleeper(ca, 3, true).await;
                }),
            )
        }),
    }]
}
/// Three tasks: two wakers share the sleeper's (possibly stale) waker.
#[cfg(feature = "inter-task-wakeup")]
fn c23_three_tasks() -> Vec<TaskDef> {
    let c = chan();
    let (ca, cb, cc) = (c.clone(), c.clone(), c);
    vec![
        TaskDef { kind: TaskKind::Export, body: Box::new(move || Tracked::boxed(KIND_ROOT, sleeper(ca, 2, false))) },
        TaskDef { kind: TaskKind::Export, body: Box::new(move || Tracked::boxed(KIND_ROOT, waker_body(cb, 2, false))) },
        TaskDef {
            kind: TaskKind::Export,
            body: Box::new(move || {
                Tracked::boxed(
                    KIND_ROOT,
                    Box::pin(async move {
                        for _ in 0..2 {
                            match choose(3, "guest-act") {
                                0 => break,
                                1 => {
                                    chan_wake(&cc, 1);
                                }
                                _ => wit_bindgen::yield_async().await,
                            }
                        }
                    }),
                )
            }),
        },
    ]
}

// =============================================================================== registry

macro_rules! scn {
    ($name:ident, $props:expr, $cfg:expr) => {
        Scenario { name: stringify!($name), props: $props, cfg: $cfg, build: $name, thorough_only: false }
    };
}

pub fn all() -> Vec<Scenario> {
    const C21: &[&str] = &["C21"];
    const C22: &[&str] = &["C22"];
    const C23: &[&str] = &["C23"];
    let mut v = vec![
        scn!(c21_flat_scalar_none, C21, cfg_plain()),
        scn!(c21_flat_scalar_u32, C21, cfg_plain()),
        scn!(c21_flat_item_u32, C21, cfg_plain()),
        scn!(c21_flat_item_item, C21, cfg_plain()),
        scn!(c21_flat_item_own_none, C21, cfg_plain()),
        scn!(c21_flat_item_own_item, C21, cfg_plain()),
        scn!(c21_ind_scalars_none, C21, cfg_plain()),
        scn!(c21_ind_scalars_u32, C21, cfg_plain()),
        scn!(c21_ind_items_none, C21, cfg_plain()),
        scn!(c21_ind_items_u32, C21, cfg_plain()),
        scn!(c21_ind_items_item, C21, cfg_plain()),
        scn!(c21_two_concurrent, C21, cfg_plain()),
        scn!(c21_sequence, C21, cfg_plain()),
        scn!(c21_two_tasks, C21, cfg_cancel()),
    ];
    v.push(Scenario { name: "c21_flat_item_own_item_cancel", props: C21, cfg: cfg_cancel(), build: c21_flat_item_own_item, thorough_only: false });
    v.push(Scenario { name: "c21_ind_items_item_cancel", props: C21, cfg: cfg_cancel(), build: c21_ind_items_item, thorough_only: false });
    v.push(Scenario { name: "c21_ind_items_u32_cancel", props: C21, cfg: cfg_cancel(), build: c21_ind_items_u32, thorough_only: false });
    v.push(Scenario { name: "c21_two_concurrent_cancel", props: C21, cfg: cfg_cancel(), build: c21_two_concurrent, thorough_only: false });
    v.push(scn!(c21_block_on_ind_items_item, C21, cfg_plain()));
    v.push(scn!(c21_block_on_flat_item_own_u32, C21, cfg_plain()));

    v.push(scn!(c22_yield_import, C22, cfg_cancel()));
    v.push(scn!(c22_mix, C22, cfg_cancel()));
    v.push(scn!(c22_futures, C22, cfg_cancel()));
    v.push(scn!(c22_spawn, C22, cfg_cancel()));
    v.push(scn!(c22_spawn_deep, C22, cfg_plain()));
    v.push(scn!(c22_leave_registered, C22, cfg_plain()));
    v.push(Scenario { name: "c22_leave_registered_cancel", props: C22, cfg: cfg_cancel(), build: c22_leave_registered, thorough_only: false });
    v.push(scn!(c22_backpressure, C22, cfg_cancel()));
    v.push(scn!(c22_two_tasks, C22, cfg_cancel()));
    v.push(Scenario { name: "c22_mix_nocancel", props: C22, cfg: cfg_plain(), build: c22_mix, thorough_only: false });
    v.push(scn!(c22_block_on_yield_first, C22, cfg_plain()));
    v.push(scn!(c22_block_on_mix, C22, cfg_plain()));
    v.push(scn!(c22_block_on_then_export, C22, cfg_cancel()));
    // last: a panic inside the runtime's `extern "C"` entry points ends the process
    v.push(scn!(c22_cabi_client_reentrant, C22, cfg_plain()));
    v.push(Scenario { name: "c22_cabi_client_reentrant_cancel", props: C22, cfg: cfg_cancel(), build: c22_cabi_client_reentrant, thorough_only: false });
    v.push(scn!(c22_cabi_client_reentrant_three, C22, cfg_cancel()));
    v.push(scn!(c22_cabi_client_reentrant_two_tasks, C22, cfg_cancel()));
    v.push(scn!(c22_cabi_client_reentrant_block_on, C22, cfg_plain()));

    #[cfg(feature = "inter-task-wakeup")]
    {
        v.push(scn!(c23_two_tasks, C23, cfg_plain()));
        v.push(Scenario { name: "c23_two_tasks_cancel", props: C23, cfg: cfg_cancel(), build: c23_two_tasks, thorough_only: false });
        v.push(scn!(c23_sleeper_with_read, C23, cfg_plain()));
        v.push(Scenario { name: "c23_sleeper_with_read_cancel", props: C23, cfg: cfg_cancel(), build: c23_sleeper_with_read, thorough_only: false });
        v.push(scn!(c23_cabi_wake, C23, cfg_plain()));
        v.push(scn!(c23_three_tasks, C23, cfg_cancel()));
    }
    #[cfg(all(feature = "inter-task-wakeup", feature = "async-spawn"))]
    v.push(scn!(c23_spawned_sender, C23, cfg_cancel()));
    v.push(scn!(c23_same_task, C23, cfg_cancel()));
    v.push(scn!(c23_block_on_same_task, C23, cfg_plain()));
    v
}
