//! Last-resort crash reporting: the current scenario and the choices taken so
//! far are kept in static memory; if the process dies with SIGABRT/SIGSEGV (a
//! panic inside an `extern "C"` frame, a double panic, a wild pointer) a signal
//! handler prints `RT-HOST-CRASH scenario=<name> signal=<n> vector=[...]` to
//! stderr so that the Python side can turn the crash into a replayable case.
use std::sync::atomic::{AtomicU32, AtomicUsize, Ordering::Relaxed};

const MAXC: usize = 512;
static NAME: [AtomicU32; 16] = [const { AtomicU32::new(0) }; 16];
static CHOICES: [AtomicU32; MAXC] = [const { AtomicU32::new(0) }; MAXC];
static NCHOICES: AtomicUsize = AtomicUsize::new(0);
/// what the harness was doing (1: a C-ABI client re-entering `waitable_register` /
/// `waitable_unregister` from a completion callback); printed in the crash line
pub static PHASE: AtomicU32 = AtomicU32::new(0);

pub fn begin(scenario: &str) {
    let b = scenario.as_bytes();
    for i in 0..16 {
        let mut w = 0u32;
        for j in 0..4 {
            let c = b.get(i * 4 + j).copied().unwrap_or(0);
            w |= (c as u32) << (8 * j);
        }
        NAME[i].store(w, Relaxed);
    }
    NCHOICES.store(0, Relaxed);
    PHASE.store(0, Relaxed);
}

#[inline]
pub fn note_choice(c: u32) {
    let n = NCHOICES.load(Relaxed);
    if n < MAXC {
        CHOICES[n].store(c, Relaxed);
    }
    NCHOICES.store(n + 1, Relaxed);
}

/// Text of the crash line (also used by the orderly emergency exit).
pub fn describe(signal: i32, buf: &mut [u8; 4096]) -> usize {
    let mut n = 0;
    let mut put = |s: &[u8], n: &mut usize| {
        for &c in s {
            if *n < 4095 {
                buf[*n] = c;
                *n += 1;
            }
        }
    };
    put(b"RT-HOST-CRASH scenario=", &mut n);
    for i in 0..16 {
        let w = NAME[i].load(Relaxed);
        for j in 0..4 {
            let c = (w >> (8 * j)) as u8;
            if c != 0 {
                put(&[c], &mut n);
            }
        }
    }
    put(b" signal=", &mut n);
    put_num(signal as u32, &mut put, &mut n);
    put(b" vector=[", &mut n);
    let k = NCHOICES.load(Relaxed).min(MAXC);
    for i in 0..k {
        if i > 0 {
            put(b",", &mut n);
        }
        put_num(CHOICES[i].load(Relaxed), &mut put, &mut n);
    }
    put(b"] phase=", &mut n);
    put_num(PHASE.load(Relaxed), &mut put, &mut n);
    put(b"\n", &mut n);
    n
}

fn put_num(mut v: u32, put: &mut impl FnMut(&[u8], &mut usize), n: &mut usize) {
    let mut d = [0u8; 10];
    let mut i = 10;
    if v == 0 {
        put(b"0", n);
        return;
    }
    while v > 0 {
        i -= 1;
        d[i] = b'0' + (v % 10) as u8;
        v /= 10;
    }
    put(&d[i..], n);
}

#[cfg(all(unix, not(miri)))]
mod imp {
    unsafe extern "C" {
        fn signal(sig: i32, handler: usize) -> usize;
        fn write(fd: i32, buf: *const u8, n: usize) -> isize;
        fn _exit(code: i32) -> !;
    }
    extern "C" fn on_signal(sig: i32) {
        let mut buf = [0u8; 4096];
        let n = super::describe(sig, &mut buf);
        unsafe {
            write(2, buf.as_ptr(), n);
            _exit(70);
        }
    }
    pub fn install() {
        unsafe {
            signal(6, on_signal as usize); // SIGABRT
            signal(11, on_signal as usize); // SIGSEGV
            signal(7, on_signal as usize); // SIGBUS
            signal(4, on_signal as usize); // SIGILL
        }
    }
}
#[cfg(not(all(unix, not(miri))))]
mod imp {
    pub fn install() {}
}
pub fn install() {
    imp::install()
}

/// Orderly emergency exit (used when a `block_on` task can never be resumed).
pub fn emergency(code: i32) -> ! {
    let mut buf = [0u8; 4096];
    let n = describe(code, &mut buf);
    eprint!("{}", String::from_utf8_lossy(&buf[..n]));
    std::process::exit(71)
}
