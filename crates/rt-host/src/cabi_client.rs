//! A foreign client of the `wasip3_task` C ABI (what an older or non-Rust
//! bindings version linked into the same component would be): it obtains the
//! current task through `wasip3_task_set`, registers waitables with its own
//! `extern "C"` completion callback, and — inside that callback — re-enters
//! `waitable_register` / `waitable_unregister` of the same task (unregisters
//! another waitable, registers a new one, restarts itself) before it wakes the
//! task body.  Only the public C ABI structure is used.
use crate::builtins;
use crate::cabi::Wasip3Task;
use crate::host::{self, Elem, Peer, Side, BLOCKED};
use crate::machine::fact;
use crate::payload;
use crate::sched::choose;
use core::ffi::c_void;
use core::future::Future;
use core::pin::Pin;
use core::task::{Context, Poll, Waker};
use std::cell::RefCell;
use std::rc::Rc;
use std::sync::atomic::Ordering::Relaxed;

struct CbRec {
    client: *const RefCell<Client>,
    idx: usize,
}

struct COp {
    handle: u32,
    buf: Box<[u8; 4]>,
    registered: bool,
    finished: bool,
    rec: Box<CbRec>,
}

pub struct Client {
    ops: Vec<COp>,
    waker: Option<Waker>,
    /// how many more operations (new or restarted) may be started
    budget: u32,
    me: *const RefCell<Client>,
}

unsafe fn current_task() -> *mut Wasip3Task {
    unsafe {
        let t = builtins::wasip3_task_set(core::ptr::null_mut());
        builtins::wasip3_task_set(t);
        t as *mut Wasip3Task
    }
}

unsafe extern "C" fn client_cb(p: *mut c_void, code: u32) {
    // (never panics: an `extern "C"` frame)
    let rec = unsafe { &*(p as *const CbRec) };
    let cell = unsafe { &*rec.client };
    if let Ok(mut c) = cell.try_borrow_mut() {
        c.on_event(rec.idx, code, true);
    }
}

impl Client {
    fn new_op(&mut self, base: u32) -> usize {
        let peer = Peer { side: Side::Writer, acts_left: 2, items_left: 3, may_drop: true };
        let handle = host::with(|h| h.host_writer_new(Elem::U8, false, peer, base));
        let idx = self.ops.len();
        self.ops.push(COp { handle, buf: Box::new([0; 4]), registered: false, finished: false, rec: Box::new(CbRec { client: self.me, idx }) });
        fact("cabi.new-op", handle as u64, 0, vec![]);
        idx
    }

    /// Start a read on op `i`; register it if it blocks, otherwise handle the
    /// completion at once (no callback is involved then).
    fn start(&mut self, i: usize, reentrant: bool) {
        let (h, p) = (self.ops[i].handle, self.ops[i].buf.as_mut_ptr());
        let rc = unsafe { payload::stream_read(h, p, 2) };
        if rc == BLOCKED {
            let task = unsafe { current_task() };
            if task.is_null() {
                fact("cabi.no-current-task", h as u64, 0, vec![]);
                return;
            }
            let rec: *mut CbRec = &mut *self.ops[i].rec;
            if reentrant {
                crate::crash::PHASE.store(1, Relaxed);
            }
            unsafe { ((*task).waitable_register)((*task).ptr, h, client_cb, rec.cast()) };
            crate::crash::PHASE.store(0, Relaxed);
            self.ops[i].registered = true;
            fact("cabi.registered", h as u64, reentrant as u64, vec![]);
        } else {
            fact("cabi.immediate", h as u64, rc as u64, vec![]);
            self.retire(i);
        }
    }

    fn retire(&mut self, i: usize) {
        let h = self.ops[i].handle;
        unsafe { payload::stream_drop_readable(h) };
        self.ops[i].finished = true;
    }

    /// Unregister op `i` from the task, then cancel its read and drop the end.
    fn unregister(&mut self, i: usize, reentrant: bool) {
        let h = self.ops[i].handle;
        let task = unsafe { current_task() };
        if !task.is_null() {
            if reentrant {
                crate::crash::PHASE.store(1, Relaxed);
            }
            unsafe { ((*task).waitable_unregister)((*task).ptr, h) };
            crate::crash::PHASE.store(0, Relaxed);
        } else {
            fact("cabi.no-current-task", h as u64, 1, vec![]);
        }
        self.ops[i].registered = false;
        fact("cabi.unregistered", h as u64, reentrant as u64, vec![]);
        unsafe { payload::stream_cancel_read(h) };
        self.retire(i);
    }

    fn on_event(&mut self, i: usize, code: u32, in_callback: bool) {
        let h = self.ops[i].handle;
        self.ops[i].registered = false;
        fact("cabi.event", h as u64, code as u64, vec![]);
        let ended = code & 0xf != 0;
        // what the completion callback does next
        #[derive(Copy, Clone)]
        enum A {
            Nothing,
            UnregisterOther(usize),
            RegisterNew,
            Restart,
        }
        let mut acts = vec![A::Nothing];
        for j in 0..self.ops.len() {
            if j != i && self.ops[j].registered {
                acts.push(A::UnregisterOther(j));
            }
        }
        if self.budget > 0 {
            acts.push(A::RegisterNew);
            if !ended {
                acts.push(A::Restart);
            }
        }
        let mut restarted = false;
        match acts[choose(acts.len(), "cabi-callback-act")] {
            A::Nothing => {}
            A::UnregisterOther(j) => self.unregister(j, in_callback),
            A::RegisterNew => {
                self.budget -= 1;
                let k = self.new_op(200 + 10 * self.ops.len() as u32);
                self.start(k, in_callback);
            }
            A::Restart => {
                self.budget -= 1;
                restarted = true;
                self.start(i, in_callback);
            }
        }
        if !restarted {
            self.retire(i);
        }
        if let Some(w) = self.waker.clone() {
            w.wake_by_ref();
        }
    }

    fn registered(&self) -> usize {
        self.ops.iter().filter(|o| o.registered).count()
    }

    fn wind_down(&mut self) {
        for i in 0..self.ops.len() {
            if self.ops[i].registered {
                self.unregister(i, false);
            } else if !self.ops[i].finished {
                self.retire(i);
            }
        }
    }
}

/// Task body: start `initial` operations, then sleep until the client has no
/// registration left (its callbacks wake the body).
pub struct ClientFut {
    c: Rc<RefCell<Client>>,
    initial: u32,
    started: bool,
}

impl ClientFut {
    pub fn new(initial: u32, budget: u32) -> ClientFut {
        let c = Rc::new(RefCell::new(Client { ops: vec![], waker: None, budget, me: core::ptr::null() }));
        c.borrow_mut().me = Rc::as_ptr(&c);
        ClientFut { c, initial, started: false }
    }
}

impl Future for ClientFut {
    type Output = ();
    fn poll(mut self: Pin<&mut Self>, cx: &mut Context<'_>) -> Poll<()> {
        if !self.started {
            self.started = true;
            for k in 0..self.initial {
                let mut c = self.c.borrow_mut();
                let i = c.new_op(100 + 10 * k);
                c.start(i, false);
            }
        }
        let mut c = self.c.borrow_mut();
        if c.registered() == 0 {
            c.wind_down();
            return Poll::Ready(());
        }
        // sometimes the body gives up early and unregisters everything itself
        if choose(3, "guest-act") == 2 {
            c.wind_down();
            return Poll::Ready(());
        }
        c.waker = Some(cx.waker().clone());
        Poll::Pending
    }
}

impl Drop for ClientFut {
    fn drop(&mut self) {
        // (task cancelled: the task is installed while its futures are destroyed)
        if let Ok(mut c) = self.c.try_borrow_mut() {
            c.waker = None;
            c.wind_down();
        }
    }
}
