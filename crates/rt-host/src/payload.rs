//! Payload types and their (instrumented) stream/future vtables.
//!
//! * `u8` — canonical path (`lift`/`lower`/`dealloc_lists` absent for streams).
//! * [`Item`] `{id: u32, tag: String}` — lift/lower path with owned heap data.
//!   Its canonical-ABI image is [`ItemAbi`] (record `{u32, string}` with native
//!   pointer width).  `lower`, `lift`, `dealloc_lists` report to the host
//!   ledger; `Item::drop` reports too.  `tag` is a function of `id`, so the
//!   host can check every element it reads.
use crate::host::{self, Elem, Led, Side};
use core::alloc::Layout;
use core::mem::{ManuallyDrop, MaybeUninit};
use wit_bindgen::rt::async_support::{FutureVtable, StreamVtable};

#[repr(C)]
#[derive(Copy, Clone)]
pub struct ItemAbi {
    pub id: u32,
    pub ptr: *mut u8,
    pub len: usize,
}

#[derive(Debug)]
pub struct Item {
    pub id: u32,
    pub tag: String,
}

pub fn tag_for(id: u32) -> String {
    if id % 5 == 0 {
        String::new()
    } else {
        let mut s = format!("i{id}");
        for _ in 0..(id % 3) {
            s.push('x');
        }
        s
    }
}

impl Item {
    pub fn new(id: u32) -> Item {
        host::with(|h| h.ledger(Led::Create(id)));
        Item { id, tag: tag_for(id) }
    }
}
impl Drop for Item {
    fn drop(&mut self) {
        let id = self.id;
        host::with(|h| h.ledger(Led::ItemDrop(id)));
    }
}

/// Touch `len` bytes at `ptr` (liveness check for Miri / valgrind / ASan; reads
/// as `MaybeUninit` so uninitialised contents are fine).
pub fn probe(ptr: usize, len: usize) {
    if ptr == 0 || len == 0 {
        return;
    }
    let p = ptr as *const MaybeUninit<u8>;
    unsafe {
        let _ = core::ptr::read_volatile(p);
        let _ = core::ptr::read_volatile(p.add(len - 1));
    }
}

/// Host reads one element from guest memory; returns its id.
pub fn host_read_elem(elem: Elem, addr: usize) -> Result<u32, String> {
    match elem {
        Elem::Unit => Ok(0),
        Elem::U8 => Ok(unsafe { core::ptr::read_volatile(addr as *const u8) } as u32),
        Elem::Item => {
            let abi = unsafe { core::ptr::read_volatile(addr as *const ItemAbi) };
            let mut bytes = Vec::with_capacity(abi.len.min(64));
            if abi.len > 64 {
                return Err(format!("item {} has implausible tag length {}", abi.id, abi.len));
            }
            for i in 0..abi.len {
                bytes.push(unsafe { core::ptr::read_volatile(abi.ptr.add(i)) });
            }
            if bytes != tag_for(abi.id).as_bytes() {
                return Err(format!("item {} has tag bytes {:?}", abi.id, bytes));
            }
            Ok(abi.id)
        }
    }
}

/// Host writes one element into guest memory; list data comes from the guest's
/// allocator as `cabi_realloc` would provide it.
pub fn host_write_elem(elem: Elem, addr: usize, id: u32) {
    match elem {
        Elem::Unit => {}
        Elem::U8 => unsafe { core::ptr::write_volatile(addr as *mut u8, id as u8) },
        Elem::Item => {
            let tag = tag_for(id);
            let len = tag.len();
            let ptr = if len == 0 {
                core::ptr::NonNull::<u8>::dangling().as_ptr()
            } else {
                let _g = crate::alloc::guest_mode();
                unsafe {
                    let p = std::alloc::alloc(Layout::from_size_align_unchecked(len, 1));
                    core::ptr::copy_nonoverlapping(tag.as_ptr(), p, len);
                    p
                }
            };
            unsafe { core::ptr::write_volatile(addr as *mut ItemAbi, ItemAbi { id, ptr, len }) };
        }
    }
}

// ---------------------------------------------------------------- Item vtable functions

unsafe fn item_lower(value: Item, dst: *mut u8) {
    let value = ManuallyDrop::new(value);
    let id = value.id;
    let tag = unsafe { core::ptr::read(&value.tag) };
    let b = tag.into_bytes().into_boxed_slice();
    let len = b.len();
    let ptr = Box::into_raw(b) as *mut u8;
    unsafe { (dst as *mut ItemAbi).write(ItemAbi { id, ptr, len }) };
    host::with(|h| h.ledger(Led::Lower(id)));
}

unsafe fn item_lift(src: *mut u8) -> Item {
    let abi = unsafe { (src as *const ItemAbi).read() };
    let tag = unsafe { String::from_utf8_unchecked(Vec::from_raw_parts(abi.ptr, abi.len, abi.len)) };
    host::with(|h| h.ledger(Led::Lift(abi.id)));
    Item { id: abi.id, tag }
}

unsafe fn item_dealloc_lists(src: *mut u8) {
    let abi = unsafe { (src as *const ItemAbi).read() };
    if abi.len > 0 {
        unsafe { std::alloc::dealloc(abi.ptr, Layout::from_size_align_unchecked(abi.len, 1)) };
    }
    host::with(|h| h.ledger(Led::DeallocLists(abi.id)));
}

unsafe fn u8_lower(value: u8, dst: *mut u8) {
    unsafe { *dst = value };
}
unsafe fn u8_lift(src: *mut u8) -> u8 {
    unsafe { *src }
}
unsafe fn u8_dealloc_lists(_: *mut u8) {}

// ---------------------------------------------------------------- intrinsics (per payload only `new` differs)

macro_rules! intrinsics {
    ($m:ident, $elem:expr) => {
        pub mod $m {
            use super::*;
            pub unsafe extern "C" fn stream_new() -> u64 {
                host::with(|h| h.pair_new($elem, false))
            }
            pub unsafe extern "C" fn future_new() -> u64 {
                host::with(|h| h.pair_new($elem, true))
            }
        }
    };
}
intrinsics!(u8_i, Elem::U8);
intrinsics!(item_i, Elem::Item);

pub unsafe extern "C" fn stream_write(s: u32, p: *const u8, n: usize) -> u32 {
    host::with(|h| h.copy_start("stream.write", s, p as usize, n.min(u32::MAX as usize) as u32, Side::Writer, false))
}
pub unsafe extern "C" fn stream_read(s: u32, p: *mut u8, n: usize) -> u32 {
    host::with(|h| h.copy_start("stream.read", s, p as usize, n.min(u32::MAX as usize) as u32, Side::Reader, false))
}
pub unsafe extern "C" fn stream_cancel_write(s: u32) -> u32 {
    host::with(|h| h.copy_cancel("stream.cancel-write", s, Side::Writer, false))
}
pub unsafe extern "C" fn stream_cancel_read(s: u32) -> u32 {
    host::with(|h| h.copy_cancel("stream.cancel-read", s, Side::Reader, false))
}
pub unsafe extern "C" fn stream_drop_writable(s: u32) {
    host::with(|h| h.end_drop("stream.drop-writable", s, Side::Writer, false))
}
pub unsafe extern "C" fn stream_drop_readable(s: u32) {
    host::with(|h| h.end_drop("stream.drop-readable", s, Side::Reader, false))
}
pub unsafe extern "C" fn future_write(s: u32, p: *const u8) -> u32 {
    host::with(|h| h.copy_start("future.write", s, p as usize, 1, Side::Writer, true))
}
pub unsafe extern "C" fn future_read(s: u32, p: *mut u8) -> u32 {
    host::with(|h| h.copy_start("future.read", s, p as usize, 1, Side::Reader, true))
}
pub unsafe extern "C" fn future_cancel_write(s: u32) -> u32 {
    host::with(|h| h.copy_cancel("future.cancel-write", s, Side::Writer, true))
}
pub unsafe extern "C" fn future_cancel_read(s: u32) -> u32 {
    host::with(|h| h.copy_cancel("future.cancel-read", s, Side::Reader, true))
}
pub unsafe extern "C" fn future_drop_writable(s: u32) {
    host::with(|h| h.end_drop("future.drop-writable", s, Side::Writer, true))
}
pub unsafe extern "C" fn future_drop_readable(s: u32) {
    host::with(|h| h.end_drop("future.drop-readable", s, Side::Reader, true))
}

pub static U8_STREAM: StreamVtable<u8> = StreamVtable {
    layout: Layout::new::<u8>(),
    lower: None,
    dealloc_lists: None,
    lift: None,
    start_write: stream_write,
    start_read: stream_read,
    cancel_write: stream_cancel_write,
    cancel_read: stream_cancel_read,
    drop_writable: stream_drop_writable,
    drop_readable: stream_drop_readable,
    new: u8_i::stream_new,
};

pub static ITEM_STREAM: StreamVtable<Item> = StreamVtable {
    layout: Layout::new::<ItemAbi>(),
    lower: Some(item_lower),
    dealloc_lists: Some(item_dealloc_lists),
    lift: Some(item_lift),
    start_write: stream_write,
    start_read: stream_read,
    cancel_write: stream_cancel_write,
    cancel_read: stream_cancel_read,
    drop_writable: stream_drop_writable,
    drop_readable: stream_drop_readable,
    new: item_i::stream_new,
};

pub static U8_FUTURE: FutureVtable<u8> = FutureVtable {
    layout: Layout::new::<u8>(),
    lower: u8_lower,
    dealloc_lists: u8_dealloc_lists,
    lift: u8_lift,
    start_write: future_write,
    start_read: future_read,
    cancel_write: future_cancel_write,
    cancel_read: future_cancel_read,
    drop_writable: future_drop_writable,
    drop_readable: future_drop_readable,
    new: u8_i::future_new,
};

pub static ITEM_FUTURE: FutureVtable<Item> = FutureVtable {
    layout: Layout::new::<ItemAbi>(),
    lower: item_lower,
    dealloc_lists: item_dealloc_lists,
    lift: item_lift,
    start_write: future_write,
    start_read: future_read,
    cancel_write: future_cancel_write,
    cancel_read: future_cancel_read,
    drop_writable: future_drop_writable,
    drop_readable: future_drop_readable,
    new: item_i::future_new,
};

/// Payload abstraction used by the generic scenario machinery.
pub trait Pl: Sized + 'static {
    const ELEM: Elem;
    fn make(id: u32) -> Self;
    fn id(&self) -> u32;
    fn stream_vt() -> &'static StreamVtable<Self>;
    fn future_vt() -> &'static FutureVtable<Self>;
    fn default_value() -> Self;
}
pub const DEFAULT_ID: u32 = 215;
pub const DEFAULT_ITEM_BASE: u32 = 900_000;
thread_local! {
    static NEXT_DEFAULT: core::cell::Cell<u32> = core::cell::Cell::new(0);
}
pub fn reset_defaults() {
    NEXT_DEFAULT.with(|c| c.set(0));
}
/// Ids of default values (written when a `FutureWriter` is dropped unwritten).
pub fn is_default_id(id: u32) -> bool {
    id == DEFAULT_ID || id >= DEFAULT_ITEM_BASE
}
impl Pl for u8 {
    const ELEM: Elem = Elem::U8;
    fn make(id: u32) -> u8 {
        id as u8
    }
    fn id(&self) -> u32 {
        *self as u32
    }
    fn stream_vt() -> &'static StreamVtable<u8> {
        &U8_STREAM
    }
    fn future_vt() -> &'static FutureVtable<u8> {
        &U8_FUTURE
    }
    fn default_value() -> u8 {
        DEFAULT_ID as u8
    }
}
impl Pl for Item {
    const ELEM: Elem = Elem::Item;
    fn make(id: u32) -> Item {
        Item::new(id)
    }
    fn id(&self) -> u32 {
        self.id
    }
    fn stream_vt() -> &'static StreamVtable<Item> {
        &ITEM_STREAM
    }
    fn future_vt() -> &'static FutureVtable<Item> {
        &ITEM_FUTURE
    }
    fn default_value() -> Item {
        let k = NEXT_DEFAULT.with(|c| {
            c.set(c.get() + 1);
            c.get()
        });
        Item::new(DEFAULT_ITEM_BASE + k)
    }
}
