//! Generic guest program: a choice-driven walk over the low-level public API
//! (`write`, `write_buf`, `read`, `FutureWriter::write`, `FutureReader`
//! `into_future`, `cancel`, drop of operations and of ends, yielding and
//! suspending) on a few stream/future ends.  Every guest-side decision is a
//! choice point, so bounded-exhaustive enumeration of the choice tree covers
//! all interleavings of guest actions with host decisions up to the depth.
//!
//! Everything the body observes is reported to the host log as [`Gv`] facts;
//! it never judges anything itself.
use crate::host::{self, Gv, Peer, Side};
use crate::payload::Pl;
use crate::sched::choose;
use core::future::{Future, IntoFuture};
use core::pin::Pin;
use core::task::{Context, Poll};
use std::cell::Cell;
use wit_bindgen::rt::async_support::{AbiBuffer, StreamVtable};
use wit_bindgen::{FutureRead, FutureReader, FutureWrite, FutureWriteCancel, FutureWriter, StreamRead, StreamReader, StreamResult, StreamWrite, StreamWriter};

thread_local! {
    static SLOT: Cell<u32> = Cell::new(0);
    static NEXT_ID: Cell<u32> = Cell::new(0);
}
pub fn reset_counters() {
    SLOT.with(|s| s.set(0));
    NEXT_ID.with(|s| s.set(0));
}
pub fn new_slot() -> u32 {
    SLOT.with(|s| {
        s.set(s.get() + 1);
        s.get()
    })
}
/// Fresh value id, unique within the execution (u8 payloads: 1..=200).
pub fn fresh_id<T: Pl>() -> u32 {
    NEXT_ID.with(|s| {
        let v = s.get();
        s.set(v + 1);
        if T::ELEM == host::Elem::U8 {
            1 + (v % 200)
        } else {
            1 + v
        }
    })
}
pub fn report(gv: Gv) {
    // the log must not own guest-mode allocations (they would look leaked)
    let copy = {
        let _g = crate::alloc::host_mode();
        gv.clone()
    };
    drop(gv);
    host::with(|h| h.guest(copy));
}
pub fn fact(key: &'static str, a: u64, b: u64, ids: Vec<u32>) {
    report(Gv::Fact { key, a, b, ids });
}

#[derive(Clone, Debug)]
pub struct PeerCfg {
    pub acts: u32,
    pub items: u32,
    pub may_drop: bool,
}
impl PeerCfg {
    pub fn peer(&self, side: Side) -> Peer {
        Peer { side, acts_left: self.acts, items_left: self.items, may_drop: self.may_drop }
    }
}

#[derive(Clone, Debug)]
pub enum EpSpec {
    /// guest creates the stream, keeps the writer, host gets the reader
    StreamWriter(PeerCfg),
    /// host creates the stream and hands the reader to the guest
    StreamReader(PeerCfg),
    /// both ends stay in this task (numeric payloads only)
    StreamPair,
    FutureWriter(PeerCfg),
    FutureReader(PeerCfg),
    FuturePair,
}

pub type Abuf<T> = AbiBuffer<&'static StreamVtable<T>>;

pub enum Ep<T: Pl> {
    SW { w: Option<Box<StreamWriter<T>>>, handle: u32, stash: Vec<T>, buf: Option<Abuf<T>>, buf_ids: Vec<u32>, last_slot: u32 },
    SR { r: Option<Box<StreamReader<T>>>, handle: u32, rbuf: Option<Vec<T>>, rids: Vec<u32> },
    FW { w: Option<FutureWriter<T>>, handle: u32, val: Option<T> },
    FR { r: Option<FutureReader<T>>, handle: u32 },
}

enum OpK<T: Pl> {
    SW(Pin<Box<StreamWrite<'static, T>>>),
    SR(Pin<Box<StreamRead<'static, T>>>),
    FW(Pin<Box<FutureWrite<T>>>),
    FR(Pin<Box<FutureRead<T>>>),
}

struct OpSlot<T: Pl> {
    slot: u32,
    ep: usize,
    k: OpK<T>,
    polled: bool,
    pending: bool,
    handle: u32,
    ids: Vec<u32>,
}

pub struct Machine<T: Pl> {
    specs: Vec<EpSpec>,
    eps: Vec<Ep<T>>,
    ops: Vec<OpSlot<T>>,
    busy: Vec<bool>,
    /// the end reported `Dropped`: no further operation may be started on it
    closed: Vec<bool>,
    actions_left: u32,
    set_up: bool,
    host_id_base: u32,
    /// `Yield` is offered only once the task has a waitable set (see `no_early_yield`)
    pub no_early_yield: bool,
    /// do not start an operation on an end the host already considers DONE
    /// (the runtime forgets an unobserved `DROPPED|0`; under `block_on` that known
    /// defect would end the whole process inside the synchronous wait)
    pub avoid_done_ends: bool,
    ever_pending: bool,
}

#[derive(Copy, Clone, Debug)]
enum Act {
    Finish,
    Suspend,
    Poll(usize),
    NewOp(usize),
    Cancel(usize),
    DropOp(usize),
    DropEp(usize),
    Yield,
}

fn sr_text(r: StreamResult) -> String {
    match r {
        StreamResult::Complete(n) => format!("complete:{n}"),
        StreamResult::Dropped => "dropped".into(),
        StreamResult::Cancelled => "cancelled".into(),
    }
}

impl<T: Pl> Machine<T> {
    pub fn new(specs: Vec<EpSpec>, max_actions: u32, host_id_base: u32) -> Machine<T> {
        Machine { specs, eps: vec![], ops: vec![], busy: vec![], closed: vec![], actions_left: max_actions, set_up: false, host_id_base, no_early_yield: false, avoid_done_ends: false, ever_pending: false }
    }

    fn setup(&mut self) {
        self.set_up = true;
        let specs = std::mem::take(&mut self.specs);
        for (i, s) in specs.iter().enumerate() {
            match s {
                EpSpec::StreamWriter(p) => {
                    let (w, r) = unsafe { wit_bindgen::rt::async_support::stream_new::<T>(T::stream_vt()) };
                    let rh = r.take_handle();
                    drop(r);
                    let sh = host::with(|h| h.give_reader_to_host(rh, p.peer(Side::Reader)));
                    let handle = w.handle();
                    fact("ep-stream-writer", handle as u64, sh.unwrap_or(usize::MAX) as u64, vec![]);
                    self.eps.push(Ep::SW { w: Some(Box::new(w)), handle, stash: vec![], buf: None, buf_ids: vec![], last_slot: 0 });
                }
                EpSpec::StreamReader(p) => {
                    let base = self.host_id_base + 100 * i as u32;
                    let h = host::with(|h| h.host_writer_new(T::ELEM, false, p.peer(Side::Writer), base));
                    let r = StreamReader::<T>::new(h, T::stream_vt());
                    fact("ep-stream-reader", h as u64, 0, vec![]);
                    self.eps.push(Ep::SR { r: Some(Box::new(r)), handle: h, rbuf: None, rids: vec![] });
                }
                EpSpec::StreamPair => {
                    let (w, r) = unsafe { wit_bindgen::rt::async_support::stream_new::<T>(T::stream_vt()) };
                    let (wh, rh) = (w.handle(), r.handle());
                    fact("ep-stream-pair", wh as u64, rh as u64, vec![]);
                    self.eps.push(Ep::SW { w: Some(Box::new(w)), handle: wh, stash: vec![], buf: None, buf_ids: vec![], last_slot: 0 });
                    self.eps.push(Ep::SR { r: Some(Box::new(r)), handle: rh, rbuf: None, rids: vec![] });
                }
                EpSpec::FutureWriter(p) => {
                    let (w, r) = unsafe { wit_bindgen::rt::async_support::future_new::<T>(T::default_value, T::future_vt()) };
                    let rh = r.take_handle();
                    drop(r);
                    let sh = host::with(|h| h.give_reader_to_host(rh, p.peer(Side::Reader)));
                    let handle = writer_handle(&w);
                    fact("ep-future-writer", handle as u64, sh.unwrap_or(usize::MAX) as u64, vec![]);
                    self.eps.push(Ep::FW { w: Some(w), handle, val: None });
                }
                EpSpec::FutureReader(p) => {
                    let base = self.host_id_base + 100 * i as u32;
                    let h = host::with(|h| h.host_writer_new(T::ELEM, true, p.peer(Side::Writer), base));
                    let r = unsafe { FutureReader::<T>::new(h, T::future_vt()) };
                    fact("ep-future-reader", h as u64, 0, vec![]);
                    self.eps.push(Ep::FR { r: Some(r), handle: h });
                }
                EpSpec::FuturePair => {
                    let (w, r) = unsafe { wit_bindgen::rt::async_support::future_new::<T>(T::default_value, T::future_vt()) };
                    let wh = writer_handle(&w);
                    let rh = reader_handle(&r);
                    fact("ep-future-pair", wh as u64, rh as u64, vec![]);
                    self.eps.push(Ep::FW { w: Some(w), handle: wh, val: None });
                    self.eps.push(Ep::FR { r: Some(r), handle: rh });
                }
            }
        }
        self.busy = vec![false; self.eps.len()];
        self.closed = vec![false; self.eps.len()];
    }

    fn host_says_done(&self, e: usize) -> bool {
        let h = match &self.eps[e] {
            Ep::SW { handle, .. } | Ep::SR { handle, .. } => *handle,
            _ => return false,
        };
        host::with(|x| x.end_is_done(h))
    }

    fn ep_alive(&self, i: usize) -> bool {
        match &self.eps[i] {
            Ep::SW { w, .. } => w.is_some(),
            Ep::SR { r, .. } => r.is_some(),
            Ep::FW { w, .. } => w.is_some(),
            Ep::FR { r, .. } => r.is_some(),
        }
    }

    fn new_op(&mut self, e: usize) {
        let slot = new_slot();
        let (k, handle, kind, ids) = match &mut self.eps[e] {
            Ep::SW { w, handle, stash, buf, buf_ids, last_slot } => {
                let wref: &'static mut StreamWriter<T> = unsafe { &mut *(&mut **w.as_mut().unwrap() as *mut StreamWriter<T>) };
                *last_slot = slot;
                if let Some(b) = buf.take() {
                    // resume the partially written buffer
                    let ids = buf_ids.clone();
                    (OpK::SW(Box::pin(wref.write_buf(b))), *handle, "stream.write_buf", ids)
                } else {
                    // returned items first (order is kept), then fresh ones; 0..=3 fresh
                    let fresh = [2usize, 1, 3, 0][choose(4, "write-len")];
                    let mut v: Vec<T> = std::mem::take(stash);
                    let mut new_ids = vec![];
                    for _ in 0..fresh {
                        let id = fresh_id::<T>();
                        new_ids.push(id);
                        v.push(T::make(id));
                    }
                    if !new_ids.is_empty() {
                        fact("handed", *handle as u64, 0, new_ids);
                    }
                    let ids: Vec<u32> = v.iter().map(|x| x.id()).collect();
                    *buf_ids = ids.clone();
                    (OpK::SW(Box::pin(wref.write(v))), *handle, "stream.write", ids)
                }
            }
            Ep::SR { r, handle, rbuf, rids } => {
                let rref: &'static mut StreamReader<T> = unsafe { &mut *(&mut **r.as_mut().unwrap() as *mut StreamReader<T>) };
                let cap = [2usize, 1, 3, 0][choose(4, "read-cap")];
                if rbuf.is_none() {
                    rids.clear();
                }
                let mut v = rbuf.take().unwrap_or_default();
                if v.capacity() - v.len() < cap {
                    v.reserve_exact(cap);
                }
                (OpK::SR(Box::pin(rref.read(v))), *handle, "stream.read", vec![])
            }
            Ep::FW { w, handle, val } => {
                let w = w.take().unwrap();
                let v = match val.take() {
                    Some(v) => v,
                    None => {
                        let id = fresh_id::<T>();
                        fact("handed", *handle as u64, 1, vec![id]);
                        T::make(id)
                    }
                };
                let ids = vec![v.id()];
                (OpK::FW(Box::pin(w.write(v))), *handle, "future.write", ids)
            }
            Ep::FR { r, handle } => {
                let r = r.take().unwrap();
                (OpK::FR(Box::pin(r.into_future())), *handle, "future.read", vec![])
            }
        };
        report(Gv::OpNew { slot, handle, kind, ids: ids.clone() });
        self.busy[e] = true;
        self.ops.push(OpSlot { slot, ep: e, k, polled: false, pending: false, handle, ids });
    }

    /// Feed a finished stream-write result back into the endpoint.
    fn sw_done(&mut self, e: usize, res: StreamResult, buf: Abuf<T>) {
        if res == StreamResult::Dropped {
            self.closed[e] = true;
        }
        if let Ep::SW { stash, buf: slot_buf, buf_ids, last_slot, .. } = &mut self.eps[e] {
            if let StreamResult::Complete(n) = res {
                let n = n.min(buf_ids.len());
                buf_ids.drain(..n);
            }
            // keep the AbiBuffer for write_buf, or take the values back
            if buf.remaining() > 0 && choose(2, "keep-abi-buffer") == 0 {
                *slot_buf = Some(buf);
            } else {
                let v = buf.into_vec();
                fact("into_vec", *last_slot as u64, 0, v.iter().map(|x| x.id()).collect());
                *stash = v;
                buf_ids.clear();
            }
        }
    }

    fn sr_done(&mut self, e: usize, slot: u32, how: &'static str, res: StreamResult, v: Vec<T>) {
        if res == StreamResult::Dropped {
            self.closed[e] = true;
        }
        if let Ep::SR { rbuf, rids, .. } = &mut self.eps[e] {
            let all: Vec<u32> = v.iter().map(|x| x.id()).collect();
            let keep = rids.len().min(all.len());
            if all[..keep] != rids[..] {
                fact("read-buffer-prefix-changed", slot as u64, 0, all.clone());
            }
            let back = all[keep..].to_vec();
            report(Gv::OpResult { slot, how, what: sr_text(res), back });
            *rids = all;
            // sometimes start over with an empty buffer
            if choose(2, "keep-read-buffer") == 0 {
                *rbuf = Some(v);
            } else {
                drop(v);
                rids.clear();
            }
        }
    }

    fn poll_op(&mut self, i: usize, cx: &mut Context<'_>) {
        let before = host::with(|h| h.ops.len());
        let first = !self.ops[i].polled;
        self.ops[i].polled = true;
        let slot = self.ops[i].slot;
        let e = self.ops[i].ep;
        let handle = self.ops[i].handle;
        enum Out<T: Pl> {
            Pending,
            SW(StreamResult, Abuf<T>),
            SR(StreamResult, Vec<T>),
            FW(Result<(), T>),
            FR(T),
        }
        let out = match &mut self.ops[i].k {
            OpK::SW(f) => match f.as_mut().poll(cx) {
                Poll::Ready((r, b)) => Out::SW(r, b),
                Poll::Pending => Out::Pending,
            },
            OpK::SR(f) => match f.as_mut().poll(cx) {
                Poll::Ready((r, v)) => Out::SR(r, v),
                Poll::Pending => Out::Pending,
            },
            OpK::FW(f) => match f.as_mut().poll(cx) {
                Poll::Ready(Ok(())) => Out::FW(Ok(())),
                Poll::Ready(Err(e)) => Out::FW(Err(e.value)),
                Poll::Pending => Out::Pending,
            },
            OpK::FR(f) => match f.as_mut().poll(cx) {
                Poll::Ready(v) => Out::FR(v),
                Poll::Pending => Out::Pending,
            },
        };
        if first {
            let rec = host::with(|h| (before..h.ops.len()).find(|r| h.ops[*r].handle == handle));
            report(Gv::OpStarted { slot, rec });
        }
        match out {
            Out::Pending => {
                self.ops[i].pending = true;
                self.ever_pending = true;
                return;
            }
            Out::SW(r, b) => {
                report(Gv::OpResult { slot, how: "poll", what: sr_text(r), back: vec![] });
                self.remove_op(i);
                self.sw_done(e, r, b);
            }
            Out::SR(r, v) => {
                self.remove_op(i);
                self.sr_done(e, slot, "poll", r, v);
            }
            Out::FW(r) => {
                let what = match &r {
                    Ok(()) => "written".to_string(),
                    Err(v) => format!("dropped:{}", v.id()),
                };
                report(Gv::OpResult { slot, how: "poll", what, back: vec![] });
                self.remove_op(i);
                drop(r);
            }
            Out::FR(v) => {
                report(Gv::OpResult { slot, how: "poll", what: format!("value:{}", v.id()), back: vec![v.id()] });
                self.remove_op(i);
                drop(v);
            }
        }
    }

    fn remove_op(&mut self, i: usize) {
        let op = self.ops.remove(i);
        self.busy[op.ep] = false;
        drop(op);
    }

    fn cancel_op(&mut self, i: usize) {
        let before = host::with(|h| h.ops.len());
        let slot = self.ops[i].slot;
        let e = self.ops[i].ep;
        let first = !self.ops[i].polled;
        self.ops[i].polled = true;
        if first {
            let _ = before;
            report(Gv::OpStarted { slot, rec: None });
        }
        let mut op = self.ops.remove(i);
        self.busy[e] = false;
        match &mut op.k {
            OpK::SW(f) => {
                let (r, b) = f.as_mut().cancel();
                report(Gv::OpResult { slot, how: "cancel", what: sr_text(r), back: vec![] });
                drop(op);
                self.sw_done(e, r, b);
            }
            OpK::SR(f) => {
                let (r, v) = f.as_mut().cancel();
                drop(op);
                self.sr_done(e, slot, "cancel", r, v);
            }
            OpK::FW(f) => {
                let what = match f.as_mut().cancel() {
                    FutureWriteCancel::AlreadySent => "written".to_string(),
                    FutureWriteCancel::Dropped(v) => format!("dropped:{}", v.id()),
                    FutureWriteCancel::Cancelled(v, w) => {
                        let s = format!("cancelled:{}", v.id());
                        if let Ep::FW { w: slot_w, val, .. } = &mut self.eps[e] {
                            *slot_w = Some(w);
                            // write the same value again later, or let it go
                            if choose(2, "keep-future-value") == 0 {
                                *val = Some(v);
                            }
                        }
                        s
                    }
                };
                report(Gv::OpResult { slot, how: "cancel", what, back: vec![] });
                drop(op);
            }
            OpK::FR(f) => {
                let what = match f.as_mut().cancel() {
                    Ok(v) => format!("value:{}", v.id()),
                    Err(r) => {
                        if let Ep::FR { r: slot_r, .. } = &mut self.eps[e] {
                            *slot_r = Some(r);
                        }
                        "cancelled".to_string()
                    }
                };
                report(Gv::OpResult { slot, how: "cancel", what, back: vec![] });
                drop(op);
            }
        }
    }

    fn drop_op(&mut self, i: usize) {
        let op = self.ops.remove(i);
        self.busy[op.ep] = false;
        report(Gv::OpDropped { slot: op.slot });
        drop(op);
    }

    fn drop_ep(&mut self, e: usize) {
        match &mut self.eps[e] {
            Ep::SW { w, stash, buf, last_slot, handle, .. } => {
                if let Some(b) = buf.take() {
                    if choose(2, "final-into-vec") == 0 {
                        let v = b.into_vec();
                        fact("into_vec", *last_slot as u64, 0, v.iter().map(|x| x.id()).collect());
                        drop(v);
                    } else {
                        drop(b);
                    }
                }
                stash.clear();
                fact("drop-end", *handle as u64, 0, vec![]);
                *w = None;
            }
            Ep::SR { r, rbuf, handle, .. } => {
                *rbuf = None;
                fact("drop-end", *handle as u64, 0, vec![]);
                *r = None;
            }
            Ep::FW { w, val, handle } => {
                *val = None;
                fact("drop-end", *handle as u64, 1, vec![]);
                *w = None;
            }
            Ep::FR { r, handle } => {
                fact("drop-end", *handle as u64, 0, vec![]);
                *r = None;
            }
        }
    }

    fn finish(&mut self) {
        // operations first (they borrow their ends), in a chosen order
        while !self.ops.is_empty() {
            let i = if self.ops.len() > 1 { choose(self.ops.len(), "finish-op-order") } else { 0 };
            self.drop_op(i);
        }
        let n = self.eps.len();
        let rev = n > 1 && choose(2, "finish-end-order") == 1;
        for k in 0..n {
            let e = if rev { n - 1 - k } else { k };
            if self.ep_alive(e) || matches!(&self.eps[e], Ep::SW { buf: Some(_), .. }) {
                self.drop_ep(e);
            }
        }
        self.eps.clear();
    }
}

fn writer_handle<T: Pl>(w: &FutureWriter<T>) -> u32 {
    // `FutureWriter` exposes its handle only through `Debug`
    let s = format!("{w:?}");
    s.chars().filter(|c| c.is_ascii_digit()).collect::<String>().parse().unwrap_or(0)
}
fn reader_handle<T: Pl>(r: &FutureReader<T>) -> u32 {
    let s = format!("{r:?}");
    s.chars().filter(|c| c.is_ascii_digit()).collect::<String>().parse().unwrap_or(0)
}

impl<T: Pl> Future for Machine<T> {
    type Output = ();
    fn poll(self: Pin<&mut Self>, cx: &mut Context<'_>) -> Poll<()> {
        let me = unsafe { self.get_unchecked_mut() };
        if !me.set_up {
            me.setup();
        }
        // a wake-up may have consumed the registration of any operation: only
        // operations polled `Pending` during *this* poll count for `Suspend`
        for o in me.ops.iter_mut() {
            o.pending = false;
        }
        loop {
            if me.actions_left == 0 {
                me.finish();
                return Poll::Ready(());
            }
            me.actions_left -= 1;
            let mut acts = vec![Act::Finish];
            if me.ops.iter().any(|o| o.pending) {
                acts.push(Act::Suspend);
            }
            for i in 0..me.ops.len() {
                acts.push(Act::Poll(i));
            }
            for e in 0..me.eps.len() {
                if me.ep_alive(e) && !me.busy[e] && !me.closed[e] && !(me.avoid_done_ends && me.host_says_done(e)) {
                    acts.push(Act::NewOp(e));
                }
            }
            for i in 0..me.ops.len() {
                acts.push(Act::Cancel(i));
            }
            for i in 0..me.ops.len() {
                acts.push(Act::DropOp(i));
            }
            for e in 0..me.eps.len() {
                if me.ep_alive(e) && !me.busy[e] {
                    acts.push(Act::DropEp(e));
                }
            }
            if !me.no_early_yield || me.ever_pending {
                acts.push(Act::Yield);
            }
            match acts[choose(acts.len(), "guest-act")] {
                Act::Finish => {
                    me.finish();
                    return Poll::Ready(());
                }
                Act::Suspend => {
                    // pending operations are registered with this task; their
                    // events wake the root future
                    return Poll::Pending;
                }
                Act::Poll(i) => me.poll_op(i, cx),
                Act::NewOp(e) => me.new_op(e),
                Act::Cancel(i) => me.cancel_op(i),
                Act::DropOp(i) => me.drop_op(i),
                Act::DropEp(e) => me.drop_ep(e),
                Act::Yield => {
                    cx.waker().wake_by_ref();
                    return Poll::Pending;
                }
            }
        }
    }
}

impl<T: Pl> Drop for Machine<T> {
    fn drop(&mut self) {
        // host cancelled the task (or the body finished): operations must go
        // before the ends they borrow
        self.ops.clear();
        self.eps.clear();
    }
}
