//! Command-line runner shared by the c18/c19/c20 binaries (and reusable by
//! later checks): bounded-exhaustive + random exploration of every scenario of
//! a property, replay of one choice vector, report accumulation.
use crate::driver::{self, RunEnd};
use crate::host::{self, Host};
use crate::monitors::{self, Ctx, Finding};
use crate::scen::{self, Scenario};
use crate::sched;
use serde_json::{json, Value};
use std::collections::{BTreeMap, BTreeSet};
use vkit::{Args, Report, Rng};

pub const CHOICE_BUDGET: usize = 160;

thread_local! {
    /// (runner, current scenario, report path) for the emergency exit out of a
    /// synchronous wait that can never return
    static EMERGENCY: std::cell::Cell<(usize, usize, usize)> = std::cell::Cell::new((0, 0, 0));
}
// the long-lived runner and report path are reachable from statics (so that a
// process-level leak check does not count them)
static RUNNER_BOX: std::sync::atomic::AtomicPtr<Runner> = std::sync::atomic::AtomicPtr::new(std::ptr::null_mut());
static OUT_BOX: std::sync::atomic::AtomicPtr<String> = std::sync::atomic::AtomicPtr::new(std::ptr::null_mut());

fn leak_runner(r: Runner) -> &'static mut Runner {
    let p = Box::into_raw(Box::new(r));
    RUNNER_BOX.store(p, std::sync::atomic::Ordering::Relaxed);
    unsafe { &mut *p }
}
fn leak_string(s: String) -> &'static String {
    let p = Box::into_raw(Box::new(s));
    OUT_BOX.store(p, std::sync::atomic::Ordering::Relaxed);
    unsafe { &*p }
}

/// Called (instead of returning) when the guest sits in a synchronous
/// `waitable-set.wait` that can never be answered: record the host's trap as
/// this execution's finding, write the report collected so far and leave.
pub fn emergency_finish() -> ! {
    let _g = crate::alloc::host_mode();
    let (r, sc, out) = EMERGENCY.with(|e| e.get());
    if r == 0 || sc == 0 || out == 0 {
        crate::crash::emergency(1001);
    }
    // SAFETY: set by `main_for`/`execute` from live objects; this path never returns
    let runner: &mut Runner = unsafe { &mut *(r as *mut Runner) };
    let sc: &Scenario = unsafe { &*(sc as *const Scenario) };
    let out_path: &String = unsafe { &*(out as *const String) };
    let taken = sched::end();
    let host = host::take();
    let end = RunEnd::default();
    let cx = Ctx { scenario: sc.name, may_stick: sc.cfg.may_stick, leak: None, props: sc.props };
    let findings = monitors::check(&host, &end, &cx);
    let eo = ExecOut { vector: sched::vector(&taken), labels: taken.iter().map(|t| t.label).collect(), fanout: taken.iter().map(|t| t.n).collect(), trace_hash: crate::trace::hash(&host), findings, host, end, clamped: 0 };
    runner.account(sc, eo);
    runner.report.inconclusive("a shard ended early: the guest was left in a synchronous wait that can never return (recorded as a finding)");
    let stats = std::mem::replace(&mut runner.stats, Stats::new());
    let report = std::mem::take(&mut runner.report);
    Runner { prop: runner.prop, report, stats, reuse: runner.reuse, deadline: None }.finish(out_path);
    std::process::exit(0)
}

pub struct ExecOut {
    pub vector: Vec<u32>,
    pub labels: Vec<&'static str>,
    pub fanout: Vec<u32>,
    pub trace_hash: u64,
    pub findings: Vec<Finding>,
    pub host: Host,
    pub end: RunEnd,
    pub clamped: usize,
}

/// One execution of `sc` under the given choice policy.
pub fn execute(sc: &Scenario, prefix: Vec<u32>, zero_until: usize, tail_seed: u64, reuse: bool) -> ExecOut {
    let _g = crate::alloc::host_mode();
    crate::alloc::maintain();
    host::reset(reuse);
    crate::machine::reset_counters();
    crate::payload::reset_defaults();
    crate::v1exec::reset();
    crate::subcall::reset();
    crate::work::reset();
    crate::crash::begin(sc.name);
    EMERGENCY.with(|e| {
        let mut v = e.get();
        v.1 = sc as *const Scenario as usize;
        e.set(v);
    });
    if announce() {
        eprintln!("RT-HOST-EXEC {}", json!({"scenario": sc.name, "prefix": prefix, "zero_until": zero_until, "tail_seed": tail_seed.to_string(), "reuse_handles": reuse}));
    }
    sched::begin(prefix, zero_until, tail_seed, CHOICE_BUDGET);
    let base = crate::alloc::live();
    let mut end = RunEnd::default();
    match driver::run_guest(0, sc.build) {
        Ok(defs) => {
            end = driver::run(defs, &sc.cfg);
            if let Err(p) = driver::run_guest(0, scen::cleanup) {
                if end.panic.is_none() {
                    end.panic = Some(p);
                }
            }
        }
        Err(p) => end.panic = Some(p),
    }
    let after = crate::alloc::live();
    if std::env::var("RT_HOST_DEBUG_LEAK").is_ok() {
        eprintln!("live blocks after run: {:?}", crate::alloc::live_sizes().iter().map(|x| x.1).collect::<Vec<_>>());
    }
    let clamped = sched::clamped();
    let taken = sched::end();
    let host = host::take();
    let leak = if crate::alloc::tracking() && !crate::alloc::overflowed() { Some((after.0 as i64 - base.0 as i64, after.1 as i64 - base.1 as i64)) } else { None };
    let cx = Ctx { scenario: sc.name, may_stick: sc.cfg.may_stick, leak, props: sc.props };
    let findings = monitors::check(&host, &end, &cx);
    ExecOut { vector: sched::vector(&taken), labels: taken.iter().map(|t| t.label).collect(), fanout: taken.iter().map(|t| t.n).collect(), trace_hash: crate::trace::hash(&host), findings, host, end, clamped }
}

/// Announce every execution on stderr (Miri / valgrind shards: the last line
/// before a tool report identifies the failing execution).
pub fn announce() -> bool {
    use std::sync::OnceLock;
    static A: OnceLock<bool> = OnceLock::new();
    *A.get_or_init(|| std::env::var("RT_HOST_ANNOUNCE").is_ok())
}

pub struct Stats {
    pub execs: u64,
    pub vectors: BTreeSet<u64>,
    pub traces: BTreeSet<u64>,
    pub codeseqs: BTreeSet<String>,
    pub calls: BTreeMap<&'static str, u64>,
    pub events: u64,
    pub deliveries: u64,
    pub copies: u64,
    pub snapshots: u64,
    pub cancels_injected: u64,
    pub stuck_expected: u64,
    pub per_scenario: BTreeMap<&'static str, u64>,
    pub exhaustive_complete: BTreeMap<&'static str, bool>,
    pub foreign: BTreeMap<String, u64>,
    pub labels: BTreeMap<&'static str, u64>,
    pub results: BTreeMap<String, u64>,
    /// evaluations of the individual oracle rules (C21-C23) and host-side checks
    pub checks: BTreeMap<&'static str, u64>,
    /// (status sequence the guest saw) -> count, async import calls (C21)
    pub sub_paths: BTreeMap<String, u64>,
}

impl Stats {
    pub fn new() -> Stats {
        Stats { execs: 0, vectors: BTreeSet::new(), traces: BTreeSet::new(), codeseqs: BTreeSet::new(), calls: BTreeMap::new(), events: 0, deliveries: 0, copies: 0, snapshots: 0, cancels_injected: 0, stuck_expected: 0, per_scenario: BTreeMap::new(), exhaustive_complete: BTreeMap::new(), foreign: BTreeMap::new(), labels: BTreeMap::new(), results: BTreeMap::new(), checks: BTreeMap::new(), sub_paths: BTreeMap::new() }
    }
}

pub struct Runner {
    pub prop: &'static str,
    pub report: Report,
    pub stats: Stats,
    pub reuse: bool,
    pub deadline: Option<std::time::Instant>,
}

fn replay_json(sc: &Scenario, out: &ExecOut, reuse: bool) -> Value {
    let trace = crate::trace::text(&out.host);
    let n = trace.len();
    let shown: Vec<&String> = if n > 160 { trace[n - 160..].iter().collect() } else { trace.iter().collect() };
    json!({
        "scenario": sc.name,
        "vector": out.vector,
        "labels": out.labels,
        "reuse_handles": reuse,
        "features": features(),
        "trace": shown,
    })
}

pub fn features() -> Vec<&'static str> {
    let mut v = vec![];
    if cfg!(feature = "async-spawn") {
        v.push("async-spawn");
    }
    if cfg!(feature = "inter-task-wakeup") {
        v.push("inter-task-wakeup");
    }
    if cfg!(feature = "futures-stream") {
        v.push("futures-stream");
    }
    if cfg!(debug_assertions) {
        v.push("debug-assertions");
    }
    v
}

impl Runner {
    pub fn new(prop: &'static str, rule: &str) -> Runner {
        Runner { prop, report: Report::new(rule), stats: Stats::new(), reuse: false, deadline: None }
    }

    /// Account for one execution; returns true if it produced a violation of
    /// this runner's property.
    pub fn account(&mut self, sc: &Scenario, out: ExecOut) -> bool {
        let st = &mut self.stats;
        st.execs += 1;
        self.report.eval();
        *st.per_scenario.entry(sc.name).or_insert(0) += 1;
        let vh = sched::hash_vector(&out.vector) ^ vkit::hash64(sc.name.as_bytes());
        if st.vectors.len() < 2_000_000 {
            st.vectors.insert(vh);
        }
        let th = out.trace_hash ^ vkit::hash64(sc.name.as_bytes());
        let new_trace = st.traces.len() < 2_000_000 && st.traces.insert(th);
        if new_trace {
            self.report.distinct(&format!("{}:{:016x}", sc.name, out.trace_hash));
            if st.codeseqs.len() < 5000 {
                st.codeseqs.insert(format!("{}|{}", sc.name, crate::trace::code_sequences(&out.host)));
            }
        }
        for (k, v) in &out.host.calls {
            *st.calls.entry(k).or_insert(0) += v;
        }
        for (k, v) in &out.host.checks {
            *st.checks.entry(k).or_insert(0) += v;
        }
        for (k, v) in crate::monitors2::take_counts() {
            *st.checks.entry(k).or_insert(0) += v;
        }
        for r in &out.host.subcalls {
            let mut k = String::new();
            for (s, via) in &r.seen {
                if !k.is_empty() {
                    k.push('>');
                }
                k.push_str(match *s {
                    0 => "starting",
                    1 => "started",
                    2 => "returned",
                    3 => "started-cancelled",
                    4 => "returned-cancelled",
                    _ => "?",
                });
                k.push('(');
                k.push_str(via);
                k.push(')');
            }
            *st.sub_paths.entry(k).or_insert(0) += 1;
        }
        if cfg!(miri) {
            // interpretation is slow: keep the bookkeeping minimal
            st.events += out.host.log.len() as u64;
            return self.judge(sc, out, new_trace);
        }
        for l in &out.labels {
            *st.labels.entry(l).or_insert(0) += 1;
        }
        st.events += out.host.log.len() as u64;
        for ev in &out.host.log {
            match ev {
                host::Ev::Deliver { .. } => st.deliveries += 1,
                host::Ev::Copy { .. } => st.copies += 1,
                host::Ev::Snapshot { .. } => st.snapshots += 1,
                host::Ev::Guest { gv: host::Gv::OpResult { what, how, .. }, .. } => {
                    let k = format!("{how}:{}", what.split(':').next().unwrap_or(""));
                    *st.results.entry(k).or_insert(0) += 1;
                }
                _ => {}
            }
        }
        st.cancels_injected += out.end.cancelled.len() as u64;
        if !out.end.stuck.is_empty() && sc.cfg.may_stick {
            st.stuck_expected += 1;
        }
        if self.report.samples.len() < self.report.max_samples && new_trace && out.host.log.len() > 25 && out.findings.is_empty() {
            let trace = crate::trace::text(&out.host);
            self.report.sample(json!({"scenario": sc.name, "vector": out.vector, "events": trace.len(), "trace_head": trace.iter().take(45).collect::<Vec<_>>()}));
        }
        self.judge(sc, out, new_trace)
    }

    fn judge(&mut self, sc: &Scenario, out: ExecOut, _new_trace: bool) -> bool {
        let mut violated = false;
        for fd in &out.findings {
            if fd.prop == self.prop || fd.prop == "any" {
                violated = true;
                if !self.report.has_violation(&fd.sig) {
                    let rj = replay_json(sc, &out, self.reuse);
                    self.report.violation(&fd.sig, &format!("[{}] {}", sc.name, fd.what), rj);
                }
            } else if fd.prop == "inconclusive" {
                self.report.inconclusive(&format!("{}: {}", sc.name, fd.sig));
            } else if fd.prop == "harness" {
                self.report.inconclusive(&format!("harness problem in {}: {} ({})", sc.name, fd.sig, fd.what.chars().take(300).collect::<String>()));
            } else {
                *self.stats.foreign.entry(format!("{}:{}", fd.prop, fd.sig)).or_insert(0) += 1;
            }
        }
        if out.clamped > 0 {
            self.report.count("replay_clamped_choices");
        }
        violated
    }

    /// Bounded-exhaustive enumeration of the choice tree of `sc` to `depth`.
    pub fn exhaustive(&mut self, sc: &Scenario, depth: usize, max_execs: u64, seed: u64) {
        let mut prefix: Vec<u32> = vec![];
        let mut n = 0u64;
        let mut complete = true;
        loop {
            let tail_seed = seed ^ sched::hash_vector(&prefix) ^ vkit::hash64(sc.name.as_bytes());
            let out = self.execute_confirmed(sc, prefix.clone(), depth, tail_seed);
            let taken = out.1;
            n += 1;
            match sched::next_prefix(&taken, depth) {
                Some(p) => prefix = p,
                None => break,
            }
            if n >= max_execs {
                complete = false;
                break;
            }
        }
        self.stats.exhaustive_complete.insert(sc.name, complete);
    }

    fn execute_confirmed(&mut self, sc: &Scenario, prefix: Vec<u32>, zero_until: usize, tail_seed: u64) -> (bool, Vec<sched::Taken>) {
        let mut out = execute(sc, prefix, zero_until, tail_seed, self.reuse);
        if out.findings.iter().any(|f| f.sig.starts_with("guest-heap:")) {
            let again = execute(sc, out.vector.clone(), 0, 0, self.reuse);
            if !again.findings.iter().any(|f| f.sig.starts_with("guest-heap:")) {
                self.report.count("heap_delta_not_reproduced");
                out.findings.retain(|f| !f.sig.starts_with("guest-heap:"));
            }
        }
        let taken = out.taken();
        let v = self.account(sc, out);
        (v, taken)
    }

    pub fn random(&mut self, sc: &Scenario, count: u64, rng: &mut Rng) {
        for _ in 0..count {
            if self.out_of_time() {
                self.report.count("random_runs_cut_by_time_budget");
                return;
            }
            let s = rng.next();
            self.execute_confirmed(sc, vec![], 0, s);
        }
    }

    pub fn out_of_time(&self) -> bool {
        match self.deadline {
            Some(d) => std::time::Instant::now() >= d,
            None => false,
        }
    }

    pub fn finish(mut self, out_path: &str) {
        self.write_report(out_path);
    }

    /// Write the report collected so far (also used as a checkpoint before
    /// scenarios in which a broken runtime can only abort the process).
    pub fn write_report(&mut self, out_path: &str) {
        let st = &self.stats;
        let ex = &mut self.report.extra;
        ex.insert("executions".into(), json!(st.execs));
        ex.insert("distinct_schedules".into(), json!(st.vectors.len()));
        ex.insert("distinct_traces".into(), json!(st.traces.len()));
        ex.insert("distinct_callback_code_sequences".into(), json!(st.codeseqs.len()));
        ex.insert("builtin_calls".into(), json!(st.calls));
        ex.insert("events_logged".into(), json!(st.events));
        ex.insert("events_delivered".into(), json!(st.deliveries));
        ex.insert("host_copies".into(), json!(st.copies));
        ex.insert("registration_snapshots".into(), json!(st.snapshots));
        ex.insert("cancels_injected".into(), json!(st.cancels_injected));
        ex.insert("executions_with_expectedly_stuck_task".into(), json!(st.stuck_expected));
        ex.insert("executions_per_scenario".into(), json!(st.per_scenario));
        ex.insert("exhaustive_tree_fully_enumerated".into(), json!(st.exhaustive_complete));
        ex.insert("choice_points_by_label".into(), json!(st.labels));
        ex.insert("guest_visible_results".into(), json!(st.results));
        if !st.checks.is_empty() {
            ex.insert("oracle_checks".into(), json!(st.checks));
        }
        if !st.sub_paths.is_empty() {
            ex.insert("import_call_status_sequences".into(), json!(st.sub_paths));
        }
        if !st.foreign.is_empty() {
            ex.insert("findings_owned_by_other_properties".into(), json!(st.foreign));
        }
        ex.insert("features".into(), json!(features()));
        self.report.write(out_path);
    }
}

impl ExecOut {
    pub fn taken(&self) -> Vec<sched::Taken> {
        self.vector.iter().zip(self.labels.iter()).zip(self.fanout.iter()).map(|((c, l), n)| sched::Taken { choice: *c, n: *n, label: l }).collect()
    }
}

pub struct Plan {
    pub depth: usize,
    pub max_exhaustive: u64,
    pub random: u64,
}

/// Entry point of the per-property binaries.
pub fn main_for(prop: &'static str, rule: &str) {
    let args = Args::parse();
    driver::install_panic_hook();
    crate::crash::install();
    // under Miri the allocation ledger costs more than everything else; Miri's
    // own leak check (leak-clean shards) and the native ledger cover leaks
    let ledger = std::env::var("RT_HOST_NO_LEDGER").is_err() && (!cfg!(miri) || std::env::var("RT_HOST_LEDGER").is_ok());
    crate::alloc::set_tracking(ledger);
    if let Ok(v) = std::env::var("RT_HOST_TRAP_SIZE") {
        crate::alloc::TRAP_SIZE.store(v.parse().unwrap_or(usize::MAX), std::sync::atomic::Ordering::Relaxed);
    }
    let all = scen::all();
    let mine: Vec<&Scenario> = all.iter().filter(|s| s.props.contains(&prop)).collect();

    if let Some(path) = args.get("replay") {
        let txt = std::fs::read_to_string(path).expect("read replay file");
        let v: Value = serde_json::from_str(&txt).expect("parse replay file");
        let r = v.get("replay").unwrap_or(&v);
        let name = r["scenario"].as_str().unwrap_or("");
        let arr = |k: &str| -> Vec<u32> { r[k].as_array().map(|a| a.iter().map(|x| x.as_u64().unwrap_or(0) as u32).collect()).unwrap_or_default() };
        let by_seed = r.get("tail_seed").is_some();
        let vector: Vec<u32> = if by_seed { arr("prefix") } else { arr("vector") };
        let zero_until = r["zero_until"].as_u64().unwrap_or(0) as usize;
        let tail_seed: u64 = r["tail_seed"].as_str().and_then(|s| s.parse().ok()).unwrap_or(0);
        let reuse = r["reuse_handles"].as_bool().unwrap_or(false);
        let runner: &'static mut Runner = leak_runner(Runner::new(prop, rule));
        let out_path: &'static String = leak_string(args.out());
        EMERGENCY.with(|e| e.set((runner as *mut Runner as usize, 0, out_path as *const String as usize)));
        runner.reuse = reuse;
        match all.iter().find(|s| s.name == name) {
            Some(sc) => {
                let out = execute(sc, vector, zero_until, tail_seed, reuse);
                if args.get("print").is_some() {
                    for l in crate::trace::text(&out.host) {
                        eprintln!("{l}");
                    }
                    for fd in &out.findings {
                        eprintln!("FINDING [{}] {}: {}", fd.prop, fd.sig, fd.what);
                    }
                }
                runner.account(sc, out);
            }
            None => runner.report.inconclusive(&format!("replay names unknown scenario `{name}`")),
        }
        let stats = std::mem::replace(&mut runner.stats, Stats::new());
        let report = std::mem::take(&mut runner.report);
        Runner { prop, report, stats, reuse, deadline: None }.finish(out_path);
        return;
    }

    let thorough = args.thorough();
    let seed = args.seed();
    let shard = args.u64("shard", 0);
    let of = args.u64("of", 1).max(1);
    let plan = Plan {
        depth: args.u64("depth", if thorough { 7 } else { 6 }) as usize,
        max_exhaustive: args.u64("max-exhaustive", if thorough { 150_000 } else { 40_000 }),
        random: args.u64("random", if thorough { 60_000 } else { 4_000 }),
    };
    let only = args.get("scenario").map(|s| s.to_string());
    let out_path: &'static String = leak_string(args.out());
    let leak_clean = args.get("leak-clean").is_some();
    let only_leaky = args.get("only-leaky").is_some();
    let runner: &'static mut Runner = leak_runner(Runner::new(prop, rule));
    EMERGENCY.with(|e| e.set((runner as *mut Runner as usize, 0, out_path as *const String as usize)));
    runner.reuse = args.get("reuse").is_some();
    let budget = args.u64("time-budget-s", 0);
    if budget > 0 {
        runner.deadline = Some(std::time::Instant::now() + std::time::Duration::from_secs(budget));
    }
    let mut rng = Rng::new(seed.wrapping_mul(0x9E37_79B9).wrapping_add(shard * 7919 + 13));
    for (i, sc) in mine.iter().enumerate() {
        if sc.thorough_only && !thorough {
            continue;
        }
        if let Some(o) = &only {
            if sc.name != o {
                continue;
            }
        }
        // shards whose process-level leak check is on (Miri) skip executions
        // that legitimately leave a deferred write behind
        let leaky = sc.cfg.cancel_inject || sc.cfg.may_stick;
        if (leak_clean && leaky) || (only_leaky && !leaky) {
            continue;
        }
        if sc.name.contains("cabi_client") {
            runner.write_report(out_path);
        }
        // exhaustive enumeration is split by scenario, random runs by seed
        if plan.max_exhaustive > 0 && (i as u64) % of == shard {
            runner.exhaustive(sc, plan.depth, plan.max_exhaustive, seed);
        }
        let per = plan.random / of;
        if per > 0 && budget == 0 {
            runner.random(sc, per, &mut rng);
        }
    }
    if budget > 0 {
        // with a time budget: round-robin over the scenarios until time or count runs out
        let sel: Vec<&&Scenario> = mine
            .iter()
            .filter(|sc| !(sc.thorough_only && !thorough))
            .filter(|sc| only.as_ref().map_or(true, |o| sc.name == o))
            .filter(|sc| {
                let leaky = sc.cfg.cancel_inject || sc.cfg.may_stick;
                !((leak_clean && leaky) || (only_leaky && !leaky))
            })
            .collect();
        let per = plan.random / of;
        let start = rng.usize(sel.len().max(1));
        'outer: for round in 0..per {
            for k in 0..sel.len() {
                if runner.out_of_time() {
                    runner.report.count("random_runs_cut_by_time_budget");
                    break 'outer;
                }
                let sc = sel[(start + k + round as usize) % sel.len()];
                runner.random(sc, 1, &mut rng);
            }
        }
    }
    let stats = std::mem::replace(&mut runner.stats, Stats::new());
    let report = std::mem::take(&mut runner.report);
    Runner { prop, report, stats, reuse: runner.reuse, deadline: None }.finish(out_path);
}
