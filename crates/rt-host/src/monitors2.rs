//! Monitors of C21 (async import calls), C22 (export executor) and C23
//! (cross-task wake-ups): pure functions over the host's event log.
//!
//! * C21 — per call: how often and when each instrumented `Subtask` callback
//!   ran, against the statuses the *host* reported (`SubRec::seen`) and the
//!   host's own accesses to the lowered parameters / result area.
//! * C22 — per callback return: context slot, H3 executor state, the task's own
//!   waitable set as the host sees it, the Rust-level work tracked by
//!   `work::Tracked`, wake-ups seen by `work::WakeSpy`.
//! * C23 — per internal wake-up stream: reads, writes, cancellations and
//!   deliveries against the wake-ups issued while the owning task slept.
use crate::driver::{PanicInfo, RunEnd};
use crate::host::{Elem, Ev, Gv, Host, SubRec, EVENT_CANCEL, EVENT_STREAM_READ, STATUS_RETURNED, STATUS_RETURNED_CANCELLED, STATUS_STARTED, STATUS_STARTED_CANCELLED, STATUS_STARTING};
use crate::monitors::{Ctx, Finding};
use crate::work::{TS_EXITED, TS_SLEEPING};
use std::cell::RefCell;
use std::collections::{BTreeMap, BTreeSet};

thread_local! {
    /// how often each oracle rule was evaluated (drained by the runner into the evidence)
    static COUNTS: RefCell<BTreeMap<&'static str, u64>> = RefCell::new(BTreeMap::new());
}
fn tick(k: &'static str) {
    COUNTS.with(|c| *c.borrow_mut().entry(k).or_insert(0) += 1);
}
pub fn take_counts() -> BTreeMap<&'static str, u64> {
    COUNTS.with(|c| std::mem::take(&mut *c.borrow_mut()))
}

fn f(prop: &'static str, sig: impl Into<String>, what: impl Into<String>) -> Finding {
    Finding { prop, sig: sig.into(), what: what.into() }
}

fn status_name(s: u32) -> &'static str {
    match s {
        STATUS_STARTING => "starting",
        STATUS_STARTED => "started",
        STATUS_RETURNED => "returned",
        STATUS_STARTED_CANCELLED => "started-cancelled",
        STATUS_RETURNED_CANCELLED => "returned-cancelled",
        _ => "unknown-status",
    }
}

// =============================================================================== C21

struct CallView<'a> {
    cid: u32,
    /// (log index, key, b, ids)
    facts: Vec<(usize, &'static str, u64, &'a [u32])>,
}

pub fn c21(host: &Host, out: &mut Vec<Finding>) {
    let mut calls: BTreeMap<u32, CallView> = BTreeMap::new();
    let mut items: BTreeMap<u32, [u32; 4]> = BTreeMap::new(); // id -> [new, lowered, list-freed, drop]
    let mut result_drops: BTreeMap<u32, u32> = BTreeMap::new();
    for (i, ev) in host.log.iter().enumerate() {
        if let Ev::Guest { gv: Gv::Fact { key, a, b, ids }, .. } = ev {
            match *key {
                "sub.new" => {
                    calls.insert(*a as u32, CallView { cid: *a as u32, facts: vec![] });
                }
                "sub.lower" | "sub.call" | "sub.dealloc_lists" | "sub.dealloc_lists_and_own" | "sub.lift" | "sub.result" | "sub.impl-drop" | "sub.future-dropped" => {
                    if let Some(c) = calls.get_mut(&(*a as u32)) {
                        c.facts.push((i, key, *b, ids));
                    }
                }
                "sub.item-new" => items.entry(*a as u32).or_default()[0] += 1,
                "sub.item-lowered" => items.entry(*a as u32).or_default()[1] += 1,
                "sub.item-list-freed" => items.entry(*a as u32).or_default()[2] += 1,
                "sub.item-drop" => items.entry(*a as u32).or_default()[3] += 1,
                "sub.result-drop" => *result_drops.entry(*a as u32).or_default() += 1,
                _ => {}
            }
        }
    }
    // host-side positions in the log
    let host_pos = |token: u32, what: &str| -> Option<usize> { host.log.iter().position(|e| matches!(e, Ev::Peer { shared, what: w, .. } if *shared == token as usize && *w == what)) };

    for c in calls.values() {
        let count = |k: &str| c.facts.iter().filter(|x| x.1 == k).count();
        let first = |k: &str| c.facts.iter().find(|x| x.1 == k).map(|x| x.0);
        let rec: Option<&SubRec> = host.subcalls.iter().find(|r| r.cid == c.cid);
        let (lowers, ncalls) = (count("sub.lower"), count("sub.call"));
        tick("c21:calls-judged");
        if lowers > 1 || ncalls > 1 || lowers != ncalls {
            out.push(f("C21", "subtask:start:params-lowered-or-import-called-more-than-once", format!("call {}: params_lower ran {lowers} times, call_import {ncalls} times", c.cid)));
        }
        let dl = count("sub.dealloc_lists");
        let dlo = count("sub.dealloc_lists_and_own");
        let lifts = count("sub.lift");
        if ncalls == 0 {
            // the future was dropped before its first poll: nothing may have happened
            if dl + dlo + lifts > 0 {
                out.push(f("C21", "subtask:callbacks-on-a-call-that-never-started", format!("call {}: dealloc_lists={dl} dealloc_lists_and_own={dlo} results_lift={lifts} although call_import never ran", c.cid)));
            }
            continue;
        }
        let Some(rec) = rec else {
            out.push(f("harness", "c21:call-without-host-record", format!("call {}", c.cid)));
            continue;
        };
        for p in &rec.problems {
            let kind = p.split(':').next().unwrap_or("problem");
            out.push(f("C21", format!("subtask:host-access:{kind}"), format!("call {} (token {}): {p}", c.cid, rec.token)));
        }
        let Some(&(fin, via)) = rec.seen.last() else { continue };
        let path = format!("{}-via-{}", status_name(fin), via);
        let resolved = fin >= STATUS_RETURNED;
        if !resolved {
            out.push(f("C21", format!("subtask:call-left-unresolved:{}", status_name(fin)), format!("call {}: the guest was last told `{}`; the call future is gone but the subtask was neither awaited to completion nor cancelled", c.cid, status_name(fin))));
            continue;
        }
        let started_seen = rec.seen.iter().any(|s| matches!(s.0, STATUS_STARTED | STATUS_RETURNED | STATUS_RETURNED_CANCELLED));
        // ---- params_dealloc_lists: exactly once, only after the callee started
        tick("c21:params_dealloc_lists");
        let want_dl = if fin == STATUS_STARTED_CANCELLED { 0 } else { started_seen as usize };
        if dl > want_dl {
            out.push(f("C21", format!("subtask:params_dealloc_lists:called-{}-times-expected-{}:{path}", dl, want_dl), format!("call {}: statuses seen by the guest {:?}", c.cid, seen_text(rec))));
        } else if dl < want_dl {
            out.push(f("C21", format!("subtask:params_dealloc_lists:missing:{path}"), format!("call {}: the callee started (statuses seen by the guest {:?}) but the lists of the lowered parameters were never released", c.cid, seen_text(rec))));
        }
        if let Some(i) = first("sub.dealloc_lists") {
            match host_pos(rec.token, "subtask-lifts-params") {
                Some(j) if j < i => {}
                _ => out.push(f("C21", format!("subtask:params_dealloc_lists:before-callee-started:{path}"), format!("call {}: parameter lists released before the host lifted the parameters", c.cid))),
            }
        }
        if c.facts.iter().any(|x| (x.1 == "sub.dealloc_lists" || x.1 == "sub.dealloc_lists_and_own") && x.2 == 3) {
            out.push(f("C21", format!("subtask:params-released-after-block-freed:{path}"), format!("call {}: a dealloc callback was handed a parameter block that is no longer allocated", c.cid)));
        }
        // ---- params_dealloc_lists_and_own: only (and then instead) on STARTED_CANCELLED
        tick("c21:params_dealloc_lists_and_own");
        let want_dlo = (fin == STATUS_STARTED_CANCELLED) as usize;
        if dlo > want_dlo {
            out.push(f("C21", format!("subtask:params_dealloc_lists_and_own:called-although-callee-{}:{path}", if want_dlo == 0 { "started" } else { "cancelled-once" }), format!("call {}: called {dlo} times; statuses seen by the guest {:?}", c.cid, seen_text(rec))));
        } else if dlo < want_dlo {
            out.push(f("C21", format!("subtask:params_dealloc_lists_and_own:missing:{path}"), format!("call {}: cancelled before the callee started, but lists and owned handles of the parameters were not released", c.cid)));
        }
        // ---- results_lift: exactly once iff RETURNED, after the host lowered the result
        tick("c21:results_lift");
        let want_lift = (fin == STATUS_RETURNED) as usize;
        if lifts > want_lift {
            out.push(f("C21", format!("subtask:results_lift:called-{}-times-expected-{}:{path}", lifts, want_lift), format!("call {}: statuses seen by the guest {:?}", c.cid, seen_text(rec))));
        } else if lifts < want_lift {
            out.push(f("C21", format!("subtask:results_lift:missing:{path}"), format!("call {}: the call returned but its result was never lifted", c.cid)));
        }
        for l in c.facts.iter().filter(|x| x.1 == "sub.lift") {
            match l.2 {
                1 => {
                    let (id, ok) = (l.3.first().copied().unwrap_or(0), l.3.get(1).copied().unwrap_or(0));
                    if ok != 1 || (rec.mem.rkind != crate::host::RKind::None && Some(id) != rec.result_written) {
                        out.push(f("C21", format!("subtask:results_lift:value-differs-from-what-the-host-wrote:{path}"), format!("call {}: lifted {id}, host wrote {:?}", c.cid, rec.result_written)));
                    }
                }
                3 => out.push(f("C21", format!("subtask:results_lift:result-area-never-written:{path}"), format!("call {}: results lifted although the host never lowered a result", c.cid))),
                4 => out.push(f("C21", format!("subtask:results_lift:after-block-freed:{path}"), format!("call {}", c.cid))),
                _ => {}
            }
        }
        if let Some(r) = c.facts.iter().find(|x| x.1 == "sub.result") {
            if fin != STATUS_RETURNED || (rec.mem.rkind != crate::host::RKind::None && Some(r.2 as u32) != rec.result_written) {
                out.push(f("C21", format!("subtask:call-future-yielded-a-value-the-host-did-not-return:{path}"), format!("call {}: future resolved to {}, host wrote {:?}", c.cid, r.2, rec.result_written)));
            }
        }
        // ---- subtask.drop exactly once; subtask.cancel at most once, only while unresolved
        tick("c21:subtask.drop");
        let want_drop = (rec.handle != 0) as u32;
        if rec.drops != want_drop {
            out.push(f("C21", format!("subtask.drop:called-{}-times-expected-{}:{path}", rec.drops, want_drop), format!("call {} (handle {})", c.cid, rec.handle)));
        }
        if rec.cancels > 1 {
            out.push(f("C21", format!("subtask.cancel:called-{}-times:{path}", rec.cancels), format!("call {}", c.cid)));
        }
        if via == "cancel" && rec.cancels == 0 {
            out.push(f("harness", "c21:cancel-result-without-cancel", format!("call {}", c.cid)));
        }
    }
    // ---- ownership of parameter items and of lifted result items
    for (id, n) in &items {
        tick("c21:param-item-ledger");
        let [new, lowered, freed, dropped] = *n;
        let ok = new == 1 && ((lowered == 0 && freed == 0 && dropped == 1) || (lowered == 1 && freed == 1 && dropped == 0));
        if !ok {
            let sig = if lowered == 1 && freed == 0 {
                "param-item:list-data-never-released"
            } else if freed > 1 {
                "param-item:list-data-released-twice"
            } else {
                "param-item:ownership-inconsistent"
            };
            out.push(f("C21", sig, format!("item {id}: created {new}, lowered {lowered}, list freed {freed}, dropped in Rust {dropped}")));
        }
    }
    for c in calls.values() {
        for l in c.facts.iter().filter(|x| x.1 == "sub.lift" && x.2 == 1) {
            let rec = host.subcalls.iter().find(|r| r.cid == c.cid);
            if rec.map_or(false, |r| r.mem.rkind == crate::host::RKind::Item) {
                let id = l.3.first().copied().unwrap_or(0);
                if result_drops.get(&id).copied().unwrap_or(0) != 1 {
                    out.push(f("C21", "result-item:not-dropped-exactly-once", format!("result {id} of call {}: dropped {} times", c.cid, result_drops.get(&id).copied().unwrap_or(0))));
                }
            }
        }
    }
}

fn seen_text(rec: &SubRec) -> Vec<String> {
    rec.seen.iter().map(|(s, v)| format!("{}({v})", status_name(*s))).collect()
}

// =============================================================================== C22

#[derive(Default)]
struct TaskView {
    works: Vec<u32>,
    cancelled: bool,
    exited: bool,
    iter_wake_in_poll: bool,
    iter_polls: u32,
    last_code: Option<u32>,
    last_h3_set: Option<u32>,
    selfwoken: BTreeSet<u32>,
}
#[derive(Default)]
struct WorkView {
    task: u32,
    kind: u64,
    finished: bool,
    dropped: u32,
}

pub fn c22(host: &Host, out: &mut Vec<Finding>) {
    let mut tasks: BTreeMap<u32, TaskView> = BTreeMap::new();
    let mut works: BTreeMap<u32, WorkView> = BTreeMap::new();
    let mut seen: BTreeSet<String> = BTreeSet::new();
    let mut emit = |out: &mut Vec<Finding>, sig: String, what: String| {
        if seen.insert(sig.clone()) {
            out.push(f("C22", sig, what));
        }
    };
    let kind_of = |t: u32| -> &'static str {
        match host.tasks.get(t as usize) {
            Some(t) if t.is_block_on => "block_on",
            Some(t) if t.is_v1 => "v1",
            _ => "export",
        }
    };
    let wk = |k: u64| if k == crate::work::KIND_ROOT { "root" } else if k == crate::work::KIND_SPAWNED { "spawned" } else { "joined" };
    for ev in &host.log {
        match ev {
            Ev::TaskStart { task } => {
                let t = tasks.entry(*task).or_default();
                t.iter_wake_in_poll = false;
                t.iter_polls = 0;
            }
            Ev::Deliver { task, via: "callback", code, .. } => {
                let t = tasks.entry(*task).or_default();
                t.iter_wake_in_poll = false;
                t.iter_polls = 0;
                if *code == EVENT_CANCEL {
                    t.cancelled = true;
                }
                if t.exited {
                    emit(out, "after-exit:callback-delivered-to-exited-task".into(), format!("task {task}"));
                }
            }
            // an event handed out by `waitable-set.poll` / `wait` starts a new turn of the executor loop
            Ev::Deliver { task, via: "poll", .. } | Ev::Deliver { task, via: "wait", .. } => {
                let t = tasks.entry(*task).or_default();
                t.iter_wake_in_poll = false;
                t.iter_polls = 0;
            }
            Ev::Mon { task, key, a, b } => match *key {
                "work.new" => {
                    works.insert(*a as u32, WorkView { task: *task, kind: *b, finished: false, dropped: 0 });
                    tasks.entry(*task).or_default().works.push(*a as u32);
                }
                "work.poll" => {
                    tick("c22:work-polls");
                    if let Some(w) = works.get(&(*a as u32)) {
                        let t = tasks.entry(w.task).or_default();
                        t.iter_polls += 1;
                        t.selfwoken.remove(&(*a as u32));
                        if w.finished || w.dropped > 0 {
                            emit(out, format!("executor:{}-work-polled-after-it-{}", wk(w.kind), if w.finished { "finished" } else { "was-dropped" }), format!("work {a} of task {}", w.task));
                        }
                        if t.exited {
                            emit(out, format!("after-exit:{}-work-polled", wk(w.kind)), format!("work {a} of task {} polled after the task exited", w.task));
                        }
                        if w.task != *task {
                            emit(out, "executor:work-polled-inside-another-task".into(), format!("work {a} of task {} polled while task {task} was current", w.task));
                        }
                    }
                }
                "work.poll-after-completion" => emit(out, "executor:work-polled-after-completion".into(), format!("work {a}")),
                "work.polled" => {
                    if *b == 1 {
                        if let Some(w) = works.get(&(*a as u32)) {
                            tasks.entry(w.task).or_default().selfwoken.remove(&(*a as u32));
                        }
                    }
                }
                "work.finished" => {
                    if let Some(w) = works.get_mut(&(*a as u32)) {
                        w.finished = true;
                    }
                }
                "work.dropped" => {
                    if let Some(w) = works.get_mut(&(*a as u32)) {
                        w.dropped += 1;
                        let (wt, kind, n) = (w.task, w.kind, w.dropped);
                        if n > 1 {
                            emit(out, format!("free:{}-work-dropped-twice", wk(kind)), format!("work {a} of task {wt}"));
                        }
                        if tasks.entry(wt).or_default().exited {
                            emit(out, format!("after-exit:{}-work-dropped-after-the-task-exited", wk(kind)), format!("work {a} of task {wt}"));
                        }
                    }
                }
                "wake" => {
                    let (own, any, target) = (*b & 1 == 1, *b & 2 == 2, (*b >> 8) as u32);
                    if any && *task == target {
                        tasks.entry(target).or_default().iter_wake_in_poll = true;
                    }
                    if own {
                        tasks.entry(target).or_default().selfwoken.insert(*a as u32);
                    }
                }
                "ctx-set-in-body" => emit(out, format!("context-slot:set-while-body-runs:{}", kind_of(*task)), format!("task {task}: context slot 0 still holds the task state while work {a} is being polled")),
                "ret.ctx" => {
                    tick("c22:context-slot-at-return");
                    let code = *b as u32;
                    if code == 0 && *a == 1 {
                        emit(out, "exit:context-slot-not-cleared".into(), format!("task {task} returned EXIT with its task state still in context slot 0"));
                    } else if code != 0 && *a == 0 {
                        emit(out, format!("suspend:context-slot-empty-between-callbacks:{}", if code & 0xf == 1 { "yield" } else { "wait" }), format!("task {task} returned code {code:#x} without storing its task state"));
                    }
                }
                "exit.live-own-set" => {
                    tick("c22:exit-no-registered-waitables");
                    let t = tasks.entry(*task).or_default();
                    if *b > 0 && !t.cancelled {
                        emit(out, "exit:registered-waitables-remain".into(), format!("task {task} returned EXIT while its waitable set {a} still has {b} member(s) (events for them can never be delivered)"));
                    }
                }
                "ret.sleep" => {
                    let t = tasks.entry(*task).or_default();
                    let code = t.last_code.unwrap_or(0);
                    match code & 0xf {
                        1 => {
                            tick("c22:yield-implies-woken-during-poll");
                            if *a != 1 {
                                emit(out, "yield:executor-waker-not-woken".into(), format!("task {task} returned YIELD with sleep state {a} (not WOKEN)"));
                            }
                            if *b != 1 {
                                emit(out, "yield:no-rust-work-left".into(), format!("task {task} returned YIELD although no Rust-level work remains"));
                            }
                            if cfg!(feature = "async-spawn") {
                                if t.iter_polls == 0 {
                                    emit(out, "yield:nothing-was-polled".into(), format!("task {task} returned YIELD although no work was polled in the last turn"));
                                }
                            } else if !t.iter_wake_in_poll {
                                emit(out, "yield:no-wake-during-poll".into(), format!("task {task} returned YIELD although nothing woke its waker while the body was being polled"));
                            }
                        }
                        2 => {
                            tick("c22:wait-checks");
                            if *b == 1 && *a != TS_SLEEPING {
                                emit(out, "wait:rust-work-pending-but-task-not-marked-sleeping".into(), format!("task {task} returned WAIT with unfinished Rust work and sleep state {a}"));
                            }
                            if !t.selfwoken.is_empty() {
                                emit(out, "wait:self-woken-work-left-sleeping".into(), format!("task {task} returned WAIT although work {:?} woke itself during its last poll", t.selfwoken));
                            }
                        }
                        _ => {}
                    }
                }
                "ret.regs" => {
                    let t = tasks.entry(*task).or_default();
                    t.last_h3_set = if *b == 0 { None } else { Some(*b as u32) };
                    let code = t.last_code.unwrap_or(0);
                    if code & 0xf == 2 && Some(code >> 4) != t.last_h3_set {
                        emit(out, "wait:not-the-tasks-own-waitable-set".into(), format!("task {task} returned WAIT({}) but its own waitable set is {:?}", code >> 4, t.last_h3_set));
                    }
                }
                "ret.wait-set" => {
                    tick("c22:wait-set-own-and-nonempty");
                    if *b as u32 != *task {
                        emit(out, "wait:waitable-set-of-another-task".into(), format!("task {task} returned WAIT on a set created by task {b}"));
                    }
                    if *a == 0 {
                        emit(out, "wait:empty-waitable-set".into(), format!("task {task} returned WAIT on a set without members: nothing can ever wake it"));
                    }
                }
                _ => {}
            },
            Ev::TaskRet { task, code } => {
                tick("c22:callback-returns");
                let is_block_on = host.tasks.get(*task as usize).map_or(false, |t| t.is_block_on);
                let t = tasks.entry(*task).or_default();
                t.last_code = Some(*code);
                if *code == 0 {
                    t.exited = true;
                    tick("c22:exit-work-accounting");
                    let cancelled = t.cancelled;
                    for w in t.works.clone() {
                        let Some(v) = works.get(&w) else { continue };
                        let where_ = if is_block_on { "block_on-return" } else { "exit" };
                        if v.dropped == 0 {
                            if v.kind == crate::work::KIND_ROOT {
                                emit(out, format!("{where_}:task-state-not-freed"), format!("task {task}: the root future (work {w}) was never destroyed"));
                            } else {
                                emit(out, format!("{where_}:spawned-work-never-destroyed"), format!("task {task}: spawned work {w} was never destroyed"));
                            }
                        } else if !v.finished && !cancelled {
                            emit(out, format!("{where_}:{}-work-dropped-unfinished", wk(v.kind)), format!("task {task} finished without cancellation but work {w} was destroyed before it completed"));
                        }
                    }
                }
            }
            _ => {}
        }
    }
}

// =============================================================================== C23

#[derive(Default)]
struct WStream {
    shared: usize,
    owner: u32,
    reading: bool,
    writes: u32,
    wakes: u32,
    window_no: u32,
}

pub fn c23(host: &Host, end: &RunEnd, out: &mut Vec<Finding>) {
    let mut seen: BTreeSet<String> = BTreeSet::new();
    let mut emit = |out: &mut Vec<Finding>, sig: String, what: String| {
        if seen.insert(sig.clone()) {
            out.push(f("C23", sig, what));
        }
    };
    // handle -> index into `streams` (re-bound when a handle is reused)
    let mut by_reader: BTreeMap<u32, usize> = BTreeMap::new();
    let mut by_writer: BTreeMap<u32, usize> = BTreeMap::new();
    let mut streams: Vec<WStream> = vec![];
    // per task: suspended after returning WAIT in SLEEPING state?
    let mut sleeping: BTreeMap<u32, bool> = BTreeMap::new();
    let mut last_code: BTreeMap<u32, u32> = BTreeMap::new();
    let mut work_task: BTreeMap<u32, u32> = BTreeMap::new();
    // wake-ups of sleeping tasks that still have to be followed by a callback
    let mut owed: BTreeMap<u32, usize> = BTreeMap::new();
    let mut after_end = false;

    fn close(s: &mut WStream, how: &str, after_end: bool, out: &mut Vec<Finding>, emit: &mut dyn FnMut(&mut Vec<Finding>, String, String)) {
        tick("c23:sleep-windows-judged");
        if s.wakes > 0 && s.writes == 0 {
            emit(out, "wakeup:lost:sleeping-task-woken-but-no-item-written-to-its-wakeup-stream".into(), format!("task {}: {} wake-up(s) while it slept (window {}), no write to its wake-up stream (sh{}); window closed by {how}{}", s.owner, s.wakes, s.window_no, s.shared, if after_end { " at the end-of-run clean-up" } else { "" }));
        }
        if s.wakes == 0 && s.writes > 0 {
            emit(out, "wakeup:spurious-item-written-without-a-wake".into(), format!("task {}: {} item(s) written to its wake-up stream (sh{}) in window {} although nobody woke it", s.owner, s.writes, s.shared, s.window_no));
        }
        s.reading = false;
        s.writes = 0;
        s.wakes = 0;
    }

    for ev in &host.log {
        match ev {
            Ev::Note("end-of-schedule", _) => after_end = true,
            Ev::Call { task, name: "stream.new", a, ret, .. } => {
                if host.shared.get(*a as usize).map_or(false, |s| s.elem == Elem::Unit) {
                    let (r, w) = ((*ret & 0xffff_ffff) as u32, (*ret >> 32) as u32);
                    streams.push(WStream { shared: *a as usize, owner: *task, ..WStream::default() });
                    by_reader.insert(r, streams.len() - 1);
                    by_writer.insert(w, streams.len() - 1);
                }
            }
            Ev::Call { task, name: "stream.read", a, ret, .. } => {
                if let Some(&i) = by_reader.get(&(*a as u32)) {
                    let s = &mut streams[i];
                    tick("c23:wakeup-stream-reads");
                    if s.reading {
                        emit(out, "wakeup-stream:second-read-while-one-is-pending".into(), format!("task {task}: stream.read on sh{} while the previous read is still pending", s.shared));
                    }
                    if *ret != 0xffff_ffff {
                        emit(out, "wakeup-stream:read-did-not-block".into(), format!("task {task}: stream.read on sh{} returned {ret:#x}", s.shared));
                    }
                    s.reading = true;
                    s.writes = 0;
                    s.wakes = 0;
                    s.window_no += 1;
                }
            }
            Ev::Call { task, name: "stream.write", a, ret, .. } => {
                if let Some(&i) = by_writer.get(&(*a as u32)) {
                    let s = &mut streams[i];
                    tick("c23:wakeup-stream-writes");
                    s.writes += 1;
                    if !s.reading {
                        emit(out, "wakeup-stream:item-written-while-no-read-is-pending".into(), format!("task {task} wrote to the wake-up stream sh{} of task {} which has no read pending (return {ret:#x})", s.shared, s.owner));
                    } else if s.writes > 1 {
                        emit(out, "wakeup:duplicate:second-item-written-in-one-sleep".into(), format!("task {task} wrote item number {} to the wake-up stream sh{} of task {} within one sleep (return {ret:#x})", s.writes, s.shared, s.owner));
                    } else if *ret != 0x10 {
                        emit(out, "wakeup-stream:write-did-not-complete-with-one-item".into(), format!("write to sh{} returned {ret:#x}", s.shared));
                    }
                }
            }
            Ev::Call { name: "stream.cancel-read", a, .. } => {
                if let Some(&i) = by_reader.get(&(*a as u32)) {
                    tick("c23:wakeup-stream-cancels");
                    close(&mut streams[i], "stream.cancel-read", after_end, out, &mut emit);
                }
            }
            Ev::Call { name: "stream.drop-readable", a, .. } => {
                if let Some(&i) = by_reader.get(&(*a as u32)) {
                    if streams[i].reading {
                        emit(out, "wakeup-stream:reader-dropped-with-read-pending".into(), format!("sh{}", streams[i].shared));
                    }
                    by_reader.remove(&(*a as u32));
                }
            }
            Ev::Call { name: "stream.drop-writable", a, .. } => {
                by_writer.remove(&(*a as u32));
            }
            Ev::Deliver { task, code, handle, via, .. } => {
                if *via == "callback" {
                    sleeping.insert(*task, false);
                    owed.remove(task);
                }
                if *code == EVENT_STREAM_READ {
                    if let Some(&i) = by_reader.get(handle) {
                        close(&mut streams[i], "delivery of the read completion", after_end, out, &mut emit);
                    }
                }
            }
            Ev::TaskRet { task, code } => {
                last_code.insert(*task, *code);
                if *code == 0 {
                    for s in streams.iter().filter(|s| s.owner == *task) {
                        if s.reading {
                            emit(out, "wakeup-stream:read-still-pending-when-the-task-exits".into(), format!("task {task}, sh{}", s.shared));
                        }
                    }
                }
            }
            Ev::Mon { task, key, a, b } => match *key {
                "work.new" => {
                    work_task.insert(*a as u32, *task);
                }
                "work.poll" => {
                    let t = work_task.get(&(*a as u32)).copied().unwrap_or(*task);
                    tick("c23:no-read-pending-while-polling");
                    for s in streams.iter().filter(|s| s.owner == t) {
                        if s.reading {
                            emit(out, "wakeup-stream:read-still-pending-while-the-task-polls".into(), format!("task {t} polls work {a} while the read of its wake-up stream sh{} was neither completed nor cancelled", s.shared));
                        }
                    }
                }
                "ret.sleep" => {
                    let code = last_code.get(task).copied().unwrap_or(0);
                    sleeping.insert(*task, code & 0xf == 2 && *a == TS_SLEEPING);
                }
                "wake" => {
                    let (state, target) = ((*b >> 4) & 0xf, (*b >> 8) as u32);
                    tick(match state {
                        crate::work::TS_POLLING => "c23:wakes:target-suspended-polling-state",
                        crate::work::TS_WOKEN => "c23:wakes:target-suspended-already-woken",
                        TS_SLEEPING => "c23:wakes:target-sleeping",
                        crate::work::TS_RUNNING_IN_POLL => "c23:wakes:target-being-polled",
                        crate::work::TS_RUNNING_NOT_POLLING => "c23:wakes:target-in-callback-not-polling",
                        TS_EXITED => "c23:wakes:target-exited",
                        _ => "c23:wakes:other",
                    });
                    tick(if *task == target { "c23:wakes:from-same-task" } else { "c23:wakes:from-other-task" });
                    if sleeping.get(&target).copied().unwrap_or(false) && !after_end {
                        for s in streams.iter_mut().filter(|s| s.owner == target && s.reading) {
                            s.wakes += 1;
                        }
                        owed.entry(target).or_insert(0);
                    }
                }
                _ => {}
            },
            _ => {}
        }
    }
    // bounded progress: a task woken while it slept must have been resumed
    for (t, _) in owed {
        if end.stuck.contains(&t) {
            emit(out, "wakeup:lost:woken-task-left-sleeping".into(), format!("task {t} was woken while it slept on Rust-level events only, but the host never had an event for it again: it was still suspended when nothing could happen any more"));
        }
    }
}

// =============================================================================== panics

/// A more specific signature for panics whose circumstances the log explains.
pub fn classify_panic(host: &Host, p: &PanicInfo, cx: &Ctx) -> Option<(&'static str, String)> {
    let base = p.file.rsplit('/').next().unwrap_or(&p.file);
    let task = host.tasks.get(p.task as usize);
    // `block_on` whose body yields before anything was registered
    if base == "async_support.rs" && p.msg.contains("Option::unwrap()") && task.map_or(false, |t| t.is_block_on) {
        let made_set = host.log.iter().any(|e| matches!(e, Ev::Call { task, name: "waitable-set.new", .. } if *task == p.task));
        // no waitable set was ever created and the poll right before the panic woke its own waker (a yield)
        let finished = host.log.iter().any(|e| matches!(e, Ev::Mon { task, key: "work.finished", .. } if *task == p.task));
        let last_two: Vec<&'static str> = host.log.iter().rev().filter_map(|e| match e {
            // (destruction during the unwinding comes after the panic)
            Ev::Mon { task, key, .. } if *task == p.task && *key != "work.dropped" => Some(*key),
            _ => None,
        }).take(2).collect();
        let yielded = last_two == ["work.polled", "wake"];
        let _ = finished;
        if !made_set && yielded {
            return Some(("C22", "block_on:yield-before-first-registration:panic".into()));
        }
    }
    // without the `inter-task-wakeup` feature the same wake-up path panics by
    // design when a *sleeping* task is woken; the only way to get there inside
    // one task is the state left behind by EVENT_CANCEL
    if base == "inter_task_wakeup_disabled.rs" && p.msg.contains("Cannot support cross-component-model-task wakeup") {
        let last = host.log.iter().rev().find_map(|e| match e {
            Ev::Mon { task, key: "wake", b, .. } => Some((*task, *b)),
            _ => None,
        });
        if let Some((waking, b)) = last {
            let t = (b >> 8) as u32;
            if host.tasks.get(t as usize).map_or(false, |t| t.cancel_delivered) {
                return Some(("C23", "wakeup:wake-of-task-cancelled-while-sleeping:panic".into()));
            }
            if waking != t {
                // a genuine cross-task wake-up without the feature: documented limitation
                return Some(("inconclusive", "cross-task-wake-without-inter-task-wakeup-feature".into()));
            }
        }
    }
    if base == "inter_task_wakeup.rs" && p.msg.contains("left == right") {
        // which wake-up stream operation tripped the assertion: the last one issued
        let last_op = host.log.iter().rev().find_map(|e| match e {
            Ev::Call { name, ret, .. } if *name == "stream.read" || *name == "stream.write" => Some((*name, *ret)),
            _ => None,
        });
        let code = |ret: u64| -> String {
            match ret {
                0xffff_ffff => "blocked".into(),
                r => match r & 0xf {
                    0 => format!("completed-{}", r >> 4),
                    1 => "dropped".into(),
                    2 => "cancelled".into(),
                    _ => "other".into(),
                },
            }
        };
        let _ = cx;
        match last_op {
            Some(("stream.read", ret)) => return Some(("C23", format!("wakeup:panic:read-of-wakeup-stream-returned-{}-instead-of-blocking", code(ret)))),
            Some(("stream.write", ret)) => {
                // the last wake-up tells whose stream was written
                let last = host.log.iter().rev().find_map(|e| match e {
                    Ev::Mon { key: "wake", b, .. } => Some(*b),
                    _ => None,
                });
                let rc = code(ret);
                if let Some(b) = last {
                    let t = (b >> 8) as usize;
                    // root cause: EVENT_CANCEL leaves SLEEP_STATE_SLEEPING behind, so any
                    // later wake of that task's waker (during its teardown or afterwards)
                    // writes to a wake-up stream nobody reads any more (BLOCKED: read
                    // cancelled; DROPPED: reader end gone)
                    if host.tasks.get(t).map_or(false, |t| t.cancel_delivered) && (rc == "blocked" || rc == "dropped") {
                        return Some(("C23", "wakeup:wake-of-task-cancelled-while-sleeping:panic".into()));
                    }
                    let target = match (b >> 4) & 0xf {
                        TS_EXITED => "target-exited",
                        TS_SLEEPING => "target-sleeping",
                        crate::work::TS_WOKEN => "target-already-woken",
                        crate::work::TS_POLLING => "target-suspended-not-sleeping",
                        _ => "target-running",
                    };
                    return Some(("C23", format!("wakeup:panic:write-to-wakeup-stream-returned-{rc}:{target}")));
                }
                return Some(("C23", format!("wakeup:panic:write-to-wakeup-stream-returned-{rc}:target-unknown")));
            }
            _ => {}
        }
    }
    None
}
