//! Counting global allocator with an address ledger.
//!
//! Blocks allocated while the process is in *guest mode* (the runtime or a
//! scenario body is executing) are entered into a fixed-size address table;
//! frees are matched against the table regardless of mode.  The mock host and
//! the harness bookkeeping run in *host mode* (see [`host_mode`]) and are not
//! counted.  `live()` must return to its value at scenario start when the
//! scenario has finished.  Tracking can be switched off (valgrind / Miri leak
//! shards rely on the tool's own leak check).
use std::alloc::{GlobalAlloc, Layout, System};
use std::sync::atomic::{AtomicBool, AtomicUsize, Ordering::Relaxed};

const SLOTS: usize = 1 << 12;
const TOMB: usize = 1;

pub struct Counting;

static TRACK: AtomicBool = AtomicBool::new(false);
static GUEST: AtomicBool = AtomicBool::new(false);
static OVERFLOW: AtomicBool = AtomicBool::new(false);
static LIVE_BLOCKS: AtomicUsize = AtomicUsize::new(0);
static LIVE_BYTES: AtomicUsize = AtomicUsize::new(0);
static TOTAL_ALLOCS: AtomicUsize = AtomicUsize::new(0);
static TOMBS: AtomicUsize = AtomicUsize::new(0);
/// debugging aid: print a backtrace for guest allocations of this size
pub static TRAP_SIZE: AtomicUsize = AtomicUsize::new(usize::MAX);
static KEYS: [AtomicUsize; SLOTS] = [const { AtomicUsize::new(0) }; SLOTS];
static VALS: [AtomicUsize; SLOTS] = [const { AtomicUsize::new(0) }; SLOTS];

#[inline]
fn slot_of(p: usize) -> usize {
    ((p >> 3).wrapping_mul(0x9E37_79B1usize) >> 7) & (SLOTS - 1)
}

fn insert(p: usize, size: usize) {
    let mut i = slot_of(p);
    for _ in 0..SLOTS {
        let k = KEYS[i].load(Relaxed);
        if k == 0 || k == TOMB {
            if k == TOMB {
                TOMBS.fetch_sub(1, Relaxed);
            }
            KEYS[i].store(p, Relaxed);
            VALS[i].store(size, Relaxed);
            LIVE_BLOCKS.fetch_add(1, Relaxed);
            LIVE_BYTES.fetch_add(size, Relaxed);
            TOTAL_ALLOCS.fetch_add(1, Relaxed);
            return;
        }
        i = (i + 1) & (SLOTS - 1);
    }
    OVERFLOW.store(true, Relaxed);
}

fn remove(p: usize) {
    let mut i = slot_of(p);
    for _ in 0..SLOTS {
        let k = KEYS[i].load(Relaxed);
        if k == 0 {
            return;
        }
        if k == p {
            KEYS[i].store(TOMB, Relaxed);
            TOMBS.fetch_add(1, Relaxed);
            LIVE_BLOCKS.fetch_sub(1, Relaxed);
            LIVE_BYTES.fetch_sub(VALS[i].load(Relaxed), Relaxed);
            return;
        }
        i = (i + 1) & (SLOTS - 1);
    }
}

unsafe impl GlobalAlloc for Counting {
    unsafe fn alloc(&self, layout: Layout) -> *mut u8 {
        let p = unsafe { System.alloc(layout) };
        if !p.is_null() && TRACK.load(Relaxed) && GUEST.load(Relaxed) {
            insert(p as usize, layout.size());
            if layout.size() == TRAP_SIZE.load(Relaxed) {
                let _g = host_mode();
                eprintln!("ALLOC of {} bytes at {:p}:\n{}", layout.size(), p, std::backtrace::Backtrace::force_capture());
            }
        }
        p
    }
    unsafe fn dealloc(&self, ptr: *mut u8, layout: Layout) {
        if TRACK.load(Relaxed) {
            remove(ptr as usize);
        }
        unsafe { System.dealloc(ptr, layout) }
    }
}

pub fn set_tracking(on: bool) {
    TRACK.store(on, Relaxed);
}
pub fn tracking() -> bool {
    TRACK.load(Relaxed)
}
pub fn overflowed() -> bool {
    OVERFLOW.load(Relaxed)
}

/// (live blocks, live bytes) allocated in guest mode and not yet freed.
pub fn live() -> (usize, usize) {
    (LIVE_BLOCKS.load(Relaxed), LIVE_BYTES.load(Relaxed))
}
pub fn total_allocs() -> usize {
    TOTAL_ALLOCS.load(Relaxed)
}

/// Compact the table between executions (cheap when nothing is live).
pub fn maintain() {
    if TOMBS.load(Relaxed) > SLOTS / 4 && LIVE_BLOCKS.load(Relaxed) == 0 {
        for i in 0..SLOTS {
            KEYS[i].store(0, Relaxed);
        }
        TOMBS.store(0, Relaxed);
    } else if TOMBS.load(Relaxed) > SLOTS / 2 {
        // rehash the live entries
        let mut live = Vec::new();
        let was = GUEST.swap(false, Relaxed);
        for i in 0..SLOTS {
            let k = KEYS[i].load(Relaxed);
            if k > TOMB {
                live.push((k, VALS[i].load(Relaxed)));
            }
            KEYS[i].store(0, Relaxed);
        }
        TOMBS.store(0, Relaxed);
        LIVE_BLOCKS.store(0, Relaxed);
        LIVE_BYTES.store(0, Relaxed);
        let t = TOTAL_ALLOCS.load(Relaxed);
        for (k, v) in live {
            insert(k, v);
        }
        TOTAL_ALLOCS.store(t, Relaxed);
        GUEST.store(was, Relaxed);
    }
}

/// Optional external ledger (C08: the process's global allocator is the
/// rsguest checking allocator, which has its own guest/host tag): called with
/// the new mode (`true` = guest) on every mode switch.
static MODE_HOOK: std::sync::atomic::AtomicPtr<()> = std::sync::atomic::AtomicPtr::new(std::ptr::null_mut());

pub fn set_mode_hook(f: fn(bool)) {
    MODE_HOOK.store(f as *mut (), Relaxed);
}

#[inline]
fn mode_hook(guest: bool) {
    let p = MODE_HOOK.load(Relaxed);
    if !p.is_null() {
        // SAFETY: only `set_mode_hook` stores into MODE_HOOK, always a `fn(bool)`
        let f: fn(bool) = unsafe { std::mem::transmute::<*mut (), fn(bool)>(p) };
        f(guest);
    }
}

pub struct ModeGuard(bool);
impl Drop for ModeGuard {
    fn drop(&mut self) {
        GUEST.store(self.0, Relaxed);
        mode_hook(self.0);
    }
}
/// Run in host mode (allocations are not entered into the ledger) until the
/// guard drops.
#[inline]
pub fn host_mode() -> ModeGuard {
    let g = ModeGuard(GUEST.swap(false, Relaxed));
    mode_hook(false);
    g
}
/// Run in guest mode until the guard drops.
#[inline]
pub fn guest_mode() -> ModeGuard {
    let g = ModeGuard(GUEST.swap(true, Relaxed));
    mode_hook(true);
    g
}
pub fn in_guest_mode() -> bool {
    GUEST.load(Relaxed)
}

/// Is there a live guest-mode block starting at `p`?  `None` when the ledger
/// cannot tell (tracking off or table overflow).
pub fn is_live(p: usize) -> Option<bool> {
    if !TRACK.load(Relaxed) || OVERFLOW.load(Relaxed) {
        return None;
    }
    let mut i = slot_of(p);
    for _ in 0..SLOTS {
        let k = KEYS[i].load(Relaxed);
        if k == 0 {
            return Some(false);
        }
        if k == p {
            return Some(true);
        }
        i = (i + 1) & (SLOTS - 1);
    }
    Some(false)
}

/// Sizes of the blocks currently in the ledger (debugging aid).
pub fn live_sizes() -> Vec<(usize, usize)> {
    let _g = host_mode();
    let mut v = vec![];
    for i in 0..SLOTS {
        let k = KEYS[i].load(Relaxed);
        if k > TOMB {
            v.push((k, VALS[i].load(Relaxed)));
        }
    }
    v
}
