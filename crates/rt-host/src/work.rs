//! Instrumentation of Rust-level work for the executor checks (C22, C23):
//!
//! * [`Tracked`] wraps the root future of a task and every spawned future: it
//!   reports creation, every poll, completion and destruction (`work.*`
//!   observations), asks the mock host whether the context slot is empty while
//!   the body runs, and hands the inner future a [`WakeSpy`] waker.
//! * [`WakeSpy`] forwards to the executor's waker and reports each wake-up
//!   with the target task and what that task was doing at the time.
//! * [`Chan`] is a minimal Rust-level one-shot/flag built on a stored `Waker`
//!   (the receiver never clears its waker: stale wakers stay around).
//! * [`prog`] is a choice-driven task body mixing yields, spawns, imports,
//!   streams and futures.
use crate::driver::BoxFut;
use crate::host::{self, Ev, TaskSt};
use crate::sched::choose;
use crate::subcall::{CallOnce, PShape, RShape};
use core::future::Future;
use core::pin::Pin;
use core::task::{Context, Poll, Waker};
use std::cell::{Cell, RefCell};
use std::rc::Rc;
use std::sync::Arc;
use std::task::Wake;
use wit_bindgen::rt::async_support as rt;

thread_local! {
    static NEXT_WORK: Cell<u32> = Cell::new(0);
    /// ids of the works being polled right now (innermost last)
    static IN_POLL: RefCell<Vec<u32>> = RefCell::new(Vec::new());
}
pub fn reset() {
    NEXT_WORK.with(|c| c.set(0));
    IN_POLL.with(|c| {
        let mut v = c.borrow_mut();
        v.clear();
        // (reserved here, in host mode: the guest-heap ledger must not see it)
        v.reserve(16);
    });
}

pub fn mon(key: &'static str, a: u64, b: u64) {
    host::with(|h| {
        let task = h.cur_task;
        h.log.push(Ev::Mon { task, key, a, b });
    });
}

pub const KIND_ROOT: u64 = 0;
pub const KIND_SPAWNED: u64 = 1;
/// a sub-future of another tracked work (joined, not spawned)
pub const KIND_PART: u64 = 2;

pub struct Tracked {
    id: u32,
    task: u32,
    fut: Option<BoxFut>,
    finished: bool,
}

impl Tracked {
    pub fn new(kind: u64, fut: BoxFut) -> Tracked {
        let id = NEXT_WORK.with(|c| {
            c.set(c.get() + 1);
            c.get()
        });
        let task = host::with(|h| h.cur_task);
        mon("work.new", id as u64, kind);
        Tracked { id, task, fut: Some(fut), finished: false }
    }
    pub fn boxed(kind: u64, fut: BoxFut) -> BoxFut {
        Box::pin(Tracked::new(kind, fut))
    }
}

impl Future for Tracked {
    type Output = ();
    fn poll(self: Pin<&mut Self>, cx: &mut Context<'_>) -> Poll<()> {
        let me = unsafe { self.get_unchecked_mut() };
        let id = me.id;
        // the body asks the mock host about the context slot of the task it runs in
        let runaway = host::with(|h| {
            let t = h.cur_task;
            *h.checks.entry("context-slot-empty-while-body-runs").or_insert(0) += 1;
            let task = &h.tasks[t as usize];
            if t != 0 && !task.is_block_on && !task.is_v1 && task.ctx != 0 {
                h.log.push(Ev::Mon { task: t, key: "ctx-set-in-body", a: id as u64, b: 0 });
            }
            h.log.push(Ev::Mon { task: t, key: "work.poll", a: id as u64, b: 0 });
            h.log.len() > 80_000
        });
        if runaway {
            // an executor that never stops polling (only reachable with a broken
            // runtime inside `block_on`, where no driver step limit applies)
            host::with(|h| h.trap(host::TrapKind::Runaway, "more than 80000 events in one execution".into()));
            panic!("rt-host: runaway execution, the body is being polled without end");
        }
        let Some(fut) = me.fut.as_mut() else {
            mon("work.poll-after-completion", id as u64, 0);
            return Poll::Ready(());
        };
        let spy = Arc::new(WakeSpy { inner: cx.waker().clone(), work: id, task: me.task });
        let waker = Waker::from(spy);
        let mut cx2 = Context::from_waker(&waker);
        IN_POLL.with(|s| s.borrow_mut().push(id));
        let r = fut.as_mut().poll(&mut cx2);
        IN_POLL.with(|s| {
            s.borrow_mut().pop();
        });
        drop(waker);
        mon("work.polled", id as u64, r.is_ready() as u64);
        if r.is_ready() {
            me.finished = true;
            // the future is destroyed when it completes, as an executor would
            me.fut = None;
            mon("work.finished", id as u64, 0);
        }
        r
    }
}

impl Drop for Tracked {
    fn drop(&mut self) {
        self.fut = None;
        mon("work.dropped", self.id as u64, self.finished as u64);
    }
}

/// What the target task of a wake-up was doing (bits 4.. of the `wake` observation).
pub const TS_POLLING: u64 = 0;
pub const TS_WOKEN: u64 = 1;
pub const TS_SLEEPING: u64 = 2;
pub const TS_RUNNING_IN_POLL: u64 = 3;
pub const TS_RUNNING_NOT_POLLING: u64 = 4;
pub const TS_EXITED: u64 = 5;
pub const TS_OTHER: u64 = 6;

pub struct WakeSpy {
    inner: Waker,
    work: u32,
    task: u32,
}

impl WakeSpy {
    fn note(&self) {
        let own_poll = IN_POLL.with(|s| s.borrow().last() == Some(&self.work));
        let any_poll = IN_POLL.with(|s| !s.borrow().is_empty());
        let target = self.task;
        let state = host::with(|h| {
            let cur = h.cur_task;
            match h.tasks.get(target as usize) {
                None => TS_OTHER,
                Some(t) if t.st == TaskSt::Exited => TS_EXITED,
                Some(t) if t.is_block_on || t.is_v1 => {
                    if cur == target && any_poll {
                        TS_RUNNING_IN_POLL
                    } else {
                        TS_OTHER
                    }
                }
                Some(t) if t.st == TaskSt::Running || cur == target => {
                    if any_poll && cur == target {
                        TS_RUNNING_IN_POLL
                    } else {
                        TS_RUNNING_NOT_POLLING
                    }
                }
                Some(t) if t.ctx != 0 => unsafe { rt::verif::task_sleep_state(t.ctx as *mut u8) as u64 },
                Some(_) => TS_OTHER,
            }
        });
        let flags = (own_poll as u64) | ((any_poll as u64) << 1) | (state << 4) | ((target as u64) << 8);
        mon("wake", self.work as u64, flags);
    }
}

impl Wake for WakeSpy {
    fn wake(self: Arc<Self>) {
        self.note();
        self.inner.wake_by_ref();
    }
    fn wake_by_ref(self: &Arc<Self>) {
        self.note();
        self.inner.wake_by_ref();
    }
}

// ---------------------------------------------------------------- small combinators

/// Poll two futures concurrently; ready when both are.
pub struct Join2 {
    a: Option<BoxFut>,
    b: Option<BoxFut>,
}
impl Join2 {
    pub fn new(a: BoxFut, b: BoxFut) -> Join2 {
        Join2 { a: Some(a), b: Some(b) }
    }
}
impl Future for Join2 {
    type Output = ();
    fn poll(mut self: Pin<&mut Self>, cx: &mut Context<'_>) -> Poll<()> {
        if let Some(f) = self.a.as_mut() {
            if f.as_mut().poll(cx).is_ready() {
                self.a = None;
            }
        }
        if let Some(f) = self.b.as_mut() {
            if f.as_mut().poll(cx).is_ready() {
                self.b = None;
            }
        }
        if self.a.is_none() && self.b.is_none() {
            Poll::Ready(())
        } else {
            Poll::Pending
        }
    }
}

// ---------------------------------------------------------------- Rust-level channel

#[derive(Default)]
pub struct Chan {
    pub value: Option<u32>,
    pub closed: bool,
    /// the receiver's waker; never cleared by the receiver (it may go stale)
    pub waker: Option<Waker>,
    pub sent: u32,
}
pub type ChanRef = Rc<RefCell<Chan>>;

pub fn chan() -> ChanRef {
    Rc::new(RefCell::new(Chan::default()))
}

/// Wake the receiver `k` times without taking its waker.
pub fn chan_wake(c: &ChanRef, k: usize) -> bool {
    let w = c.borrow().waker.clone();
    match w {
        Some(w) => {
            for _ in 0..k {
                w.wake_by_ref();
            }
            true
        }
        None => false,
    }
}

pub fn chan_send(c: &ChanRef, v: u32) {
    {
        let mut c = c.borrow_mut();
        c.value = Some(v);
        c.sent += 1;
    }
    chan_wake(c, 1);
}

/// Closes the channel (and wakes the receiver) when dropped.
pub struct Closer(pub ChanRef);
impl Drop for Closer {
    fn drop(&mut self) {
        self.0.borrow_mut().closed = true;
        chan_wake(&self.0, 1);
    }
}

pub struct Recv(pub ChanRef);
impl Future for Recv {
    type Output = Option<u32>;
    fn poll(self: Pin<&mut Self>, cx: &mut Context<'_>) -> Poll<Option<u32>> {
        let mut c = self.0.borrow_mut();
        if let Some(v) = c.value.take() {
            return Poll::Ready(Some(v));
        }
        if c.closed {
            return Poll::Ready(None);
        }
        c.waker = Some(cx.waker().clone());
        Poll::Pending
    }
}

// ---------------------------------------------------------------- choice-driven task body

#[derive(Copy, Clone, Debug, PartialEq, Eq)]
pub enum Step {
    Finish,
    Yield,
    /// `import(..).await` with the given shapes
    Import(PShape, RShape),
    /// `write_all` of two bytes to a stream whose reader the host holds
    Write,
    /// `next()` on a stream the host writes
    Read,
    /// await a `future<u8>` the host writes
    FutRead,
    /// an import and a stream read awaited concurrently
    Both,
    /// `spawn_local` of a child program (feature `async-spawn`)
    Spawn,
    /// start a stream write, poll it once and leave it registered with the
    /// task while the body goes on (the task must outlive its body)
    LeaveRegistered,
    /// `backpressure_inc` … yield … `backpressure_dec`
    Backpressure,
}

#[derive(Clone, Debug)]
pub struct ProgCfg {
    pub menu: &'static [Step],
    pub steps: u32,
    pub child_menu: &'static [Step],
    pub child_steps: u32,
}

fn peer(acts: u32, items: u32, may_drop: bool) -> crate::machine::PeerCfg {
    crate::machine::PeerCfg { acts, items, may_drop }
}

pub fn prog(cfg: ProgCfg) -> BoxFut {
    Box::pin(async move {
        let mut left = cfg.steps;
        while left > 0 {
            left -= 1;
            let step = cfg.menu[choose(cfg.menu.len(), "guest-act")];
            match step {
                Step::Finish => break,
                Step::Yield => wit_bindgen::yield_async().await,
                Step::Import(p, r) => {
                    CallOnce::new(p, r).await;
                }
                Step::Write => {
                    let mut w = crate::scen::writer_to_host::<u8>(peer(2, 3, true));
                    let back = w.write_all(vec![7u8, 8]).await;
                    drop(back);
                    drop(w);
                }
                Step::Read => {
                    let mut r = crate::scen::reader_from_host::<u8>(peer(2, 2, true), 40);
                    let _ = r.next().await;
                    drop(r);
                }
                Step::FutRead => {
                    let h = host::with(|h| h.host_writer_new(host::Elem::U8, true, peer(1, 1, false).peer(host::Side::Writer), 50));
                    let r = unsafe { wit_bindgen::FutureReader::<u8>::new(h, &crate::payload::U8_FUTURE) };
                    let _ = r.await;
                }
                Step::Both => {
                    let a: BoxFut = Box::pin(async {
                        CallOnce::new(PShape::FlatItem, RShape::U32).await;
                    });
                    let b: BoxFut = Box::pin(async {
                        let mut r = crate::scen::reader_from_host::<u8>(peer(2, 2, true), 60);
                        let _ = r.next().await;
                        drop(r);
                    });
                    Join2::new(a, b).await;
                }
                Step::Spawn => {
                    #[cfg(feature = "async-spawn")]
                    {
                        let child = ProgCfg { menu: cfg.child_menu, steps: cfg.child_steps, child_menu: &[Step::Finish], child_steps: 0 };
                        rt::spawn_local(Tracked::new(KIND_SPAWNED, prog(child)));
                    }
                }
                Step::LeaveRegistered => crate::scen::leave_registered().await,
                Step::Backpressure => {
                    wit_bindgen::backpressure_inc();
                    wit_bindgen::yield_async().await;
                    wit_bindgen::backpressure_dec();
                }
            }
        }
    })
}
