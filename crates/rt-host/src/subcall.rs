//! C21 harness: an instrumented implementation of the runtime's `Subtask` trait
//! (what the Rust generator emits for an async import, see
//! `crates/rust/src/interface.rs::generate_guest_import_body_async`) and a
//! choice-driven guest program that starts, polls and drops such calls.
//!
//! Shapes mirror the generator: at most 4 flat parameters are passed by value,
//! more go through the parameter block (`ParamsLower` is then the block
//! pointer); `abi_layout` is the record of the indirect parameters followed by
//! the result, `results_offset` the offset of the last field (0 without a
//! result).  Every callback reports a `sub.*` fact carrying the call id; the
//! mock host (`Host::subtask_call` …) reads the lowered parameters when the
//! callee starts and writes the result when it returns.
use crate::host::{self, PField, RKind, SubMem};
use crate::machine::{fact, new_slot};
use crate::payload::{tag_for, ItemAbi};
use crate::sched::choose;
use core::alloc::Layout;
use core::future::Future;
use core::mem::ManuallyDrop;
use core::pin::Pin;
use core::task::{Context, Poll};
use std::cell::Cell;
use wit_bindgen::rt::async_support::Subtask;

#[derive(Copy, Clone, Debug, PartialEq, Eq)]
pub enum PShape {
    /// `f(a: u32)` — 1 flat value, no heap data
    FlatScalar,
    /// `f(x: item)` — flat (id, ptr, len), heap data
    FlatItem,
    /// `f(x: item, r: own<res>)` — 4 flat values (the maximum), heap data + own handle
    FlatItemOwn,
    /// `f(a, b, c, d, e: u32)` — 5 flat values: indirect, no heap data
    IndScalars,
    /// `f(x: item, r: own<res>, y: item, n: u32)` — indirect, heap data + own handle
    IndItems,
}

#[derive(Copy, Clone, Debug, PartialEq, Eq)]
pub enum RShape {
    None,
    U32,
    Item,
}

#[repr(C)]
struct IndScalars {
    v: [u32; 5],
}
#[repr(C)]
struct IndItems {
    x: ItemAbi,
    r: u32,
    y: ItemAbi,
    n: u32,
}

thread_local! {
    static NEXT_VAL: Cell<u32> = Cell::new(0);
}
pub fn reset() {
    NEXT_VAL.with(|c| c.set(0));
}
fn fresh() -> u32 {
    NEXT_VAL.with(|c| {
        c.set(c.get() + 1);
        100 + c.get()
    })
}

/// A parameter value with owned heap data (`record item { id: u32, tag: string }`).
pub struct PItem {
    pub id: u32,
    pub tag: String,
}
impl PItem {
    pub fn new(id: u32) -> PItem {
        fact("sub.item-new", id as u64, 0, vec![]);
        PItem { id, tag: tag_for(id) }
    }
}
impl Drop for PItem {
    fn drop(&mut self) {
        fact("sub.item-drop", self.id as u64, 0, vec![]);
    }
}

/// An `own<res>` handle as generated bindings hold it.
pub struct OwnRes {
    handle: u32,
}
impl OwnRes {
    pub fn new() -> OwnRes {
        OwnRes { handle: host::with(|h| h.res_new()) }
    }
    pub fn handle(&self) -> u32 {
        self.handle
    }
    fn take_handle(self) -> u32 {
        let h = self.handle;
        core::mem::forget(self);
        h
    }
}
impl Drop for OwnRes {
    fn drop(&mut self) {
        let h = self.handle;
        host::with(|x| x.res_drop(h));
    }
}

pub struct HParams {
    pub nums: Vec<u32>,
    pub items: Vec<PItem>,
    pub own: Option<OwnRes>,
}

/// A lifted result with owned heap data.
pub struct RItem {
    pub id: u32,
    pub tag: String,
}
impl Drop for RItem {
    fn drop(&mut self) {
        fact("sub.result-drop", self.id as u64, 0, vec![]);
    }
}

pub enum HResults {
    None,
    U32(u32),
    Item(RItem),
    /// returned by a `results_lift` the harness refused to perform (second
    /// lift, or lift of a result area the host never wrote)
    Refused,
}
impl HResults {
    pub fn id(&self) -> u32 {
        match self {
            HResults::None => 0,
            HResults::U32(v) => *v,
            HResults::Item(i) => i.id,
            HResults::Refused => u32::MAX,
        }
    }
}

#[derive(Copy, Clone)]
pub struct PL(pub [usize; 4]);

pub struct HCall {
    pub cid: u32,
    pub p: PShape,
    pub r: RShape,
    nums: Vec<u32>,
    lists_freed: u32,
    lifted: u32,
}

impl HCall {
    pub fn new(p: PShape, r: RShape) -> HCall {
        let cid = new_slot();
        fact("sub.new", cid as u64, 0, vec![p as u32, r as u32]);
        HCall { cid, p, r, nums: vec![], lists_freed: 0, lifted: 0 }
    }

    pub fn make_params(&self) -> HParams {
        let mut p = HParams { nums: vec![], items: vec![], own: None };
        match self.p {
            PShape::FlatScalar => p.nums.push(fresh()),
            PShape::FlatItem => p.items.push(PItem::new(fresh())),
            PShape::FlatItemOwn => {
                p.items.push(PItem::new(fresh()));
                p.own = Some(OwnRes::new());
            }
            PShape::IndScalars => {
                for _ in 0..5 {
                    p.nums.push(fresh());
                }
            }
            PShape::IndItems => {
                p.items.push(PItem::new(fresh()));
                p.own = Some(OwnRes::new());
                p.items.push(PItem::new(fresh()));
                p.nums.push(fresh());
            }
        }
        p
    }

    fn params_layout(&self) -> Layout {
        match self.p {
            PShape::IndScalars => Layout::new::<IndScalars>(),
            PShape::IndItems => Layout::new::<IndItems>(),
            _ => Layout::new::<()>(),
        }
    }
    fn result_layout(&self) -> Layout {
        match self.r {
            RShape::None => Layout::new::<()>(),
            RShape::U32 => Layout::new::<u32>(),
            RShape::Item => Layout::new::<ItemAbi>(),
        }
    }
    fn block(&self) -> (Layout, usize) {
        let (l, off) = self.params_layout().extend(self.result_layout()).unwrap();
        (l.pad_to_align(), if self.r == RShape::None { 0 } else { off })
    }
    fn indirect(&self) -> bool {
        matches!(self.p, PShape::IndScalars | PShape::IndItems)
    }

    fn lower_item(item: PItem) -> ItemAbi {
        let item = ManuallyDrop::new(item);
        let id = item.id;
        let tag = unsafe { core::ptr::read(&item.tag) };
        let b = tag.into_bytes().into_boxed_slice();
        let len = b.len();
        let ptr = Box::into_raw(b) as *mut u8;
        fact("sub.item-lowered", id as u64, 0, vec![]);
        ItemAbi { id, ptr, len }
    }
    unsafe fn free_list(id: u32, ptr: usize, len: usize) {
        if len > 0 {
            unsafe { std::alloc::dealloc(ptr as *mut u8, Layout::from_size_align_unchecked(len, 1)) };
        }
        fact("sub.item-list-freed", id as u64, 0, vec![]);
    }

    /// Shared body of `params_dealloc_lists` / `params_dealloc_lists_and_own`.
    unsafe fn dealloc(&mut self, pl: PL, and_own: bool) {
        let key = if and_own { "sub.dealloc_lists_and_own" } else { "sub.dealloc_lists" };
        self.lists_freed += 1;
        if self.lists_freed > 1 {
            // a second release would free the same list data again: report it
            // and keep the process alive
            fact(key, self.cid as u64, 2, vec![]);
            return;
        }
        if self.indirect() && crate::alloc::is_live(pl.0[0]) == Some(false) {
            fact(key, self.cid as u64, 3, vec![]);
            return;
        }
        fact(key, self.cid as u64, 1, vec![]);
        let mut own: Option<u32> = None;
        unsafe {
            match self.p {
                PShape::FlatScalar | PShape::IndScalars => {}
                PShape::FlatItem => Self::free_list(pl.0[0] as u32, pl.0[1], pl.0[2]),
                PShape::FlatItemOwn => {
                    Self::free_list(pl.0[0] as u32, pl.0[1], pl.0[2]);
                    own = Some(pl.0[3] as u32);
                }
                PShape::IndItems => {
                    let b = pl.0[0] as *const IndItems;
                    let x = core::ptr::read(&(*b).x);
                    let y = core::ptr::read(&(*b).y);
                    Self::free_list(x.id, x.ptr as usize, x.len);
                    Self::free_list(y.id, y.ptr as usize, y.len);
                    own = Some(core::ptr::read(&(*b).r));
                }
            }
        }
        if and_own {
            if let Some(h) = own {
                // generated code lifts the handle back into `Own<R>` and drops it
                drop(OwnRes { handle: h });
            }
        }
    }
}

impl Drop for HCall {
    fn drop(&mut self) {
        fact("sub.impl-drop", self.cid as u64, 0, vec![]);
    }
}

unsafe impl Subtask for HCall {
    type Params = HParams;
    type ParamsLower = PL;
    type Results = HResults;

    fn abi_layout(&mut self) -> Layout {
        self.block().0
    }
    fn results_offset(&mut self) -> usize {
        self.block().1
    }

    unsafe fn call_import(&mut self, pl: PL, results: *mut u8) -> u32 {
        let (layout, off) = self.block();
        let mut params = vec![];
        let base = pl.0[0];
        match self.p {
            PShape::FlatScalar => params.push(PField::FlatU32 { got: pl.0[0] as u32, expect: self.nums[0] }),
            PShape::FlatItem => params.push(PField::FlatItem { id: pl.0[0] as u32, ptr: pl.0[1], len: pl.0[2] }),
            PShape::FlatItemOwn => {
                params.push(PField::FlatItem { id: pl.0[0] as u32, ptr: pl.0[1], len: pl.0[2] });
                params.push(PField::FlatOwn { handle: pl.0[3] as u32 });
            }
            PShape::IndScalars => {
                for i in 0..5 {
                    params.push(PField::MemU32 { addr: base + 4 * i, expect: self.nums[i] });
                }
            }
            PShape::IndItems => {
                params.push(PField::MemItem { addr: base + core::mem::offset_of!(IndItems, x) });
                params.push(PField::MemOwn { addr: base + core::mem::offset_of!(IndItems, r) });
                params.push(PField::MemItem { addr: base + core::mem::offset_of!(IndItems, y) });
                params.push(PField::MemU32 { addr: base + core::mem::offset_of!(IndItems, n), expect: self.nums[0] });
            }
        }
        let block = if layout.size() == 0 { (0, 0) } else { (results as usize - off, layout.size()) };
        let rkind = match self.r {
            RShape::None => RKind::None,
            RShape::U32 => RKind::U32,
            RShape::Item => RKind::Item,
        };
        let cid = self.cid;
        let mem = {
            let _g = crate::alloc::host_mode();
            SubMem { cid, params: params.clone(), results: results as usize, rkind, block }
        };
        drop(params);
        let packed = host::with(|h| h.subtask_call(mem));
        fact("sub.call", cid as u64, packed as u64, vec![]);
        packed
    }

    unsafe fn params_lower(&mut self, mut p: HParams, dst: *mut u8) -> PL {
        fact("sub.lower", self.cid as u64, 0, vec![]);
        self.nums = p.nums.clone();
        let mut items = std::mem::take(&mut p.items).into_iter();
        let own = p.own.take();
        drop(p);
        match self.p {
            PShape::FlatScalar => PL([self.nums[0] as usize, 0, 0, 0]),
            PShape::FlatItem => {
                let a = Self::lower_item(items.next().unwrap());
                PL([a.id as usize, a.ptr as usize, a.len, 0])
            }
            PShape::FlatItemOwn => {
                let a = Self::lower_item(items.next().unwrap());
                let h = own.unwrap().take_handle();
                PL([a.id as usize, a.ptr as usize, a.len, h as usize])
            }
            PShape::IndScalars => {
                let b = dst as *mut IndScalars;
                for i in 0..5 {
                    unsafe { (*b).v[i] = self.nums[i] };
                }
                PL([dst as usize, 0, 0, 0])
            }
            PShape::IndItems => {
                let b = dst as *mut IndItems;
                unsafe {
                    core::ptr::write(&mut (*b).x, Self::lower_item(items.next().unwrap()));
                    core::ptr::write(&mut (*b).r, own.unwrap().take_handle());
                    core::ptr::write(&mut (*b).y, Self::lower_item(items.next().unwrap()));
                    core::ptr::write(&mut (*b).n, self.nums[0]);
                }
                PL([dst as usize, 0, 0, 0])
            }
        }
    }

    unsafe fn params_dealloc_lists(&mut self, pl: PL) {
        unsafe { self.dealloc(pl, false) }
    }

    unsafe fn params_dealloc_lists_and_own(&mut self, pl: PL) {
        unsafe { self.dealloc(pl, true) }
    }

    unsafe fn results_lift(&mut self, src: *mut u8) -> HResults {
        self.lifted += 1;
        let cid = self.cid;
        // never read a result area the host did not fill in (or twice)
        let written = host::with(|h| h.subcalls.iter().rev().find(|r| r.cid == cid).map_or(false, |r| r.result_written.is_some()));
        if self.lifted > 1 || !written {
            fact("sub.lift", cid as u64, if self.lifted > 1 { 2 } else { 3 }, vec![]);
            return HResults::Refused;
        }
        let (layout, off) = self.block();
        if layout.size() > 0 && crate::alloc::is_live(src as usize - off) == Some(false) {
            fact("sub.lift", cid as u64, 4, vec![]);
            return HResults::Refused;
        }
        let r = match self.r {
            RShape::None => HResults::None,
            RShape::U32 => HResults::U32(unsafe { core::ptr::read(src as *const u32) }),
            RShape::Item => {
                let abi = unsafe { core::ptr::read(src as *const ItemAbi) };
                let tag = unsafe { String::from_utf8_unchecked(Vec::from_raw_parts(abi.ptr, abi.len, abi.len)) };
                HResults::Item(RItem { id: abi.id, tag })
            }
        };
        let ok = match &r {
            HResults::Item(i) => i.tag == tag_for(i.id),
            _ => true,
        };
        fact("sub.lift", cid as u64, 1, vec![r.id(), ok as u32]);
        r
    }
}

/// A call in flight: the `Subtask` object and the future borrowing it.
pub struct Flight {
    pub cid: u32,
    fut: Option<Pin<Box<dyn Future<Output = HResults>>>>,
    imp: *mut HCall,
}
impl Flight {
    pub fn new(p: PShape, r: RShape) -> Flight {
        let imp = Box::into_raw(Box::new(HCall::new(p, r)));
        let cid = unsafe { (*imp).cid };
        let params = unsafe { (*imp).make_params() };
        let call: &'static mut HCall = unsafe { &mut *imp };
        let fut: Pin<Box<dyn Future<Output = HResults>>> = Box::pin(Subtask::call(call, params));
        Flight { cid, fut: Some(fut), imp }
    }
    pub fn poll(&mut self, cx: &mut Context<'_>) -> Poll<HResults> {
        self.fut.as_mut().unwrap().as_mut().poll(cx)
    }
}
impl Drop for Flight {
    fn drop(&mut self) {
        // the future (which cancels the call if it is still in progress)
        // goes before the object it borrows
        if self.fut.take().is_some() {
            fact("sub.future-dropped", self.cid as u64, 0, vec![]);
        }
        unsafe { drop(Box::from_raw(self.imp)) };
    }
}

/// `import(..).await` as generated code performs it.
pub struct CallOnce(Option<Flight>);
impl CallOnce {
    pub fn new(p: PShape, r: RShape) -> CallOnce {
        CallOnce(Some(Flight::new(p, r)))
    }
}
impl Future for CallOnce {
    type Output = u32;
    fn poll(mut self: Pin<&mut Self>, cx: &mut Context<'_>) -> Poll<u32> {
        let f = self.0.as_mut().expect("polled after completion");
        match f.poll(cx) {
            Poll::Ready(r) => {
                let id = r.id();
                fact("sub.result", f.cid as u64, id as u64, vec![]);
                drop(r);
                let mut f = self.0.take().unwrap();
                f.fut = None;
                drop(f);
                Poll::Ready(id)
            }
            Poll::Pending => Poll::Pending,
        }
    }
}

// ---------------------------------------------------------------- choice-driven program

#[derive(Clone, Debug)]
pub struct CallCfg {
    pub shapes: Vec<(PShape, RShape)>,
    pub max_calls: u32,
    pub concurrent: usize,
    pub max_actions: u32,
    /// `Yield` before anything was registered is allowed (export tasks)
    pub early_yield: bool,
}

struct Slot {
    f: Flight,
    pending: bool,
}

pub struct CallMachine {
    cfg: CallCfg,
    slots: Vec<Slot>,
    started: u32,
    actions_left: u32,
    ever_pending: bool,
}

#[derive(Copy, Clone)]
enum Act {
    Finish,
    Suspend,
    Poll(usize),
    New,
    Drop(usize),
    Yield,
}

impl CallMachine {
    pub fn new(cfg: CallCfg) -> CallMachine {
        let actions_left = cfg.max_actions;
        CallMachine { cfg, slots: vec![], started: 0, actions_left, ever_pending: false }
    }
    fn finish(&mut self) {
        while !self.slots.is_empty() {
            let i = if self.slots.len() > 1 { choose(self.slots.len(), "finish-op-order") } else { 0 };
            drop(self.slots.remove(i));
        }
    }
}

impl Future for CallMachine {
    type Output = ();
    fn poll(self: Pin<&mut Self>, cx: &mut Context<'_>) -> Poll<()> {
        let me = unsafe { self.get_unchecked_mut() };
        for s in me.slots.iter_mut() {
            s.pending = false;
        }
        loop {
            if me.actions_left == 0 {
                me.finish();
                return Poll::Ready(());
            }
            me.actions_left -= 1;
            let mut acts = vec![Act::Finish];
            if me.slots.iter().any(|s| s.pending) {
                acts.push(Act::Suspend);
            }
            for i in 0..me.slots.len() {
                acts.push(Act::Poll(i));
            }
            if me.started < me.cfg.max_calls && me.slots.len() < me.cfg.concurrent {
                acts.push(Act::New);
            }
            for i in 0..me.slots.len() {
                acts.push(Act::Drop(i));
            }
            if me.cfg.early_yield || me.ever_pending {
                acts.push(Act::Yield);
            }
            match acts[choose(acts.len(), "guest-act")] {
                Act::Finish => {
                    me.finish();
                    return Poll::Ready(());
                }
                Act::Suspend => return Poll::Pending,
                Act::Poll(i) => match me.slots[i].f.poll(cx) {
                    Poll::Ready(r) => {
                        fact("sub.result", me.slots[i].f.cid as u64, r.id() as u64, vec![]);
                        drop(r);
                        let mut s = me.slots.remove(i);
                        s.f.fut = None;
                        drop(s);
                    }
                    Poll::Pending => {
                        me.slots[i].pending = true;
                        me.ever_pending = true;
                    }
                },
                Act::New => {
                    let k = if me.cfg.shapes.len() > 1 { choose(me.cfg.shapes.len(), "call-shape") } else { 0 };
                    let (p, r) = me.cfg.shapes[k];
                    me.started += 1;
                    me.slots.push(Slot { f: Flight::new(p, r), pending: false });
                }
                Act::Drop(i) => drop(me.slots.remove(i)),
                Act::Yield => {
                    cx.waker().wake_by_ref();
                    return Poll::Pending;
                }
            }
        }
    }
}
