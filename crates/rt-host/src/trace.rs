//! Text form and hashing of event traces.  Raw addresses never appear (they
//! differ between runs); everything else does.
use crate::host::{Ev, Gv, Host};

pub fn fmt_ev(ev: &Ev) -> String {
    match ev {
        Ev::Call { task, name, a, b, ret } => {
            if *ret == 0xffff_ffff {
                format!("t{task} {name}({a},{b})=BLOCKED")
            } else {
                format!("t{task} {name}({a},{b})={ret:#x}")
            }
        }
        Ev::Deliver { task, via, code, handle, payload } => format!("t{task} <={via} event({code},{handle},{payload:#x})"),
        Ev::Copy { shared, to_host, k, ids } => format!("copy sh{shared} {} k={k} ids={ids:?}", if *to_host { "guest->host" } else { "->guest" }),
        Ev::Peer { shared, what, arg } => format!("peer sh{shared} {what}({arg})"),
        Ev::TaskStart { task } => format!("t{task} start"),
        Ev::TaskRet { task, code } => match code & 0xf {
            0 => format!("t{task} => EXIT"),
            1 => format!("t{task} => YIELD"),
            2 => format!("t{task} => WAIT({})", code >> 4),
            _ => format!("t{task} => ?{code:#x}"),
        },
        Ev::Snapshot { task, at, set, keys, members, .. } => format!("t{task} snapshot@{at} set={set:?} keys={:?} members={members:?}", keys.iter().map(|k| k.handle).collect::<Vec<_>>()),
        Ev::Ledger(l) => format!("{l:?}"),
        Ev::Guest { task, gv } => match gv {
            Gv::OpNew { slot, handle, kind, ids } => format!("t{task} guest: op{slot} = {kind}(h{handle}, {ids:?})"),
            Gv::OpStarted { slot, rec } => format!("t{task} guest: op{slot} first poll -> host op {rec:?}"),
            Gv::OpResult { slot, how, what, back } => format!("t{task} guest: op{slot} {how} -> {what} {back:?}"),
            Gv::OpDropped { slot } => format!("t{task} guest: drop op{slot}"),
            Gv::Fact { key, a, b, ids } => format!("t{task} guest: {key}({a},{b}) {ids:?}"),
        },
        Ev::Trap { kind, what } => format!("TRAP {}: {what}", kind.name()),
        Ev::InSet { name, handle, set } => format!("{name}({handle}) in-set={set:?}"),
        Ev::Note(k, v) => format!("note {k}={v}"),
        Ev::Mon { task, key, a, b } => format!("t{task} mon: {key}({a},{b})"),
    }
}

pub fn text(host: &Host) -> Vec<String> {
    host.log.iter().map(fmt_ev).collect()
}

/// Hash of the behaviourally relevant part of the trace (calls, deliveries,
/// copies, task returns, guest-visible results); no formatting involved.
pub fn hash(host: &Host) -> u64 {
    struct H(u64);
    impl H {
        fn b(&mut self, x: u8) {
            self.0 ^= x as u64;
            self.0 = self.0.wrapping_mul(0x100000001b3);
        }
        fn n(&mut self, x: u64) {
            for i in 0..8 {
                self.b((x >> (8 * i)) as u8);
            }
        }
        fn s(&mut self, x: &str) {
            for c in x.as_bytes() {
                self.b(*c);
            }
            self.b(0xff);
        }
        fn v(&mut self, x: &[u32]) {
            self.n(x.len() as u64);
            for i in x {
                self.n(*i as u64);
            }
        }
    }
    let mut h = H(0xcbf29ce484222325);
    for ev in &host.log {
        match ev {
            Ev::Snapshot { .. } | Ev::Ledger(_) | Ev::Note(..) | Ev::InSet { .. } | Ev::Mon { .. } => {}
            Ev::Call { name, .. } if *name == "context.get" || *name == "context.set" || *name == "wasip3_task_set" => {}
            Ev::Call { task, name, a, b, ret } => {
                h.b(1);
                h.n(*task as u64);
                h.s(name);
                h.n(*a);
                h.n(*b);
                h.n(*ret);
            }
            Ev::Deliver { task, via, code, handle, payload } => {
                h.b(2);
                h.n(*task as u64);
                h.s(via);
                h.n(*code as u64);
                h.n(*handle as u64);
                h.n(*payload as u64);
            }
            Ev::Copy { shared, to_host, k, ids } => {
                h.b(3);
                h.n(*shared as u64);
                h.b(*to_host as u8);
                h.n(*k as u64);
                h.v(ids);
            }
            Ev::Peer { shared, what, arg } => {
                h.b(4);
                h.n(*shared as u64);
                h.s(what);
                h.n(*arg as u64);
            }
            Ev::TaskStart { task } => {
                h.b(5);
                h.n(*task as u64);
            }
            Ev::TaskRet { task, code } => {
                h.b(6);
                h.n(*task as u64);
                h.n(*code as u64);
            }
            Ev::Guest { task, gv } => {
                h.b(7);
                h.n(*task as u64);
                match gv {
                    Gv::OpNew { slot, handle, kind, ids } => {
                        h.b(1);
                        h.n(*slot as u64);
                        h.n(*handle as u64);
                        h.s(kind);
                        h.v(ids);
                    }
                    Gv::OpStarted { slot, rec } => {
                        h.b(2);
                        h.n(*slot as u64);
                        h.n(rec.map_or(u64::MAX, |r| r as u64));
                    }
                    Gv::OpResult { slot, how, what, back } => {
                        h.b(3);
                        h.n(*slot as u64);
                        h.s(how);
                        h.s(what);
                        h.v(back);
                    }
                    Gv::OpDropped { slot } => {
                        h.b(4);
                        h.n(*slot as u64);
                    }
                    Gv::Fact { key, a, b, ids } => {
                        h.b(5);
                        h.s(key);
                        h.n(*a);
                        h.n(*b);
                        h.v(ids);
                    }
                }
            }
            Ev::Trap { kind, .. } => {
                h.b(8);
                h.s(kind.name());
            }
        }
    }
    h.0
}

/// Sequence of callback codes per task, e.g. `t1:W2,Y,E`.
pub fn code_sequences(host: &Host) -> String {
    let mut s = String::new();
    for t in &host.tasks[1..] {
        s.push_str(&format!("t{}:", t.id));
        for c in &t.codes {
            s.push(match c & 0xf {
                0 => 'E',
                1 => 'Y',
                2 => 'W',
                _ => '?',
            });
        }
        s.push(' ');
    }
    s
}
