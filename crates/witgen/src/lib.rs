//! Seeded random WIT producer.  "Valid world" is defined operationally: the text
//! parses with wit-parser AND `wit_component::encode` of the package validates.
use std::collections::BTreeSet;
use vkit::Rng;
use wit_parser::{Resolve, WorldId};

#[derive(Clone, Copy, Debug, PartialEq, Eq)]
pub enum Names {
    Simple,
    Adversarial,
}

#[derive(Clone, Debug)]
pub struct Cfg {
    pub names: Names,
    pub resources: bool,
    /// futures, streams, async funcs
    pub async_: bool,
    pub error_context: bool,
    pub fixed_lists: bool,
    pub maps: bool,
    pub docs: bool,
    /// several packages (deps, versions)
    pub multi_pkg: bool,
    pub max_depth: usize,
    pub ifaces: usize,
    pub funcs: usize,
    pub types: usize,
    pub max_params: usize,
    /// flags with up to 32 members only (component-encodable); >32 never generated here
    pub world_funcs: bool,
    pub world_types: bool,
    /// allow 64-bit/float/etc everywhere (always true); placeholder for restriction
    pub strings_lists: bool,
    /// import and export the same interface sometimes
    pub same_iface_both: bool,
}

impl Default for Cfg {
    fn default() -> Self {
        Cfg {
            names: Names::Simple,
            resources: true,
            async_: false,
            error_context: false,
            fixed_lists: false,
            maps: true,
            docs: false,
            multi_pkg: false,
            max_depth: 3,
            ifaces: 3,
            funcs: 4,
            types: 5,
            max_params: 5,
            world_funcs: true,
            world_types: true,
            strings_lists: true,
            same_iface_both: true,
        }
    }
}

#[derive(Clone, Debug)]
pub struct World {
    pub wit: String,
    pub world: String,
    /// features used: resource, borrow, future, stream, async-func, error-context,
    /// fixed-list, named-fixed-list, map, flags, variant, ...
    pub tags: BTreeSet<String>,
    /// all doc comments emitted (each a Vec of lines)
    pub docs: Vec<Vec<String>>,
}

const WIT_KEYWORDS: &[&str] = &[
    "use", "type", "func", "u8", "u16", "u32", "u64", "s8", "s16", "s32", "s64", "f32", "f64", "char", "resource", "own",
    "borrow", "record", "flags", "variant", "enum", "bool", "string", "option", "result", "future", "stream",
    "error-context", "list", "map", "as", "from", "static", "interface", "tuple", "world", "import", "export", "package",
    "constructor", "include", "with", "async",
];

const SIMPLE_WORDS: &[&str] = &[
    "alpha", "beta", "gamma", "delta", "item", "value", "count", "name", "data", "node", "edge", "left", "right", "kind",
    "state", "info", "point", "shape", "color", "total", "first", "second", "extra", "big", "small",
];

/// identifiers that collide with target-language keywords, prelude items or
/// generator temporaries
const ADVERSARIAL: &[&str] = &[
    // Rust
    "as", "break", "const", "continue", "crate", "else", "enum", "extern", "false", "fn", "for", "if", "impl", "in",
    "let", "loop", "match", "mod", "move", "mut", "pub", "ref", "return", "self", "static", "struct", "super", "trait",
    "true", "type", "unsafe", "use", "where", "while", "async", "await", "dyn", "abstract", "become", "box", "do",
    "final", "macro", "override", "priv", "typeof", "unsized", "virtual", "yield", "try", "gen", "union",
    // Rust prelude / std names
    "option", "result", "some", "none", "ok", "err", "vec", "string", "box", "drop", "clone", "copy", "send", "sync",
    "default", "debug", "from", "into", "iterator", "std", "core", "alloc", "guest", "resource", "borrow", "future",
    // generator temporaries
    "ptr0", "len0", "result0", "ret", "base", "e", "t", "vec0", "ptr", "len", "result", "arg0", "arg1", "handle",
    "array", "payload", "variant", "layout", "bytes", "new", "rep", "val", "cleanup-list", "ret-area", "addr0", "e0",
    "v0", "l0", "p0", "option0", "key0", "map0", "tuple0", "flags0", "t0", "wit-bindgen", "rt", "exports", "bindings",
    // C / C++
    "auto", "case", "char", "default", "double", "float", "goto", "int", "long", "register", "short", "signed", "sizeof",
    "switch", "typedef", "unsigned", "void", "volatile", "inline", "restrict", "bool", "class", "delete", "explicit",
    "friend", "namespace", "new", "operator", "private", "protected", "public", "template", "this", "throw", "typename",
    "using", "and", "or", "not", "xor", "errno", "main", "stdin", "stdout", "null", "nullptr", "int32-t", "uint8-t", "size-t",
    "exit", "free", "malloc", "abort", "assert", "list", "own", "std", "wit",
    // Go / C# / MoonBit / D
    "chan", "defer", "fallthrough", "func", "go", "interface", "map", "package", "range", "select", "var", "import",
    "object", "params", "namespace", "internal", "event", "decimal", "checked", "lock", "is", "out", "base", "fixed",
    "derive", "test", "guard", "with", "module", "alias", "body", "cast", "debug", "version", "unittest", "scope", "in-out",
];

struct Named {
    name: String,
    has_borrow: bool,
    has_resource: bool,
    is_resource: bool,
}

#[derive(Clone, Copy, PartialEq, Eq, Debug)]
enum Pos {
    Param,
    Result,
    TypeDef,
    /// future/stream payload
    Payload,
}

struct G<'a> {
    rng: &'a mut Rng,
    cfg: &'a Cfg,
    tags: BTreeSet<String>,
    docs: Vec<Vec<String>>,
    counter: usize,
}

fn escape(id: &str) -> String {
    if WIT_KEYWORDS.contains(&id) {
        format!("%{id}")
    } else {
        id.to_string()
    }
}

impl<'a> G<'a> {
    fn tag(&mut self, t: &str) {
        self.tags.insert(t.to_string());
    }

    fn fresh(&mut self, used: &mut BTreeSet<String>, hint: &str) -> String {
        for attempt in 0..50 {
            let cand = match self.cfg.names {
                Names::Simple => {
                    let w = self.rng.pick(SIMPLE_WORDS).to_string();
                    match self.rng.below(3) {
                        0 => format!("{hint}{}", self.next_id()),
                        1 => format!("{w}-{hint}{}", self.next_id()),
                        _ => format!("{hint}-{w}{}", self.next_id()),
                    }
                }
                Names::Adversarial => {
                    if attempt > 20 || self.rng.chance(1, 5) {
                        format!("{hint}{}", self.next_id())
                    } else {
                        let w = self.rng.pick(ADVERSARIAL).to_string();
                        match self.rng.below(8) {
                            0 => format!("{w}-{}", self.rng.pick(ADVERSARIAL)),
                            1 => w.to_uppercase(),
                            2 => w.replace('-', ""),
                            _ => w,
                        }
                    }
                }
            };
            let key = cand.to_lowercase();
            if !used.contains(&key) && valid_id(&cand) {
                used.insert(key);
                return cand;
            }
        }
        let cand = format!("{hint}x{}", self.next_id());
        used.insert(cand.clone());
        cand
    }

    fn next_id(&mut self) -> usize {
        self.counter += 1;
        self.counter
    }

    fn doc(&mut self, indent: &str, out: &mut String) {
        if !self.cfg.docs || self.rng.chance(1, 3) {
            return;
        }
        const PIECES: &[&str] = &[
            "plain words here", "{", "}", "} else {", "// nested comment marker", "/* block */", "<b>bold</b>", "<a href=\"#x\">x</a>",
            "[`link`](target)", "`code {`", "* bullet", "# heading", "a < b && c > d", "trailing brace {", "} leading brace",
            "https://example.com/a//b", "&amp; entity", "\"quoted\"", "tab\there", "|table|cell|", "1. numbered", "> quote",
            "    indented code", "```", "unicode ✓ λ", "back\\slash", "[bracket]", "(paren)", "$dollar", "semi;colon",
        ];
        let n = self.rng.range(1, 4);
        let mut lines = vec![];
        for _ in 0..n {
            let k = self.rng.range(1, 3);
            let mut l = String::new();
            for i in 0..k {
                if i > 0 {
                    l.push(' ');
                }
                l.push_str(*self.rng.pick(PIECES));
            }
            lines.push(l);
        }
        for l in &lines {
            out.push_str(indent);
            out.push_str("/// ");
            out.push_str(l);
            out.push('\n');
        }
        self.docs.push(lines);
    }

    fn prim(&mut self) -> &'static str {
        const P: &[&str] = &["bool", "u8", "s8", "u16", "s16", "u32", "s32", "u64", "s64", "f32", "f64", "char", "string"];
        *self.rng.pick(P)
    }

    fn key_type(&mut self) -> &'static str {
        const P: &[&str] = &["bool", "u8", "s8", "u16", "s16", "u32", "s32", "u64", "s64", "char", "string"];
        *self.rng.pick(P)
    }

    /// A type expression.  Returns (text, has_borrow, has_resource).
    fn ty(&mut self, scope: &[Named], pos: Pos, depth: usize) -> (String, bool, bool) {
        let leafy = depth >= self.cfg.max_depth;
        loop {
            let roll = self.rng.below(if leafy { 10 } else { 24 });
            match roll {
                0..=5 => return (self.prim().to_string(), false, false),
                6..=9 => {
                    // named type from scope
                    let cands: Vec<&Named> = scope
                        .iter()
                        .filter(|n| match pos {
                            Pos::Param => true,
                            Pos::Result | Pos::Payload => !n.has_borrow,
                            Pos::TypeDef => true,
                        })
                        .collect();
                    if cands.is_empty() {
                        continue;
                    }
                    let n = cands[self.rng.usize(cands.len())];
                    if n.is_resource {
                        // own handle, or borrow where allowed
                        if matches!(pos, Pos::Param | Pos::TypeDef) && self.rng.chance(1, 2) {
                            self.tag("borrow");
                            return (format!("borrow<{}>", escape(&n.name)), true, true);
                        }
                        self.tag("own");
                        return (escape(&n.name), false, true);
                    }
                    return (escape(&n.name), n.has_borrow, n.has_resource);
                }
                10 | 11 => {
                    let (t, b, r) = self.ty(scope, pos, depth + 1);
                    self.tag("list");
                    return (format!("list<{t}>"), b, r);
                }
                12 | 13 => {
                    let (t, b, r) = self.ty(scope, pos, depth + 1);
                    self.tag("option");
                    return (format!("option<{t}>"), b, r);
                }
                14 | 15 => {
                    self.tag("result");
                    let ok = if self.rng.chance(3, 4) { Some(self.ty(scope, pos, depth + 1)) } else { None };
                    let err = if self.rng.chance(3, 4) { Some(self.ty(scope, pos, depth + 1)) } else { None };
                    let b = ok.as_ref().map(|x| x.1).unwrap_or(false) || err.as_ref().map(|x| x.1).unwrap_or(false);
                    let r = ok.as_ref().map(|x| x.2).unwrap_or(false) || err.as_ref().map(|x| x.2).unwrap_or(false);
                    let s = match (ok, err) {
                        (Some(o), Some(e)) => format!("result<{}, {}>", o.0, e.0),
                        (Some(o), None) => format!("result<{}>", o.0),
                        (None, Some(e)) => format!("result<_, {}>", e.0),
                        (None, None) => "result".to_string(),
                    };
                    return (s, b, r);
                }
                16 | 17 => {
                    self.tag("tuple");
                    let n = self.rng.range(1, 4);
                    let mut parts = vec![];
                    let (mut b, mut r) = (false, false);
                    for _ in 0..n {
                        let (t, bb, rr) = self.ty(scope, pos, depth + 1);
                        parts.push(t);
                        b |= bb;
                        r |= rr;
                    }
                    return (format!("tuple<{}>", parts.join(", ")), b, r);
                }
                18 => {
                    if !self.cfg.maps {
                        continue;
                    }
                    self.tag("map");
                    let k = self.key_type();
                    let (v, b, r) = self.ty(scope, pos, depth + 1);
                    return (format!("map<{k}, {v}>"), b, r);
                }
                19 => {
                    if !self.cfg.fixed_lists {
                        continue;
                    }
                    self.tag("fixed-list");
                    let (t, b, r) = self.ty(scope, pos, depth + 2);
                    let n = self.rng.range(1, 4);
                    return (format!("list<{t}, {n}>"), b, r);
                }
                20 | 21 => {
                    if !self.cfg.async_ {
                        continue;
                    }
                    let fut = self.rng.chance(1, 2);
                    self.tag(if fut { "future" } else { "stream" });
                    let kw = if fut { "future" } else { "stream" };
                    if self.rng.chance(1, 5) {
                        return (kw.to_string(), false, true);
                    }
                    let (mut t, _, _) = self.ty(scope, Pos::Payload, depth + 1);
                    if t == "char" && !fut {
                        t = "u8".to_string(); // stream<char> is rejected by the component model
                    }
                    return (format!("{kw}<{t}>"), false, true);
                }
                22 => {
                    if !self.cfg.error_context {
                        continue;
                    }
                    self.tag("error-context");
                    return ("error-context".to_string(), false, true);
                }
                _ => continue,
            }
        }
    }

    fn typedefs(&mut self, ind: &str, out: &mut String, scope: &mut Vec<Named>, used: &mut BTreeSet<String>, n: usize, allow_resource: bool) {
        for _ in 0..n {
            self.doc(ind, out);
            let roll = self.rng.below(12);
            match roll {
                0 | 1 | 2 => {
                    let name = self.fresh(used, "rec");
                    self.tag("record");
                    let nf = self.rng.range(1, 5);
                    let mut fused = BTreeSet::new();
                    let (mut b, mut r) = (false, false);
                    out.push_str(&format!("{ind}record {} {{\n", escape(&name)));
                    for _ in 0..nf {
                        let f = self.fresh(&mut fused, "f");
                        let (t, bb, rr) = self.ty(scope, Pos::TypeDef, 1);
                        b |= bb;
                        r |= rr;
                        self.doc(&format!("{ind}  "), out);
                        out.push_str(&format!("{ind}  {}: {t},\n", escape(&f)));
                    }
                    out.push_str(&format!("{ind}}}\n"));
                    scope.push(Named { name, has_borrow: b, has_resource: r, is_resource: false });
                }
                3 | 4 | 5 => {
                    let name = self.fresh(used, "var");
                    self.tag("variant");
                    let nc = self.rng.range(1, 5);
                    let mut cused = BTreeSet::new();
                    let (mut b, mut r) = (false, false);
                    out.push_str(&format!("{ind}variant {} {{\n", escape(&name)));
                    for _ in 0..nc {
                        let c = self.fresh(&mut cused, "c");
                        self.doc(&format!("{ind}  "), out);
                        if self.rng.chance(2, 3) {
                            let (t, bb, rr) = self.ty(scope, Pos::TypeDef, 1);
                            b |= bb;
                            r |= rr;
                            out.push_str(&format!("{ind}  {}({t}),\n", escape(&c)));
                        } else {
                            out.push_str(&format!("{ind}  {},\n", escape(&c)));
                        }
                    }
                    out.push_str(&format!("{ind}}}\n"));
                    scope.push(Named { name, has_borrow: b, has_resource: r, is_resource: false });
                }
                6 => {
                    let name = self.fresh(used, "en");
                    self.tag("enum");
                    let nc = match self.rng.below(6) {
                        0 => 1,
                        1 => 257,
                        _ => self.rng.range(2, 6),
                    };
                    let mut cused = BTreeSet::new();
                    out.push_str(&format!("{ind}enum {} {{\n", escape(&name)));
                    for i in 0..nc {
                        let c = if nc > 10 { format!("c{i}") } else { self.fresh(&mut cused, "c") };
                        out.push_str(&format!("{ind}  {},\n", escape(&c)));
                    }
                    out.push_str(&format!("{ind}}}\n"));
                    scope.push(Named { name, has_borrow: false, has_resource: false, is_resource: false });
                }
                7 => {
                    let name = self.fresh(used, "fl");
                    self.tag("flags");
                    let nc = *self.rng.pick(&[1usize, 2, 7, 8, 9, 15, 16, 17, 31, 32, 3, 5]);
                    let mut cused = BTreeSet::new();
                    out.push_str(&format!("{ind}flags {} {{\n", escape(&name)));
                    for i in 0..nc {
                        let c = if nc > 10 { format!("b{i}") } else { self.fresh(&mut cused, "b") };
                        out.push_str(&format!("{ind}  {},\n", escape(&c)));
                    }
                    out.push_str(&format!("{ind}}}\n"));
                    scope.push(Named { name, has_borrow: false, has_resource: false, is_resource: false });
                }
                8 | 9 => {
                    let name = self.fresh(used, "ty");
                    let before = self.tags.contains("fixed-list");
                    let (t, b, r) = self.ty(scope, Pos::TypeDef, 0);
                    if t.starts_with("list<") && t.ends_with('>') && !before && self.tags.contains("fixed-list") && t.rsplit(',').next().map(|x| x.trim().trim_end_matches('>').parse::<u32>().is_ok()).unwrap_or(false) {
                        self.tag("named-fixed-list");
                    }
                    if t.contains(", ") && t.starts_with("list<") {
                        // conservative: any named alias whose text is a fixed list
                        if t.rsplit(',').next().map(|x| x.trim().trim_end_matches('>').parse::<u32>().is_ok()).unwrap_or(false) {
                            self.tag("named-fixed-list");
                        }
                    }
                    out.push_str(&format!("{ind}type {} = {t};\n", escape(&name)));
                    scope.push(Named { name, has_borrow: b, has_resource: r, is_resource: false });
                }
                _ => {
                    if !(self.cfg.resources && allow_resource) {
                        continue;
                    }
                    let name = self.fresh(used, "res");
                    self.tag("resource");
                    // resource must be in scope for its own methods
                    scope.push(Named { name: name.clone(), has_borrow: false, has_resource: true, is_resource: true });
                    out.push_str(&format!("{ind}resource {} {{\n", escape(&name)));
                    let ind2 = format!("{ind}  ");
                    if self.rng.chance(2, 3) {
                        let params = self.params(scope);
                        if self.rng.chance(1, 4) {
                            self.tag("fallible-constructor");
                            out.push_str(&format!("{ind2}constructor({params}) -> result<{}, string>;\n", escape(&name)));
                        } else {
                            out.push_str(&format!("{ind2}constructor({params});\n"));
                        }
                    }
                    let nm = self.rng.usize(4);
                    let mut mused = BTreeSet::new();
                    for _ in 0..nm {
                        let m = self.fresh(&mut mused, "m");
                        self.doc(&ind2, out);
                        let sig = self.func_sig(scope);
                        let st = if self.rng.chance(1, 3) { "static " } else { "" };
                        out.push_str(&format!("{ind2}{}: {st}{sig};\n", escape(&m)));
                    }
                    out.push_str(&format!("{ind}}}\n"));
                }
            }
        }
    }

    fn params(&mut self, scope: &[Named]) -> String {
        let n = match self.rng.below(10) {
            0 => 0,
            1 => self.rng.range(0, self.cfg.max_params * 3),
            _ => self.rng.range(0, self.cfg.max_params),
        };
        let mut used = BTreeSet::new();
        let mut parts = vec![];
        for _ in 0..n {
            let p = self.fresh(&mut used, "p");
            let (t, _, _) = self.ty(scope, Pos::Param, 0);
            parts.push(format!("{}: {t}", escape(&p)));
        }
        parts.join(", ")
    }

    fn func_sig(&mut self, scope: &[Named]) -> String {
        let params = self.params(scope);
        let asy = if self.cfg.async_ && self.rng.chance(1, 3) {
            self.tag("async-func");
            "async "
        } else {
            ""
        };
        if self.rng.chance(3, 4) {
            let (t, _, _) = self.ty(scope, Pos::Result, 0);
            format!("{asy}func({params}) -> {t}")
        } else {
            format!("{asy}func({params})")
        }
    }

    fn funcs(&mut self, ind: &str, out: &mut String, scope: &[Named], used: &mut BTreeSet<String>, n: usize) -> Vec<String> {
        let mut names = vec![];
        for _ in 0..n {
            let f = self.fresh(used, "fn");
            self.doc(ind, out);
            let sig = self.func_sig(scope);
            out.push_str(&format!("{ind}{}: {sig};\n", escape(&f)));
            names.push(f);
        }
        names
    }
}

fn valid_id(id: &str) -> bool {
    if id.is_empty() {
        return false;
    }
    id.split('-').all(|w| {
        let mut cs = w.chars();
        match cs.next() {
            Some(c) if c.is_ascii_alphabetic() => {}
            _ => return false,
        }
        let lower = w.chars().all(|c| c.is_ascii_lowercase() || c.is_ascii_digit());
        let upper = w.chars().all(|c| c.is_ascii_uppercase() || c.is_ascii_digit());
        lower || upper
    })
}

/// Generate one world.  Not guaranteed valid: callers filter with `parse` +
/// `check_encodable`.
pub fn generate(rng: &mut Rng, cfg: &Cfg) -> World {
    if cfg.multi_pkg {
        return generate_multi(rng, cfg);
    }
    let mut g = G { rng, cfg, tags: BTreeSet::new(), docs: vec![], counter: 0 };
    let mut out = String::new();
    let mut top_used: BTreeSet<String> = BTreeSet::new();
    let ns = if cfg.names == Names::Adversarial { g.fresh(&mut BTreeSet::new(), "ns") } else { "test".to_string() };
    let ns = ns.to_lowercase();
    let pkg = g.fresh(&mut top_used, "pkg").to_lowercase();
    let version = if g.rng.chance(1, 3) { "@1.2.3" } else { "" };
    out.push_str(&format!("package {}:{}{};\n\n", escape(&ns), escape(&pkg), version));

    let n_if = g.rng.range(1, cfg.ifaces.max(1));
    // (name, exported type names that may be `use`d: (name, Named-ish))
    let mut ifaces: Vec<(String, Vec<Named>)> = vec![];
    for _ in 0..n_if {
        let iname = g.fresh(&mut top_used, "iface");
        g.doc("", &mut out);
        out.push_str(&format!("interface {} {{\n", escape(&iname)));
        let mut used = BTreeSet::new();
        let mut scope: Vec<Named> = vec![];
        // use from an earlier interface
        if !ifaces.is_empty() && g.rng.chance(1, 2) {
            let idx = g.rng.usize(ifaces.len());
            let (src_name, src_types) = (&ifaces[idx].0.clone(), &ifaces[idx].1);
            let mut picks = vec![];
            for t in src_types.iter() {
                if g.rng.chance(1, 2) && !used.contains(&t.name.to_lowercase()) {
                    used.insert(t.name.to_lowercase());
                    picks.push(escape(&t.name));
                    scope.push(Named { name: t.name.clone(), has_borrow: t.has_borrow, has_resource: t.has_resource, is_resource: t.is_resource });
                }
            }
            if !picks.is_empty() {
                g.tag("use");
                out.push_str(&format!("  use {}.{{{}}};\n", escape(src_name), picks.join(", ")));
            }
        }
        let nt = g.rng.range(0, cfg.types);
        g.typedefs("  ", &mut out, &mut scope, &mut used, nt, true);
        let nf = g.rng.range(if nt == 0 { 1 } else { 0 }, cfg.funcs);
        g.funcs("  ", &mut out, &scope, &mut used, nf);
        out.push_str("}\n\n");
        ifaces.push((iname, scope));
    }

    let wname = g.fresh(&mut top_used, "wrld");
    g.doc("", &mut out);
    out.push_str(&format!("world {} {{\n", escape(&wname)));
    let mut wused: BTreeSet<String> = BTreeSet::new();
    let mut any = false;
    for (iname, _) in &ifaces {
        let roll = g.rng.below(if cfg.same_iface_both { 5 } else { 4 });
        let e = escape(iname);
        match roll {
            0 | 1 => out.push_str(&format!("  import {e};\n")),
            2 | 3 => out.push_str(&format!("  export {e};\n")),
            _ => {
                g.tag("import-export-same");
                out.push_str(&format!("  import {e};\n  export {e};\n"));
            }
        }
        wused.insert(iname.to_lowercase());
        any = true;
    }
    let mut wscope: Vec<Named> = vec![];
    if cfg.world_types && g.rng.chance(1, 2) {
        // world-level types (imported types); resources at world level too
        if !ifaces.is_empty() && g.rng.chance(1, 2) {
            let idx = g.rng.usize(ifaces.len());
            let (src_name, src_types) = (&ifaces[idx].0.clone(), &ifaces[idx].1);
            let mut picks = vec![];
            for t in src_types.iter() {
                if g.rng.chance(1, 2) && !wused.contains(&t.name.to_lowercase()) {
                    wused.insert(t.name.to_lowercase());
                    picks.push(escape(&t.name));
                    wscope.push(Named { name: t.name.clone(), has_borrow: t.has_borrow, has_resource: t.has_resource, is_resource: t.is_resource });
                }
            }
            if !picks.is_empty() {
                out.push_str(&format!("  use {}.{{{}}};\n", escape(src_name), picks.join(", ")));
            }
        }
        let n = g.rng.range(0, 3);
        g.tag("world-types");
        g.typedefs("  ", &mut out, &mut wscope, &mut wused, n, true);
    }
    if cfg.world_funcs || !any {
        let n = g.rng.range(if any { 0 } else { 1 }, 3);
        for _ in 0..n {
            let f = g.fresh(&mut wused, "wf");
            let sig = g.func_sig(&wscope);
            let dir = if g.rng.chance(1, 2) { "import" } else { "export" };
            g.doc("  ", &mut out);
            out.push_str(&format!("  {dir} {}: {sig};\n", escape(&f)));
        }
    }
    out.push_str("}\n");
    World { wit: out, world: wname, tags: g.tags, docs: g.docs }
}

/// `Cfg.multi_pkg`: one WIT document holding several packages — a root package
/// (`package ns:name@ver;`) with the world, preceded by nested
/// `package ns:name@ver { interface … }` blocks.  Packages are chosen so that
/// name clashes the backends must disambiguate occur often: the same package
/// name under two namespaces, the same `ns:name` in two versions, kebab-case
/// package / interface names, and the same interface name in several packages.
/// Interfaces `use` types from earlier interfaces of their own package (bare
/// name) and of earlier packages (`use ns:name/iface@ver.{…}`), the world
/// imports/exports interfaces of every package and may `use` foreign types.
///
/// Tags added: `multi-package`, `foreign-use`, `same-pkg-name-two-namespaces`,
/// `same-pkg-two-versions`, `same-iface-name-two-packages`, `versioned`.
fn generate_multi(rng: &mut Rng, cfg: &Cfg) -> World {
    const NAMESPACES: &[&str] = &["test", "other-ns", "wasi", "my-org", "a", "acme-corp"];
    const PKG_NAMES: &[&str] = &["dep-pkg", "lib", "http-types", "my-lib", "io", "core-utils", "x"];
    const IFACE_NAMES: &[&str] = &["types", "api", "my-iface", "http-types", "error", "io", "handler-api", "t"];
    const VERSIONS: &[&str] = &["", "@1.0.0", "@0.2.0", "@0.2.1", "@2.0.0-rc.1", "@1.2.3"];
    let mut g = G { rng, cfg, tags: BTreeSet::new(), docs: vec![], counter: 0 };
    g.tag("multi-package");

    // --- choose the package identities (last one is the root package)
    let n_deps = g.rng.range(2, 4);
    let mut ids: Vec<(String, String, String)> = vec![];
    let mut attempts = 0;
    while ids.len() < n_deps + 1 && attempts < 200 {
        attempts += 1;
        let cand = if !ids.is_empty() && g.rng.chance(1, 3) {
            // provoke a clash with an existing package
            let (ns, name, ver) = ids[g.rng.usize(ids.len())].clone();
            match g.rng.below(3) {
                0 => (g.rng.pick(NAMESPACES).to_string(), name, ver),
                1 => (ns, name, g.rng.pick(VERSIONS).to_string()),
                _ => (g.rng.pick(NAMESPACES).to_string(), name, g.rng.pick(VERSIONS).to_string()),
            }
        } else {
            (g.rng.pick(NAMESPACES).to_string(), g.rng.pick(PKG_NAMES).to_string(), g.rng.pick(VERSIONS).to_string())
        };
        // (ns, name) with and without version cannot coexist unambiguously for bare references; keep triples distinct
        // and never mix "no version" with "some version" of the same ns:name
        let clash = ids.iter().any(|i| i.0 == cand.0 && i.1 == cand.1 && (i.2 == cand.2 || i.2.is_empty() || cand.2.is_empty()));
        if !clash {
            ids.push(cand);
        }
    }
    while ids.len() < 2 {
        let k = ids.len();
        ids.push(("test".to_string(), format!("fallback-pkg{k}"), String::new()));
    }
    for (i, a) in ids.iter().enumerate() {
        for b in ids.iter().skip(i + 1) {
            if a.1 == b.1 && a.0 != b.0 {
                g.tag("same-pkg-name-two-namespaces");
            }
            if a.1 == b.1 && a.0 == b.0 {
                g.tag("same-pkg-two-versions");
            }
        }
        if !a.2.is_empty() {
            g.tag("versioned");
        }
    }
    let root = ids.len() - 1;

    // --- interfaces: (package index, name, exported types)
    struct Iface {
        pkg: usize,
        name: String,
        types: Vec<Named>,
    }
    let total_ifaces = g.rng.range(ids.len(), cfg.ifaces.max(ids.len()));
    let mut per_pkg: Vec<usize> = vec![1; ids.len()];
    for _ in ids.len()..total_ifaces {
        let k = g.rng.usize(ids.len());
        per_pkg[k] += 1;
    }
    let mut ifaces: Vec<Iface> = vec![];
    let mut blocks: Vec<String> = vec![String::new(); ids.len()];
    let mut names_seen: BTreeSet<String> = BTreeSet::new();
    for p in 0..ids.len() {
        let mut pkg_used: BTreeSet<String> = BTreeSet::new();
        let ind0 = if p == root { "" } else { "  " };
        for _ in 0..per_pkg[p] {
            let mut iname = String::new();
            for _ in 0..20 {
                let c = if g.rng.chance(3, 4) { g.rng.pick(IFACE_NAMES).to_string() } else { g.fresh(&mut BTreeSet::new(), "iface") };
                if !pkg_used.contains(&c.to_lowercase()) {
                    iname = c;
                    break;
                }
            }
            if iname.is_empty() {
                iname = g.fresh(&mut pkg_used.clone(), "iface");
            }
            pkg_used.insert(iname.to_lowercase());
            if !names_seen.insert(iname.clone()) {
                g.tag("same-iface-name-two-packages");
            }
            let out = &mut String::new();
            g.doc(ind0, out);
            out.push_str(&format!("{ind0}interface {} {{\n", escape(&iname)));
            let ind = format!("{ind0}  ");
            let mut used = BTreeSet::new();
            let mut scope: Vec<Named> = vec![];
            // `use` from up to two earlier interfaces (same or earlier package)
            let n_use = if ifaces.is_empty() { 0 } else { g.rng.range(0, 2) };
            let mut used_srcs: BTreeSet<usize> = BTreeSet::new();
            for _ in 0..n_use {
                let idx = g.rng.usize(ifaces.len());
                if !used_srcs.insert(idx) {
                    continue;
                }
                let src = &ifaces[idx];
                let mut picks = vec![];
                for t in src.types.iter() {
                    if g.rng.chance(1, 2) && !used.contains(&t.name.to_lowercase()) {
                        used.insert(t.name.to_lowercase());
                        picks.push(escape(&t.name));
                        scope.push(Named { name: t.name.clone(), has_borrow: t.has_borrow, has_resource: t.has_resource, is_resource: t.is_resource });
                    }
                }
                if picks.is_empty() {
                    continue;
                }
                g.tag("use");
                let path = if src.pkg == p {
                    escape(&src.name)
                } else {
                    g.tag("foreign-use");
                    let (ns, name, ver) = &ids[src.pkg];
                    format!("{ns}:{name}/{}{ver}", escape(&src.name))
                };
                out.push_str(&format!("{ind}use {path}.{{{}}};\n", picks.join(", ")));
            }
            let nt = g.rng.range(0, cfg.types);
            g.typedefs(&ind, out, &mut scope, &mut used, nt, true);
            let nf = g.rng.range(if nt == 0 { 1 } else { 0 }, cfg.funcs);
            g.funcs(&ind, out, &scope, &mut used, nf);
            out.push_str(&format!("{ind0}}}\n\n"));
            blocks[p].push_str(out);
            ifaces.push(Iface { pkg: p, name: iname, types: scope });
        }
    }

    // --- the world (root package)
    let mut top_used: BTreeSet<String> = ifaces.iter().filter(|i| i.pkg == root).map(|i| i.name.to_lowercase()).collect();
    let wname = g.fresh(&mut top_used, "wrld");
    let mut w = String::new();
    g.doc("", &mut w);
    w.push_str(&format!("world {} {{\n", escape(&wname)));
    let mut wused: BTreeSet<String> = BTreeSet::new();
    let path_of = |i: &Iface| -> String {
        if i.pkg == root {
            escape(&i.name)
        } else {
            let (ns, name, ver) = &ids[i.pkg];
            format!("{ns}:{name}/{}{ver}", escape(&i.name))
        }
    };
    for i in &ifaces {
        let e = path_of(i);
        match g.rng.below(if cfg.same_iface_both { 6 } else { 5 }) {
            0 | 1 => w.push_str(&format!("  import {e};\n")),
            2 | 3 => w.push_str(&format!("  export {e};\n")),
            4 => {} // reachable only through `use` (or not at all)
            _ => {
                g.tag("import-export-same");
                w.push_str(&format!("  import {e};\n  export {e};\n"));
            }
        }
        if i.pkg == root {
            wused.insert(i.name.to_lowercase());
        }
    }
    let mut wscope: Vec<Named> = vec![];
    if cfg.world_types && g.rng.chance(1, 2) {
        let idx = g.rng.usize(ifaces.len());
        let src = &ifaces[idx];
        let mut picks = vec![];
        for t in src.types.iter() {
            if g.rng.chance(1, 2) && !wused.contains(&t.name.to_lowercase()) {
                wused.insert(t.name.to_lowercase());
                picks.push(escape(&t.name));
                wscope.push(Named { name: t.name.clone(), has_borrow: t.has_borrow, has_resource: t.has_resource, is_resource: t.is_resource });
            }
        }
        if !picks.is_empty() {
            if src.pkg != root {
                g.tag("foreign-use");
            }
            w.push_str(&format!("  use {}.{{{}}};\n", path_of(src), picks.join(", ")));
        }
        let n = g.rng.range(0, 2);
        g.tag("world-types");
        g.typedefs("  ", &mut w, &mut wscope, &mut wused, n, true);
    }
    let n = g.rng.range(1, 3);
    for _ in 0..n {
        let f = g.fresh(&mut wused, "wf");
        let sig = g.func_sig(&wscope);
        let dir = if g.rng.chance(1, 2) { "import" } else { "export" };
        g.doc("  ", &mut w);
        w.push_str(&format!("  {dir} {}: {sig};\n", escape(&f)));
    }
    w.push_str("}\n");

    let mut out = String::new();
    let (ns, name, ver) = &ids[root];
    out.push_str(&format!("package {ns}:{name}{ver};\n\n"));
    for p in 0..root {
        let (ns, name, ver) = &ids[p];
        out.push_str(&format!("package {ns}:{name}{ver} {{\n{}}}\n\n", blocks[p]));
    }
    out.push_str(&blocks[root]);
    out.push_str(&w);
    World { wit: out, world: wname, tags: g.tags, docs: g.docs }
}

/// Parse WIT text and select its single world.
pub fn parse(wit: &str) -> anyhow::Result<(Resolve, WorldId)> {
    let mut resolve = Resolve::default();
    resolve.all_features = true;
    let pkg = resolve.push_str("gen.wit", wit)?;
    let world = resolve.select_world(&[pkg], None)?;
    Ok((resolve, world))
}

pub fn parse_world(wit: &str, world: Option<&str>) -> anyhow::Result<(Resolve, WorldId)> {
    let mut resolve = Resolve::default();
    resolve.all_features = true;
    let pkg = resolve.push_str("gen.wit", wit)?;
    let world = resolve.select_world(&[pkg], world)?;
    Ok((resolve, world))
}

/// The component model really admits this package: its binary encoding validates.
pub fn check_encodable(resolve: &Resolve, world: WorldId) -> anyhow::Result<()> {
    let pkg = resolve.worlds[world].package.unwrap();
    let bytes = wit_component::encode(resolve, pkg)?;
    wasmparser::Validator::new_with_features(wasmparser::WasmFeatures::all()).validate_all(&bytes)?;
    // and the world can be embedded (what guest toolchains do)
    let mut module = wit_component::dummy_module(resolve, world, wit_parser::ManglingAndAbi::Standard32);
    wit_component::embed_component_metadata(&mut module, resolve, world, wit_component::StringEncoding::UTF8)?;
    Ok(())
}

/// Generate until valid (bounded attempts).  Returns (world, resolve, id, discarded).
pub fn generate_valid(rng: &mut Rng, cfg: &Cfg) -> Option<(World, Resolve, WorldId, usize)> {
    let mut discarded = 0;
    for _ in 0..40 {
        let w = generate(rng, cfg);
        match parse(&w.wit) {
            Ok((r, id)) => match check_encodable(&r, id) {
                Ok(()) => return Some((w, r, id, discarded)),
                Err(e) => {
                    if std::env::var("WITGEN_DEBUG").is_ok() {
                        eprintln!("witgen: not encodable: {e:#}\n{}", w.wit);
                    }
                    discarded += 1;
                }
            },
            Err(e) => {
                if std::env::var("WITGEN_DEBUG").is_ok() {
                    eprintln!("witgen: parse failed: {e:#}\n{}", w.wit);
                }
                discarded += 1;
            }
        }
    }
    None
}

/// Hand-written boundary shapes (always included by the ABI checks).
pub fn boundary_corpus() -> Vec<(&'static str, String)> {
    let mut v = vec![];
    let mut flags = String::new();
    for n in [1usize, 2, 7, 8, 9, 15, 16, 17, 31, 32] {
        flags.push_str(&format!("  flags fl{n} {{ {} }}\n", (0..n).map(|i| format!("b{i}")).collect::<Vec<_>>().join(", ")));
        flags.push_str(&format!("  flags-{n}: func(a: fl{n}, b: u8, c: fl{n}) -> fl{n};\n"));
        flags.push_str(&format!("  flags-rec-{n}: func(a: tuple<u8, fl{n}, u8>) -> list<fl{n}>;\n"));
    }
    v.push(("flags", format!("package v:b;\ninterface i {{\n{flags}}}\nworld w {{ import i; export i; }}\n")));
    v.push((
        "variants",
        r#"package v:b;
interface i {
  variant v-u8-u64 { a(u8), b(u64) }
  variant v-join-all { a(s32), b(f32), c(s64), d(f64), e(string), f(list<u8>), g }
  variant v-i32-f32 { a(u32), b(f32) }
  variant v-f32-f64 { a(f32), b(f64) }
  variant v-ptr-i64 { a(string), b(u64) }
  variant v-ptr-f64 { a(list<u16>), b(f64), c(f32) }
  variant v-len-f32 { a(tuple<u8, string>), b(tuple<u8, u8, f32>), c(tuple<f32, f32, f64>) }
  variant v-nested { a(option<option<u8>>), b(result<u64, f32>), c(tuple<u8, u16, u32, u64>) }
  record r-pad { a: u8, b: u64, c: u8, d: u16, e: u8, f: u32 }
  record r-var { a: u8, v: v-u8-u64, b: u8 }
  enum e1 { a }
  enum e3 { a, b, c }
  f1: func(a: v-u8-u64) -> v-u8-u64;
  f2: func(a: v-join-all) -> v-join-all;
  f3: func(a: v-i32-f32, b: v-f32-f64) -> tuple<v-i32-f32, v-f32-f64>;
  f4: func(a: v-ptr-i64, b: v-ptr-f64) -> list<v-ptr-i64>;
  f5: func(a: v-len-f32) -> option<v-len-f32>;
  f6: func(a: v-nested, b: r-pad, c: r-var) -> tuple<v-nested, r-pad, r-var>;
  f7: func(a: e1, b: e3, c: option<e3>, d: result<e1, e3>) -> result<option<e3>, e1>;
  f8: func(a: result<_, f64>, b: result<u8>, c: result, d: option<result<string, string>>) -> result<list<string>, list<u8>>;
  f9: func(a: list<list<string>>, b: list<option<list<u8>>>, c: list<tuple<u8, u64>>) -> list<list<list<u8>>>;
  f10: func(a: char, b: bool, c: s8, d: s16, e: u16, f: f32, g: f64, h: s64) -> tuple<char, bool, s8, s16, u16, f32, f64, s64>;
}
world w { import i; export i; }
"#
        .to_string(),
    ));
    v.push((
        "maps",
        r#"package v:b;
interface i {
  record mv { a: u8, b: u64 }
  m1: func(a: map<u8, u64>) -> map<u8, u64>;
  m2: func(a: map<string, mv>) -> map<u32, string>;
  m3: func(a: map<u64, u8>, b: map<char, list<u8>>) -> map<bool, map<u8, string>>;
  m4: func(a: option<map<s8, f64>>, b: list<map<u16, u16>>) -> tuple<map<u8, u8>, u8>;
}
world w { import i; export i; }
"#
        .to_string(),
    ));
    // 15/16/17 flat params; 3/4/5 async params; 0/1/2 results
    let mut lim = String::new();
    for n in [0usize, 1, 3, 4, 5, 15, 16, 17, 20] {
        let ps = (0..n).map(|i| format!("p{i}: u32")).collect::<Vec<_>>().join(", ");
        lim.push_str(&format!("  lim-{n}: func({ps}) -> u32;\n"));
        lim.push_str(&format!("  lim-{n}-r2: func({ps}) -> tuple<u32, u32>;\n"));
        lim.push_str(&format!("  lim-{n}-r0: func({ps});\n"));
        lim.push_str(&format!("  alim-{n}: async func({ps}) -> u64;\n"));
        lim.push_str(&format!("  alim-{n}-s: async func({ps}) -> string;\n"));
    }
    lim.push_str("  lim-str8: func(a: string, b: string, c: string, d: string, e: string, f: string, g: string, h: string) -> string;\n");
    lim.push_str("  lim-str9: func(a: string, b: string, c: string, d: string, e: string, f: string, g: string, h: string, i: u8) -> list<string>;\n");
    lim.push_str("  lim-mixed: func(a: u8, b: f32, c: u64, d: f64, e: list<u8>, f: option<u64>, g: result<f32, u64>, h: tuple<u8, u64>, i: char, j: bool) -> result<tuple<u8, u64>, string>;\n");
    lim.push_str("  lim-r16: func() -> tuple<u32,u32,u32,u32,u32,u32,u32,u32,u32,u32,u32,u32,u32,u32,u32,u32>;\n");
    lim.push_str("  lim-r17: func() -> tuple<u32,u32,u32,u32,u32,u32,u32,u32,u32,u32,u32,u32,u32,u32,u32,u32,u32>;\n");
    lim.push_str("  alim-r16: async func() -> tuple<u32,u32,u32,u32,u32,u32,u32,u32,u32,u32,u32,u32,u32,u32,u32,u32>;\n");
    lim.push_str("  alim-r17: async func() -> tuple<u32,u32,u32,u32,u32,u32,u32,u32,u32,u32,u32,u32,u32,u32,u32,u32,u32>;\n");
    v.push(("limits", format!("package v:b;\ninterface i {{\n{lim}}}\nworld w {{ import i; export i; }}\n")));
    v.push((
        "handles",
        r#"package v:b;
interface i {
  resource r { constructor(a: u32); get: func() -> u32; }
  h1: func(a: r, b: borrow<r>) -> r;
  h2: func(a: list<r>, b: option<borrow<r>>) -> result<r, string>;
  h3: func(a: future<u8>, b: stream<string>, c: future, d: stream) -> tuple<future<list<u8>>, stream<r>>;
  h4: func(a: tuple<r, u64>, b: list<borrow<r>>) -> option<r>;
  h5: func(a: error-context) -> result<u8, error-context>;
}
world w { import i; export i; }
"#
        .to_string(),
    ));
    v.push((
        "fixed",
        r#"package v:b;
interface i {
  x1: func(a: list<u8, 4>) -> list<u32, 2>;
  x2: func(a: list<tuple<u8, u64>, 3>) -> list<list<u16, 2>, 2>;
  x3: func(a: option<list<f32, 2>>, b: list<list<u8, 3>>) -> result<list<s64, 2>, u8>;
  x4: func(a: list<string, 2>) -> list<list<u8>, 2>;
}
world w { import i; export i; }
"#
        .to_string(),
    ));
    v
}
