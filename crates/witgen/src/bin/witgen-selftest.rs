use vkit::{Args, Rng};
use witgen::*;
fn main() {
    let a = Args::parse();
    let n = a.u64("n", 200);
    let mut rng = Rng::new(a.seed());
    let mut ok = 0;
    let mut bad = 0;
    let mut tags = std::collections::BTreeMap::new();
    for i in 0..n {
        let cfg = Cfg {
            names: if i % 2 == 0 { Names::Simple } else { Names::Adversarial },
            async_: i % 3 == 0,
            error_context: i % 5 == 0,
            fixed_lists: i % 4 == 0,
            docs: i % 2 == 1,
            multi_pkg: a.get("multi").is_some(),
            ifaces: if a.get("multi").is_some() { 8 } else { 3 },
            ..Default::default()
        };
        let w = generate(&mut rng, &cfg);
        let res = parse(&w.wit).and_then(|(r, id)| check_encodable(&r, id));
        match res {
            Ok(()) => {
                ok += 1;
                for t in &w.tags {
                    *tags.entry(t.clone()).or_insert(0) += 1;
                }
            }
            Err(e) => {
                bad += 1;
                if a.get("v").is_some() {
                    println!("---- INVALID: {e:#}\n{}", w.wit);
                } else {
                    println!("INVALID: {}", format!("{e:#}").lines().last().unwrap_or(""));
                }
            }
        }
        if a.get("print").is_some() && i < 3 {
            println!("{}", w.wit);
        }
    }
    println!("ok={ok} bad={bad} tags={tags:?}");
    for (name, wit) in boundary_corpus() {
        match parse(&wit).and_then(|(r, id)| check_encodable(&r, id)) {
            Ok(()) => println!("corpus {name}: ok"),
            Err(e) => println!("corpus {name}: INVALID {e:#}"),
        }
    }
}
