// Locates the repository under test (VERIF_REPO, default /repo) so that
// crates/test/src/config.rs -- a private module of wit-bindgen-test -- can be
// compiled into the C34 harness: writes $OUT_DIR/config_mod.rs holding a
// `#[path = "<repo>/crates/test/src/config.rs"] pub mod config;` item.
use std::path::PathBuf;
fn main() {
    let repo = std::env::var("VERIF_REPO").unwrap_or_else(|_| "/repo".to_string());
    let cfg = format!("{repo}/crates/test/src/config.rs");
    let out = PathBuf::from(std::env::var("OUT_DIR").unwrap()).join("config_mod.rs");
    std::fs::write(&out, format!("#[path = {cfg:?}]\npub mod config;\n")).unwrap();
    println!("cargo:rustc-env=VERIF_TEST_CONFIG_RS={cfg}");
    println!("cargo:rerun-if-env-changed=VERIF_REPO");
    println!("cargo:rerun-if-changed={cfg}");
    println!("cargo:rerun-if-changed=build.rs");
}
