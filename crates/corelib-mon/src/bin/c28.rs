//! C28 — type analysis identifies exactly the structurally equal types.
//!
//! Worlds rich in equal / near-equal types (same bodies under different names,
//! renamed fields, reordered cases, aliases, `use … as …`, same-shape distinct
//! resources, nested anonymous types), plus witgen worlds, are analysed by the
//! real `wit_bindgen_core::Types`.
//!
//!  A. classes — `analyze` + `collect_equal_types(|_| true)`; for every pair of
//!     live types (`LiveTypes::add_world`) `get_representative_type` must agree
//!     iff the canonical strings computed here agree (dealiased type tree with
//!     field / case / flag names in order; a resource is equal only to itself;
//!     type names are not part of the string).
//!  B. facts — on a second `Types` (analyze only) every type's content facts and
//!     every NAMED type's usage facts must lie between the weakest (`lo`) and
//!     the most generous (`hi`) reading of the statement computed here.
//!  C. union — after merging, each live type carries the union of the facts its
//!     (oracle) class members had before merging.
//!  D. end-to-end — the real Rust generator with merge_structurally_equal_types:
//!     the number of `struct`/`enum` items named after live record / variant /
//!     enum types equals the number of classes among them (syn-parsed output).
use corelib_mon::{catch, clip, fan_out, only_case};
use serde_json::{json, Value};
use std::collections::{BTreeMap, BTreeSet, HashMap};
use vkit::{Args, Report, Rng};
use wit_bindgen_core::{Files, TypeInfo, Types, WorldGenerator};
use wit_parser::{Function, Handle, LiveTypes, Resolve, Type, TypeDefKind, TypeId, WorldId, WorldItem};

// ------------------------------------------------------------ world generator

#[derive(Clone)]
struct Named {
    name: String,
    is_resource: bool,
    has_borrow: bool,
    /// text of a closed body (only primitives) so that it can be repeated elsewhere
    closed_body: Option<String>,
}

struct Gen<'a> {
    rng: &'a mut Rng,
    counter: usize,
    /// closed definitions seen so far in this world: (keyword, body)
    bodies: Vec<(String, String)>,
    use_async: bool,
}

const PRIMS: &[&str] = &["u32", "string", "u8", "bool", "u32", "string"];
const FIELDS: &[&str] = &["x", "y", "z"];
const CASES: &[&str] = &["a", "b", "c"];

impl Gen<'_> {
    fn id(&mut self, p: &str) -> String {
        self.counter += 1;
        format!("{p}{}", self.counter)
    }

    /// (text, has_borrow)
    fn ty(&mut self, scope: &[Named], depth: usize, allow_borrow: bool) -> (String, bool) {
        let roll = self.rng.below(if depth >= 2 { 9 } else { 20 });
        match roll {
            0..=3 => (self.rng.pick(PRIMS).to_string(), false),
            4..=8 => {
                let c: Vec<&Named> = scope.iter().filter(|n| allow_borrow || !n.has_borrow).collect();
                if c.is_empty() {
                    return (self.rng.pick(PRIMS).to_string(), false);
                }
                let n = c[self.rng.usize(c.len())];
                if n.is_resource {
                    if allow_borrow && self.rng.chance(1, 2) {
                        (format!("borrow<{}>", n.name), true)
                    } else {
                        (n.name.clone(), false)
                    }
                } else {
                    (n.name.clone(), n.has_borrow)
                }
            }
            9 | 10 => {
                let (t, b) = self.ty(scope, depth + 1, allow_borrow);
                (format!("list<{t}>"), b)
            }
            11 | 12 => {
                let (t, b) = self.ty(scope, depth + 1, allow_borrow);
                (format!("option<{t}>"), b)
            }
            13 | 14 => {
                let (t, b) = self.ty(scope, depth + 1, allow_borrow);
                let (u, c) = self.ty(scope, depth + 1, allow_borrow);
                (format!("tuple<{t}, {u}>"), b || c)
            }
            15 | 16 => {
                let (t, b) = self.ty(scope, depth + 1, allow_borrow);
                let (u, c) = self.ty(scope, depth + 1, allow_borrow);
                match self.rng.below(4) {
                    0 => (format!("result<_, {u}>"), c),
                    1 => (format!("result<{t}>"), b),
                    _ => (format!("result<{t}, {u}>"), b || c),
                }
            }
            17 => {
                let (t, b) = self.ty(scope, depth + 1, allow_borrow);
                (format!("map<string, {t}>"), b)
            }
            18 if self.use_async => {
                let (t, _) = self.ty(scope, depth + 1, false);
                let t = if t == "char" { "u8".to_string() } else { t };
                if self.rng.chance(1, 2) {
                    (format!("future<{t}>"), false)
                } else {
                    (format!("stream<{t}>"), false)
                }
            }
            _ => {
                let (t, b) = self.ty(scope, depth + 1, allow_borrow);
                (format!("list<{t}>"), b)
            }
        }
    }

    fn small_ty(&mut self, scope: &[Named]) -> (String, bool, bool) {
        // (text, has_borrow, closed)
        if self.rng.chance(3, 5) {
            (self.rng.pick(&["u32", "string", "u32", "list<u8>"]).to_string(), false, true)
        } else {
            let (t, b) = self.ty(scope, 1, true);
            let closed = !scope.iter().any(|n| t.contains(&n.name));
            (t, b, closed)
        }
    }

    fn typedefs(&mut self, out: &mut String, scope: &mut Vec<Named>, n: usize) {
        for _ in 0..n {
            // repeat a closed body seen elsewhere under a new name
            if !self.bodies.is_empty() && self.rng.chance(1, 3) {
                let (kw, body) = self.bodies[self.rng.usize(self.bodies.len())].clone();
                let name = self.id(&format!("{}x", &kw[..1]));
                out.push_str(&format!("  {kw} {name} {body}\n"));
                scope.push(Named { name, is_resource: false, has_borrow: false, closed_body: Some(body) });
                continue;
            }
            match self.rng.below(14) {
                0..=3 => {
                    let name = self.id("rc");
                    let nf = self.rng.range(1, 2);
                    let mut names: Vec<&str> = FIELDS.to_vec();
                    self.rng.shuffle(&mut names);
                    let mut parts = vec![];
                    let (mut hb, mut closed) = (false, true);
                    for f in names.iter().take(nf) {
                        let (t, b, c) = self.small_ty(scope);
                        hb |= b;
                        closed &= c;
                        parts.push(format!("{f}: {t}"));
                    }
                    let body = format!("{{ {} }}", parts.join(", "));
                    out.push_str(&format!("  record {name} {body}\n"));
                    if closed {
                        self.bodies.push(("record".into(), body.clone()));
                    }
                    scope.push(Named { name, is_resource: false, has_borrow: hb, closed_body: closed.then_some(body) });
                }
                4 | 5 => {
                    let name = self.id("vr");
                    let nc = self.rng.range(1, 3);
                    let mut names: Vec<&str> = CASES.to_vec();
                    if self.rng.chance(1, 3) {
                        self.rng.shuffle(&mut names);
                    }
                    let mut parts = vec![];
                    let (mut hb, mut closed) = (false, true);
                    for c in names.iter().take(nc) {
                        if self.rng.chance(1, 2) {
                            let (t, b, cl) = self.small_ty(scope);
                            hb |= b;
                            closed &= cl;
                            parts.push(format!("{c}({t})"));
                        } else {
                            parts.push(c.to_string());
                        }
                    }
                    let body = format!("{{ {} }}", parts.join(", "));
                    out.push_str(&format!("  variant {name} {body}\n"));
                    if closed {
                        self.bodies.push(("variant".into(), body.clone()));
                    }
                    scope.push(Named { name, is_resource: false, has_borrow: hb, closed_body: None });
                }
                6 | 7 => {
                    let kw = if self.rng.chance(1, 2) { "enum" } else { "flags" };
                    let name = self.id(&format!("{}y", &kw[..1]));
                    let nc = self.rng.range(1, 3);
                    let mut names: Vec<&str> = CASES.to_vec();
                    if self.rng.chance(1, 3) {
                        self.rng.shuffle(&mut names);
                    }
                    let body = format!("{{ {} }}", names[..nc].join(", "));
                    out.push_str(&format!("  {kw} {name} {body}\n"));
                    self.bodies.push((kw.into(), body));
                    scope.push(Named { name, is_resource: false, has_borrow: false, closed_body: None });
                }
                8..=10 => {
                    let name = self.id("ty");
                    let (t, b) = if self.rng.chance(1, 2) && !scope.is_empty() {
                        // plain alias of a named type
                        let c: Vec<Named> = scope.iter().filter(|n| !n.is_resource).cloned().collect();
                        if c.is_empty() {
                            self.ty(scope, 0, true)
                        } else {
                            let n = &c[self.rng.usize(c.len())];
                            (n.name.clone(), n.has_borrow)
                        }
                    } else {
                        self.ty(scope, 0, true)
                    };
                    // a named handle alias (`type t = borrow<r>`) makes the Rust generator panic (C16's business)
                    let t = if t.starts_with("borrow<") { format!("list<{t}>") } else { t };
                    out.push_str(&format!("  type {name} = {t};\n"));
                    scope.push(Named { name, is_resource: false, has_borrow: b, closed_body: None });
                }
                _ => {
                    let name = self.id("res");
                    scope.push(Named { name: name.clone(), is_resource: true, has_borrow: false, closed_body: None });
                    if self.rng.chance(1, 2) {
                        out.push_str(&format!("  resource {name};\n"));
                    } else {
                        let (p, _) = self.ty(scope, 1, true);
                        out.push_str(&format!("  resource {name} {{\n    constructor(a: {p});\n    m{}: func() -> u32;\n  }}\n", self.counter));
                    }
                }
            }
        }
    }

    fn func(&mut self, out: &mut String, scope: &[Named], prefix: &str) {
        let name = self.id("fn");
        let np = self.rng.range(0, 3);
        let mut ps = vec![];
        for i in 0..np {
            let (t, _) = self.ty(scope, 0, true);
            ps.push(format!("p{i}: {t}"));
        }
        let res = if self.rng.chance(3, 4) {
            let (t, _) = if self.rng.chance(1, 3) {
                // result with an error type, so `error` facts get exercised
                let (ok, _) = self.ty(scope, 1, false);
                let (err, _) = self.ty(scope, 1, false);
                (format!("result<{ok}, {err}>"), false)
            } else {
                self.ty(scope, 0, false)
            };
            format!(" -> {t}")
        } else {
            String::new()
        };
        let a = if self.use_async && self.rng.chance(1, 4) { "async " } else { "" };
        out.push_str(&format!("  {prefix}{name}: {a}func({}){res};\n", ps.join(", ")));
    }
}

struct GenWorld {
    wit: String,
    both_ways: bool,
}

fn gen_world(rng: &mut Rng) -> GenWorld {
    let use_async = rng.chance(1, 4);
    let mut g = Gen { rng, counter: 0, bodies: vec![], use_async };
    let mut s = String::from("package t:p;\n");
    let n_if = g.rng.range(1, 3);
    let mut ifaces: Vec<(String, Vec<Named>)> = vec![];
    for k in 0..n_if {
        let iname = format!("i{k}");
        s.push_str(&format!("interface {iname} {{\n"));
        let mut scope: Vec<Named> = vec![];
        if !ifaces.is_empty() && g.rng.chance(2, 3) {
            let (src, types) = ifaces[g.rng.usize(ifaces.len())].clone();
            let mut picks = vec![];
            for t in &types {
                if g.rng.chance(1, 2) {
                    if g.rng.chance(1, 3) {
                        let nn = g.id("qu");
                        picks.push(format!("{} as {nn}", t.name));
                        scope.push(Named { name: nn, ..t.clone() });
                    } else {
                        picks.push(t.name.clone());
                        scope.push(t.clone());
                    }
                }
            }
            if !picks.is_empty() {
                s.push_str(&format!("  use {src}.{{{}}};\n", picks.join(", ")));
            }
        }
        let nt = g.rng.range(1, 6);
        g.typedefs(&mut s, &mut scope, nt);
        for _ in 0..g.rng.range(1, 3) {
            g.func(&mut s, &scope, "");
        }
        s.push_str("}\n");
        ifaces.push((iname, scope));
    }
    s.push_str("world w {\n");
    let mut both_ways = false;
    let mut any = false;
    for (i, _) in &ifaces {
        match g.rng.below(7) {
            0..=2 => s.push_str(&format!("  import {i};\n")),
            3..=5 => s.push_str(&format!("  export {i};\n")),
            _ => {
                both_ways = true;
                s.push_str(&format!("  import {i};\n  export {i};\n"));
            }
        }
        any = true;
    }
    let _ = any;
    let mut wscope: Vec<Named> = vec![];
    if g.rng.chance(1, 2) {
        let (src, types) = ifaces[g.rng.usize(ifaces.len())].clone();
        let picks: Vec<String> = types
            .iter()
            .filter(|_| g.rng.chance(1, 2))
            .map(|t| {
                wscope.push(t.clone());
                t.name.clone()
            })
            .collect();
        if !picks.is_empty() {
            s.push_str(&format!("  use {src}.{{{}}};\n", picks.join(", ")));
        }
        let n = g.rng.range(0, 3);
        g.typedefs(&mut s, &mut wscope, n);
    }
    for _ in 0..g.rng.range(0, 2) {
        let dir = if g.rng.chance(1, 2) { "import " } else { "export " };
        g.func(&mut s, &wscope, dir);
    }
    s.push_str("}\n");
    GenWorld { wit: s, both_ways }
}

// ------------------------------------------------------------ oracle: structure

fn prim_name(t: &Type) -> &'static str {
    match t {
        Type::Bool => "bool",
        Type::U8 => "u8",
        Type::U16 => "u16",
        Type::U32 => "u32",
        Type::U64 => "u64",
        Type::S8 => "s8",
        Type::S16 => "s16",
        Type::S32 => "s32",
        Type::S64 => "s64",
        Type::F32 => "f32",
        Type::F64 => "f64",
        Type::Char => "char",
        Type::String => "string",
        Type::ErrorContext => "error-context",
        Type::Id(_) => "?",
    }
}

struct Oracle<'a> {
    r: &'a Resolve,
    canon: HashMap<TypeId, String>,
    content: HashMap<TypeId, Content>,
}

/// facts: 0 has_list, 1 has_tuple, 2 has_resource, 3 has_borrow_handle, 4 has_own_handle
#[derive(Clone, Copy, Default, Debug)]
struct Content {
    lo: [bool; 5],
    hi: [bool; 5],
}
impl Content {
    fn or(&mut self, o: Content) {
        for i in 0..5 {
            self.lo[i] |= o.lo[i];
            self.hi[i] |= o.hi[i];
        }
    }
    fn both(&mut self, i: usize) {
        self.lo[i] = true;
        self.hi[i] = true;
    }
}

impl<'a> Oracle<'a> {
    fn canon_ty(&mut self, t: &Type) -> String {
        match t {
            Type::Id(id) => self.canon_id(*id),
            p => prim_name(p).to_string(),
        }
    }
    fn canon_opt(&mut self, t: &Option<Type>) -> String {
        match t {
            Some(t) => self.canon_ty(t),
            None => "_".into(),
        }
    }
    fn canon_id(&mut self, id: TypeId) -> String {
        if let Some(s) = self.canon.get(&id) {
            return s.clone();
        }
        let r = self.r;
        let s = match &r.types[id].kind {
            TypeDefKind::Type(t) => self.canon_ty(t),
            TypeDefKind::Record(rec) => {
                let fs: Vec<String> = rec.fields.iter().map(|f| format!("{}:{}", f.name, self.canon_ty(&f.ty))).collect();
                format!("record{{{}}}", fs.join(","))
            }
            TypeDefKind::Variant(v) => {
                let cs: Vec<String> = v.cases.iter().map(|c| format!("{}({})", c.name, self.canon_opt(&c.ty))).collect();
                format!("variant{{{}}}", cs.join(","))
            }
            TypeDefKind::Enum(e) => format!("enum{{{}}}", e.cases.iter().map(|c| c.name.clone()).collect::<Vec<_>>().join(",")),
            TypeDefKind::Flags(f) => format!("flags{{{}}}", f.flags.iter().map(|c| c.name.clone()).collect::<Vec<_>>().join(",")),
            TypeDefKind::Tuple(t) => format!("tuple<{}>", t.types.iter().map(|t| self.canon_ty(t)).collect::<Vec<_>>().join(",")),
            TypeDefKind::List(t) => format!("list<{}>", self.canon_ty(t)),
            TypeDefKind::FixedLengthList(t, n) => format!("list<{},{n}>", self.canon_ty(t)),
            TypeDefKind::Option(t) => format!("option<{}>", self.canon_ty(t)),
            TypeDefKind::Result(res) => format!("result<{},{}>", self.canon_opt(&res.ok), self.canon_opt(&res.err)),
            TypeDefKind::Map(k, v) => format!("map<{},{}>", self.canon_ty(k), self.canon_ty(v)),
            TypeDefKind::Future(t) => format!("future<{}>", self.canon_opt(t)),
            TypeDefKind::Stream(t) => format!("stream<{}>", self.canon_opt(t)),
            TypeDefKind::Handle(Handle::Own(x)) => format!("own<{}>", self.canon_id(*x)),
            TypeDefKind::Handle(Handle::Borrow(x)) => format!("borrow<{}>", self.canon_id(*x)),
            TypeDefKind::Resource => format!("resource#{}", id.index()),
            TypeDefKind::Unknown => "unknown".into(),
        };
        self.canon.insert(id, s.clone());
        s
    }

    fn kind_name(&self, id: TypeId) -> &'static str {
        let mut id = id;
        loop {
            return match &self.r.types[id].kind {
                TypeDefKind::Type(Type::Id(x)) => {
                    id = *x;
                    continue;
                }
                TypeDefKind::Type(_) => "primitive-alias",
                TypeDefKind::Record(_) => "record",
                TypeDefKind::Variant(_) => "variant",
                TypeDefKind::Enum(_) => "enum",
                TypeDefKind::Flags(_) => "flags",
                TypeDefKind::Tuple(_) => "tuple",
                TypeDefKind::List(_) => "list",
                TypeDefKind::FixedLengthList(..) => "fixed-list",
                TypeDefKind::Option(_) => "option",
                TypeDefKind::Result(_) => "result",
                TypeDefKind::Map(..) => "map",
                TypeDefKind::Future(_) => "future",
                TypeDefKind::Stream(_) => "stream",
                TypeDefKind::Handle(Handle::Own(_)) => "own",
                TypeDefKind::Handle(Handle::Borrow(_)) => "borrow",
                TypeDefKind::Resource => "resource",
                TypeDefKind::Unknown => "unknown",
            };
        }
    }

    fn content_ty(&mut self, t: &Type) -> Content {
        let mut c = Content::default();
        match t {
            Type::String => c.both(0),
            Type::ErrorContext => c.hi[2] = true, // "a resource (or handle)": unclear ⇒ either
            Type::Id(id) => return self.content_id(*id),
            _ => {}
        }
        c
    }
    fn content_opt(&mut self, t: &Option<Type>) -> Content {
        t.as_ref().map(|t| self.content_ty(t)).unwrap_or_default()
    }
    fn content_id(&mut self, id: TypeId) -> Content {
        if let Some(c) = self.content.get(&id) {
            return *c;
        }
        let r = self.r;
        let mut c = Content::default();
        match &r.types[id].kind {
            TypeDefKind::Type(t) | TypeDefKind::Option(t) => c = self.content_ty(t),
            TypeDefKind::Record(rec) => {
                for f in &rec.fields {
                    c.or(self.content_ty(&f.ty));
                }
            }
            TypeDefKind::Variant(v) => {
                for case in &v.cases {
                    c.or(self.content_opt(&case.ty));
                }
            }
            TypeDefKind::Enum(_) | TypeDefKind::Flags(_) => {}
            TypeDefKind::Tuple(t) => {
                for t in &t.types {
                    c.or(self.content_ty(t));
                }
                c.both(1);
            }
            TypeDefKind::List(t) => {
                c = self.content_ty(t);
                c.both(0);
            }
            TypeDefKind::FixedLengthList(t, _) => {
                c = self.content_ty(t);
                c.hi[0] = true; // is a fixed-length list "a list"? either
            }
            TypeDefKind::Map(k, v) => {
                c = self.content_ty(k);
                c.or(self.content_ty(v));
                c.hi[0] = true; // is a map "a list"? either
            }
            TypeDefKind::Result(res) => {
                c = self.content_opt(&res.ok);
                c.or(self.content_opt(&res.err));
            }
            TypeDefKind::Future(t) | TypeDefKind::Stream(t) => {
                // handles of their own kind; whether they (and their payload) count is unclear ⇒ hi only
                let p = self.content_opt(t);
                for i in 0..5 {
                    c.hi[i] |= p.hi[i];
                }
                c.hi[2] = true;
                c.hi[4] = true;
            }
            TypeDefKind::Handle(Handle::Own(_)) => {
                c.both(2);
                c.both(4);
            }
            TypeDefKind::Handle(Handle::Borrow(_)) => {
                c.both(2);
                c.both(3);
            }
            TypeDefKind::Resource => c.both(2),
            TypeDefKind::Unknown => {}
        }
        self.content.insert(id, c);
        c
    }

    /// type ids reachable from `t`; `through_payloads` also enters future/stream payloads
    fn reach(&self, t: &Type, through_payloads: bool, out: &mut BTreeSet<TypeId>) {
        let Type::Id(id) = t else { return };
        if !out.insert(*id) {
            return;
        }
        let r = self.r;
        match &r.types[*id].kind {
            TypeDefKind::Type(t) | TypeDefKind::Option(t) | TypeDefKind::List(t) | TypeDefKind::FixedLengthList(t, _) => self.reach(t, through_payloads, out),
            TypeDefKind::Record(rec) => rec.fields.iter().for_each(|f| self.reach(&f.ty, through_payloads, out)),
            TypeDefKind::Variant(v) => v.cases.iter().filter_map(|c| c.ty.as_ref()).for_each(|t| self.reach(t, through_payloads, out)),
            TypeDefKind::Tuple(t) => t.types.iter().for_each(|t| self.reach(t, through_payloads, out)),
            TypeDefKind::Map(k, v) => {
                self.reach(k, through_payloads, out);
                self.reach(v, through_payloads, out);
            }
            TypeDefKind::Result(res) => {
                if let Some(t) = &res.ok {
                    self.reach(t, through_payloads, out);
                }
                if let Some(t) = &res.err {
                    self.reach(t, through_payloads, out);
                }
            }
            TypeDefKind::Future(t) | TypeDefKind::Stream(t) => {
                if through_payloads {
                    if let Some(t) = t {
                        self.reach(t, through_payloads, out);
                    }
                }
            }
            TypeDefKind::Handle(Handle::Own(x)) | TypeDefKind::Handle(Handle::Borrow(x)) => self.reach(&Type::Id(*x), through_payloads, out),
            TypeDefKind::Resource | TypeDefKind::Enum(_) | TypeDefKind::Flags(_) | TypeDefKind::Unknown => {}
        }
    }
}

/// usage facts: 0 borrowed, 1 owned, 2 error
#[derive(Default)]
struct Usage {
    lo: [BTreeSet<TypeId>; 3],
    hi: [BTreeSet<TypeId>; 3],
}

fn usage(o: &Oracle, resolve: &Resolve) -> Usage {
    let mut u = Usage::default();
    let mut visit = |f: &Function, import: bool| {
        for p in &f.params {
            let which = if import { 0 } else { 1 };
            o.reach(&p.ty, false, &mut u.lo[which]);
            o.reach(&p.ty, true, &mut u.hi[which]);
        }
        if let Some(res) = &f.result {
            o.reach(res, false, &mut u.lo[1]);
            o.reach(res, true, &mut u.hi[1]);
            // error, weakest reading: the (dealiased) error type of a function whose result is directly a `result`
            if let Type::Id(id) = res {
                if let TypeDefKind::Result(rr) = &resolve.types[*id].kind {
                    if let Some(Type::Id(mut e)) = rr.err {
                        while let TypeDefKind::Type(Type::Id(x)) = &resolve.types[e].kind {
                            e = *x;
                        }
                        u.lo[2].insert(e);
                    }
                }
            }
        }
        // error, generous reading: anything reachable from the error side of any result type reachable from the signature
        let mut all = BTreeSet::new();
        for p in &f.params {
            o.reach(&p.ty, true, &mut all);
        }
        if let Some(res) = &f.result {
            o.reach(res, true, &mut all);
        }
        for id in all {
            if let TypeDefKind::Result(rr) = &resolve.types[id].kind {
                if let Some(e) = &rr.err {
                    o.reach(e, true, &mut u.hi[2]);
                }
            }
        }
    };
    for (_, w) in resolve.worlds.iter() {
        for (import, items) in [(true, &w.imports), (false, &w.exports)] {
            for (_, item) in items.iter() {
                match item {
                    WorldItem::Function(f) => visit(f, import),
                    WorldItem::Interface { id, .. } => {
                        for (_, f) in resolve.interfaces[*id].functions.iter() {
                            visit(f, import);
                        }
                    }
                    WorldItem::Type { .. } => {}
                }
            }
        }
    }
    u
}

fn info_bits(i: &TypeInfo) -> [bool; 8] {
    [i.has_list, i.has_tuple, i.has_resource, i.has_borrow_handle, i.has_own_handle, i.borrowed, i.owned, i.error]
}
const FACT: [&str; 8] = ["has_list", "has_tuple", "has_resource", "has_borrow_handle", "has_own_handle", "borrowed", "owned", "error"];

fn type_label(r: &Resolve, id: TypeId) -> String {
    match &r.types[id].name {
        Some(n) => format!("`{n}`#{}", id.index()),
        None => format!("<anonymous>#{}", id.index()),
    }
}

fn upper_camel(s: &str) -> String {
    s.split('-')
        .map(|w| {
            let mut c = w.chars();
            match c.next() {
                Some(f) => f.to_ascii_uppercase().to_string() + c.as_str(),
                None => String::new(),
            }
        })
        .collect()
}

fn count_items(items: &[syn::Item], names: &BTreeSet<String>, n: &mut usize) {
    for it in items {
        match it {
            syn::Item::Struct(s) if names.contains(&s.ident.to_string()) => *n += 1,
            syn::Item::Enum(e) if names.contains(&e.ident.to_string()) => *n += 1,
            syn::Item::Mod(m) => {
                if let Some((_, inner)) = &m.content {
                    count_items(inner, names, n);
                }
            }
            _ => {}
        }
    }
}

// ------------------------------------------------------------ one case

fn run_world(wit: &str, resolve: &Resolve, world: WorldId, source: &str, e2e: bool, both_ways: bool, idx: u64, seed: u64, rep: &mut Report) {
    let replay = |extra: Value| json!({"seed": seed, "stream": "world", "case": idx, "source": source, "wit": wit, "detail": extra});
    let mut o = Oracle { r: resolve, canon: HashMap::new(), content: HashMap::new() };
    let mut live = LiveTypes::default();
    live.add_world(resolve, world);
    let live: Vec<TypeId> = live.iter().collect();

    // real analysis, twice: facts before merging, classes + facts after merging
    let pre = catch(|| {
        let mut t = Types::default();
        t.analyze(resolve);
        t
    });
    let pre = match pre {
        Ok(t) => t,
        Err((m, l)) => {
            rep.violation("types:panic:analyze", &format!("Types::analyze panicked at {l}: {m}"), replay(json!({})));
            return;
        }
    };
    let post = catch(|| {
        let mut t = Types::default();
        t.analyze(resolve);
        t.collect_equal_types(resolve, world, &|_| true);
        t
    });
    let mut post = match post {
        Ok(t) => t,
        Err((m, l)) => {
            rep.violation("types:panic:collect_equal_types", &format!("Types::collect_equal_types panicked at {l}: {m}"), replay(json!({})));
            return;
        }
    };
    rep.eval();
    rep.count(&format!("worlds:{source}"));
    rep.count_n("live_types", live.len() as u64);

    // ---- A. classes
    let canons: Vec<String> = live.iter().map(|id| o.canon_id(*id)).collect();
    let reps: Vec<TypeId> = live.iter().map(|id| post.get_representative_type(*id)).collect();
    let mut classes_ok = true;
    let mut equal_pairs = 0u64;
    'outer: for i in 0..live.len() {
        for j in 0..i {
            let want = canons[i] == canons[j];
            let got = reps[i] == reps[j];
            if want {
                equal_pairs += 1;
            }
            if want != got {
                classes_ok = false;
                let mut ks = [o.kind_name(live[i]), o.kind_name(live[j])];
                ks.sort();
                let sig = format!("types:{}:{}-{}", if got { "merged-unequal" } else { "not-merged-equal" }, ks[0], ks[1]);
                rep.violation(
                    &sig,
                    &format!(
                        "types {} = {} and {} = {} are {} structurally equal but get_representative_type says {}",
                        type_label(resolve, live[i]),
                        clip(&canons[i], 160),
                        type_label(resolve, live[j]),
                        clip(&canons[j], 160),
                        if want { "" } else { "NOT" },
                        if got { "same class" } else { "different classes" }
                    ),
                    replay(json!({"a": type_label(resolve, live[i]), "b": type_label(resolve, live[j])})),
                );
                break 'outer;
            }
        }
    }
    rep.count_n("pairs_compared", (live.len() * live.len().saturating_sub(1) / 2) as u64);
    rep.count_n("equal_pairs", equal_pairs);
    let n_classes = canons.iter().collect::<BTreeSet<_>>().len();
    if equal_pairs > 0 {
        // distinct key: multiset of class sizes + kinds
        let mut by: BTreeMap<&String, (usize, &'static str)> = BTreeMap::new();
        for (i, c) in canons.iter().enumerate() {
            let e = by.entry(c).or_insert((0, o.kind_name(live[i])));
            e.0 += 1;
        }
        let mut shape: Vec<String> = by.values().filter(|(n, _)| *n > 1).map(|(n, k)| format!("{k}x{n}")).collect();
        shape.sort();
        rep.distinct(&format!("{}|{}", shape.join(","), live.len()));
    }

    // ---- B. facts before merging
    let u = usage(&o, resolve);
    let mut facts_ok = true;
    for (id, td) in resolve.types.iter() {
        let info = info_bits(&pre.get(id));
        let c = o.content_id(id);
        for k in 0..5 {
            rep.count("facts_judged");
            if (c.lo[k] && !info[k]) || (!c.hi[k] && info[k]) {
                facts_ok = false;
                rep.violation(
                    &format!("types:typeinfo:{}:{}:{}", FACT[k], if info[k] { "spurious" } else { "missing" }, o.kind_name(id)),
                    &format!("type {} = {}: {} is {} but its definition implies {}", type_label(resolve, id), clip(&o.canon_id(id), 160), FACT[k], info[k], !info[k]),
                    replay(json!({"type": type_label(resolve, id)})),
                );
            }
        }
        if td.name.is_some() {
            for k in 0..3 {
                rep.count("facts_judged");
                let (lo, hi) = (u.lo[k].contains(&id), u.hi[k].contains(&id));
                let got = info[5 + k];
                if (lo && !got) || (!hi && got) {
                    facts_ok = false;
                    rep.violation(
                        &format!("types:typeinfo:{}:{}:{}", FACT[5 + k], if got { "spurious" } else { "missing" }, o.kind_name(id)),
                        &format!(
                            "named type {} = {}: {} is {got} but its uses in the worlds' functions imply {}",
                            type_label(resolve, id),
                            clip(&o.canon_id(id), 160),
                            FACT[5 + k],
                            !got
                        ),
                        replay(json!({"type": type_label(resolve, id)})),
                    );
                }
                if lo {
                    rep.count(&format!("named_types_{}", FACT[5 + k]));
                }
            }
        }
    }

    // ---- C. union after merging (only meaningful when the classes are right)
    if classes_ok && facts_ok {
        let mut class_union: BTreeMap<&String, [bool; 8]> = BTreeMap::new();
        for (i, id) in live.iter().enumerate() {
            let b = info_bits(&pre.get(*id));
            let e = class_union.entry(&canons[i]).or_insert([false; 8]);
            for k in 0..8 {
                e[k] |= b[k];
            }
        }
        for (i, id) in live.iter().enumerate() {
            let got = info_bits(&post.get(*id));
            let want = class_union[&canons[i]];
            if got != want {
                let k = (0..8).find(|k| got[*k] != want[*k]).unwrap();
                rep.violation(
                    &format!("types:merged-info-not-union:{}", FACT[k]),
                    &format!(
                        "after collect_equal_types, type {} = {} has {}={} but the union over its class of the facts before merging is {}",
                        type_label(resolve, *id),
                        clip(&canons[i], 160),
                        FACT[k],
                        got[k],
                        want[k]
                    ),
                    replay(json!({"type": type_label(resolve, *id)})),
                );
                break;
            }
        }
        rep.count_n("merged_infos_checked", live.len() as u64);
    }
    if idx < 3 {
        rep.sample(json!({"source": source, "wit": wit, "live_types": live.len(), "classes": n_classes, "equal_pairs": equal_pairs}));
    }

    // ---- D. end to end
    if !e2e || !classes_ok {
        return;
    }
    if both_ways {
        rep.count("e2e_skipped:interface both imported and exported");
        return;
    }
    let w = &resolve.worlds[world];
    let imp: BTreeSet<_> = w.imports.values().filter_map(|i| if let WorldItem::Interface { id, .. } = i { Some(*id) } else { None }).collect();
    if w.exports.values().any(|i| matches!(i, WorldItem::Interface { id, .. } if imp.contains(id))) {
        rep.count("e2e_skipped:interface both imported and exported");
        return;
    }
    // The Rust generator emits a definition only for types some function uses, so only classes
    // with a used member count.  Types whose only uses pass through future/stream payloads are
    // ambiguous ("used"?) and make the count unjudgeable for this world.
    let used_lo: BTreeSet<TypeId> = u.lo[0].union(&u.lo[1]).cloned().collect();
    let used_hi: BTreeSet<TypeId> = u.hi[0].union(&u.hi[1]).cloned().collect();
    let is_nominal = |id: TypeId| {
        let td = &resolve.types[id];
        td.name.is_some() && matches!(td.kind, TypeDefKind::Record(_) | TypeDefKind::Variant(_) | TypeDefKind::Enum(_))
    };
    if live.iter().any(|id| is_nominal(*id) && used_hi.contains(id) != used_lo.contains(id)) {
        rep.count("e2e_skipped:nominal type used only through a future/stream payload");
        return;
    }
    let mut used_classes: BTreeSet<&String> = BTreeSet::new();
    for (i, id) in live.iter().enumerate() {
        if used_lo.contains(id) {
            used_classes.insert(&canons[i]);
        }
    }
    let mut names = BTreeSet::new();
    let mut nominal_classes = BTreeSet::new();
    for (i, id) in live.iter().enumerate() {
        if is_nominal(*id) && used_classes.contains(&canons[i]) {
            names.insert(upper_camel(resolve.types[*id].name.as_ref().unwrap()));
            nominal_classes.insert(&canons[i]);
        }
    }
    let (mut r2, w2) = match witgen::parse(wit) {
        Ok(x) => x,
        Err(_) => return,
    };
    let mut files = Files::default();
    let res = catch(|| {
        let mut opts = wit_bindgen_rust::Opts::default();
        opts.generate_all = true;
        opts.merge_structurally_equal_types = Some(Some(true));
        opts.build().generate(&mut r2, w2, &mut files)
    });
    match res {
        Ok(Ok(())) => {}
        Ok(Err(e)) => {
            rep.inconclusive(&format!("C28 e2e: Rust generator error: {}", clip(&format!("{e:#}"), 80)));
            return;
        }
        Err((m, l)) => {
            rep.inconclusive(&format!("C28 e2e: Rust generator panicked at {l}: {}", clip(&m, 80)));
            return;
        }
    }
    let mut n_items = 0;
    for (name, c) in files.iter() {
        if !name.ends_with(".rs") {
            continue;
        }
        match syn::parse_file(&String::from_utf8_lossy(c)) {
            Ok(f) => count_items(&f.items, &names, &mut n_items),
            Err(e) => {
                rep.inconclusive(&format!("C28 e2e: generated Rust does not parse with syn: {}", clip(&e.to_string(), 80)));
                return;
            }
        }
    }
    rep.count("e2e_worlds");
    rep.count_n("e2e_nominal_classes", nominal_classes.len() as u64);
    if n_items != nominal_classes.len() {
        rep.violation(
            &format!("types:e2e:rust-merge:{}", if n_items > nominal_classes.len() { "equal-types-defined-separately" } else { "unequal-types-share-a-definition" }),
            &format!(
                "Rust bindings (merge_structurally_equal_types) define {n_items} struct/enum items named after the world's used record/variant/enum types {:?} but these types form {} structural classes",
                names,
                nominal_classes.len()
            ),
            replay(json!({"struct_enum_items": n_items, "classes": nominal_classes.len()})),
        );
    }
}

fn run_case(rng: &mut Rng, idx: u64, rep: &mut Report, seed: u64, e2e: bool) {
    if rng.chance(1, 5) {
        let cfg = witgen::Cfg {
            async_: rng.chance(1, 2),
            error_context: rng.chance(1, 3),
            fixed_lists: rng.chance(1, 3),
            docs: false,
            ifaces: 3,
            types: 6,
            ..Default::default()
        };
        // parse only: Types needs a Resolve, not an encodable component
        let w = witgen::generate(rng, &cfg);
        match witgen::parse(&w.wit) {
            Ok((r, id)) => run_world(&w.wit, &r, id, "witgen", false, true, idx, seed, rep),
            Err(_) => rep.count("witgen_world_rejected_by_parser"),
        }
        return;
    }
    let g = gen_world(rng);
    match witgen::parse(&g.wit) {
        Ok((r, id)) => run_world(&g.wit, &r, id, "equal-rich", e2e, g.both_ways, idx, seed, rep),
        Err(e) => {
            rep.count("generated_world_rejected_by_parser");
            if std::env::var("C28_DEBUG").is_ok() {
                eprintln!("rejected: {e:#}\n{}", g.wit);
            }
        }
    }
}

fn directed() -> Vec<&'static str> {
    vec![
        r#"package t:p;
interface a {
  record r1 { x: u32, y: string }
  record r2 { x: u32, y: string }
  record r3 { y: string, x: u32 }
  record r4 { x: u32, z: string }
  variant v1 { a(u32), b }
  variant v2 { a(u32), b }
  variant v3 { b, a(u32) }
  enum e1 { a, b }
  enum e2 { a, b }
  flags f1 { a, b }
  type al = r1;
  type l1 = list<r1>;
  type l2 = list<r2>;
  resource res1;
  resource res2;
  f: func(a: r1, b: r2, c: r3, d: v1, e: v2, g: e1, h: e2, i: f1, j: al, k: res1, l: borrow<res2>, m: r4, n: v3, o: l1) -> result<tuple<r1, l2>, e1>;
}
interface b {
  use a.{r1 as q1, res1};
  record r1 { x: u32, y: string }
  g: func(a: q1, b: r1, c: option<r1>, d: borrow<res1>) -> result<r1, q1>;
}
world w {
  import a;
  export b;
}
"#,
    ]
}

const DIRECTED_BASE: u64 = 1 << 60;

fn main() {
    std::env::set_var("VERIF_WASM_IMPORTS", "1");
    let args = Args::parse();
    let seed = args.seed();
    let n: u64 = args.u64("n", if args.thorough() { 400_000 } else { 12_000 });
    let n_e2e: u64 = args.u64("e2e", if args.thorough() { 30_000 } else { 800 });
    let mut rep = Report::new(
        "case = one world (4/5: generator producing few-field records / variants / enums / flags from tiny alphabets, repeated bodies under new names, aliases, `use … as …`, resources, nested anonymous types; 1/5: witgen world) analysed by Types; \
         distinct = (multiset of non-singleton class kinds and sizes, number of live types) of worlds with at least one pair of structurally equal live types",
    );
    rep.assume("live types and the type AST come from wit-parser (LiveTypes, Resolve); canonical strings, fact bounds and class unions are computed here");
    rep.assume("facts are judged as lo <= real <= hi: lo counts only string/list, tuple, resource/own/borrow and uses not passing through future/stream payloads; hi also counts map and fixed-length list as lists, future/stream/error-context as resource handles, payload contents, and any type under the error side of any result in a signature");
    rep.assume("usage facts are judged for named types only; e2e counts struct/enum items only for worlds where no interface is both imported and exported");
    if let Some(i) = only_case(&args) {
        if i >= DIRECTED_BASE {
            let wit = directed()[(i - DIRECTED_BASE) as usize];
            let (r, id) = witgen::parse(wit).expect("directed world parses");
            run_world(wit, &r, id, "directed", true, false, i, seed, &mut rep);
        } else {
            let mut rng = corelib_mon::case_rng(seed, 28, i);
            run_case(&mut rng, i, &mut rep, seed, true);
        }
    } else {
        for (k, wit) in directed().iter().enumerate() {
            let (r, id) = witgen::parse(wit).expect("directed world parses");
            run_world(wit, &r, id, "directed", true, false, DIRECTED_BASE + k as u64, seed, &mut rep);
        }
        fan_out(&mut rep, seed, 28, n, |rng, i, r| run_case(rng, i, r, seed, i < n_e2e));
    }
    rep.write(&args.out());
}
