//! C26 — fresh temporaries never collide.
//!
//! Random histories of `Ns::insert` / `Ns::tmp` over small alphabets that include
//! names of the form base+digits (so the internal counter of `tmp` can run into
//! defined names).  Shadow model: the set of every name defined or handed out.
//! Oracle (from the property statement only):
//!   * `tmp(base)` returns a name that is not in the set; the name joins the set;
//!   * `insert(name)` is `Err` iff the name is in the set; on `Ok` it joins the set.
use corelib_mon::{fan_out, only_case};
use serde_json::json;
use std::collections::BTreeSet;
use vkit::{Args, Report, Rng};
use wit_bindgen_core::Ns;

#[derive(Clone, Debug)]
enum Op {
    Insert(String),
    Tmp(String),
}

fn alphabet(rng: &mut Rng) -> Vec<String> {
    // a base or two, plus base+digits twins, plus a few unrelated names
    let bases: &[&str] = &["a", "b", "ptr", "ret", "x1", "t_", ""];
    let nb = rng.range(1, 2);
    let mut v = vec![];
    for _ in 0..nb {
        let b = rng.pick(bases).to_string();
        v.push(b.clone());
        let lim = *rng.pick(&[2usize, 3, 5, 12]);
        for i in 0..lim {
            if rng.chance(3, 4) {
                v.push(format!("{b}{i}"));
            }
        }
        if rng.chance(1, 3) {
            v.push(format!("{b}00"));
            v.push(format!("{b}01"));
            v.push(format!("{b}10"));
        }
        if rng.chance(1, 4) {
            // names that are themselves base+digit+digit: tmp(base+digit) can reach them
            v.push(format!("{b}0{}", rng.below(3)));
            v.push(format!("{b}1{}", rng.below(3)));
        }
    }
    if rng.chance(1, 2) {
        v.push("other".into());
    }
    v.sort();
    v.dedup();
    v
}

fn history(rng: &mut Rng) -> Vec<Op> {
    let al = alphabet(rng);
    let n = rng.range(1, 24);
    let tmp_bias = rng.range(1, 3) as u64;
    (0..n)
        .map(|_| {
            let name = rng.pick(&al).clone();
            if rng.chance(tmp_bias, 4) {
                Op::Tmp(name)
            } else {
                Op::Insert(name)
            }
        })
        .collect()
}

fn shape(h: &[Op]) -> String {
    h.iter()
        .map(|o| match o {
            Op::Insert(n) => format!("i:{n}"),
            Op::Tmp(n) => format!("t:{n}"),
        })
        .collect::<Vec<_>>()
        .join(",")
}

fn run_case(rng: &mut Rng, idx: u64, rep: &mut Report, seed: u64) {
    let h = history(rng);
    let want_trace = idx < 3;
    run_history(&h, idx, rep, seed, want_trace);
}

fn run_history(h: &[Op], idx: u64, rep: &mut Report, seed: u64, want_trace: bool) {
    let mut ns = Ns::default();
    let mut model: BTreeSet<String> = BTreeSet::new();
    let mut trace = vec![];
    let mut collided_path = false; // tmp had to skip at least one taken name
    let mut conflicts = 0;
    for (k, op) in h.iter().enumerate() {
        match op {
            Op::Insert(name) => {
                let got = ns.insert(name);
                let expect_err = model.contains(name);
                if want_trace {
                    trace.push(json!({"insert": name, "err": got.is_err()}));
                }
                if got.is_err() != expect_err {
                    if !want_trace {
                        return run_history(h, idx, rep, seed, true);
                    }
                    let sig = if expect_err { "ns:insert-accepts-existing-name" } else { "ns:insert-rejects-fresh-name" };
                    rep.violation(
                        sig,
                        &format!(
                            "Ns::insert({name:?}) returned {} but the name was {} (defined or handed out so far: {:?}); op #{k} of history [{}]",
                            if got.is_err() { "Err" } else { "Ok" },
                            if expect_err { "already present" } else { "absent" },
                            model,
                            shape(h)
                        ),
                        json!({"seed": seed, "stream": "hist", "case": idx, "history": shape(h), "trace": trace}),
                    );
                    return;
                }
                if expect_err {
                    conflicts += 1;
                } else {
                    model.insert(name.clone());
                }
            }
            Op::Tmp(base) => {
                let got = ns.tmp(base);
                if want_trace {
                    trace.push(json!({"tmp": base, "got": got}));
                }
                if model.contains(base) {
                    collided_path = true;
                }
                if model.contains(&got) {
                    if !want_trace {
                        return run_history(h, idx, rep, seed, true);
                    }
                    rep.violation(
                        "ns:tmp-returns-taken-name",
                        &format!(
                            "Ns::tmp({base:?}) returned {got:?} which was already defined or handed out ({:?}); op #{k} of history [{}]",
                            model,
                            shape(h)
                        ),
                        json!({"seed": seed, "stream": "hist", "case": idx, "history": shape(h), "trace": trace}),
                    );
                    return;
                }
                model.insert(got);
            }
        }
    }
    rep.eval();
    rep.count_n("ops", h.len() as u64);
    rep.count_n("insert_conflicts_seen", conflicts);
    if collided_path {
        rep.count("histories_where_tmp_had_to_skip");
        rep.distinct(&shape(h));
    }
    if idx < 3 {
        rep.sample(json!({"history": shape(h), "trace": trace}));
    }
}

fn main() {
    let args = Args::parse();
    let seed = args.seed();
    let n: u64 = args.u64("n", if args.thorough() { 10_000_000 } else { 100_000 });
    let mut rep = Report::new(
        "case = one history of 1..24 Ns::insert/Ns::tmp calls over an alphabet {base, base+digits, …}; distinct = histories \
         (by exact op sequence) in which some tmp(base) was requested while base was already taken, i.e. the counter path ran",
    );
    rep.assume("Ns is driven through its public API only (insert, tmp); a history starts from Ns::default()");
    if let Some(i) = only_case(&args) {
        let mut rng = corelib_mon::case_rng(seed, 26, i);
        run_case(&mut rng, i, &mut rep, seed);
    } else {
        fan_out(&mut rep, seed, 26, n, |rng, i, r| run_case(rng, i, r, seed));
    }
    rep.write(&args.out());
}
