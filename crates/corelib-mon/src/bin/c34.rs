//! C34 — test configuration comes from the leading comment block.
//!
//! The real `crates/test/src/config.rs` (a private module of wit-bindgen-test) is
//! compiled into this harness through build.rs.  Random files mix marker lines,
//! blank lines, code and later marker lines.
//!
//! Oracle (written from the statement): reference text = the file's leading
//! lines that start with the marker, marker removed, joined with '\n'; nothing
//! after the first other line.  The reference text is parsed with the same `toml`
//! crate into the same config type and into a generic `toml::Table`; the real
//! `parse_test_config` result must agree field by field.  A whitespace separated
//! argument string must mean the same as the list of its words
//! (`Vec<String>::from(StringList)`), words being computed here.
use corelib_mon::{clip, fan_out, only_case};
use serde_json::json;
use std::collections::HashMap;
use vkit::{Args, Report, Rng};

include!(concat!(env!("OUT_DIR"), "/config_mod.rs"));
use config::{parse_test_config, RuntimeTestConfig, StringList, WitConfig};

const MARKERS: &[&str] = &["//@", ";;@", "#@", "--@"];

#[derive(Clone, Debug)]
struct FileCase {
    marker: &'static str,
    lines: Vec<String>,
    /// class letter per line (for the distinct key)
    classes: String,
    final_newline: bool,
    wit: bool,
}

fn words_value(rng: &mut Rng) -> Vec<String> {
    const W: &[&str] = &["--foo", "--bar", "-O", "-Wasync", "x=y", "a,b", "é✓", "--async=all", "-", "--with", "a:b/c=d", "#x", "[y]"];
    let n = rng.range(0, 4);
    (0..n).map(|_| rng.pick(W).to_string()).collect()
}

fn sep(rng: &mut Rng) -> &'static str {
    *rng.pick(&[" ", " ", "  ", "\t", " \t ", "   "])
}

/// a TOML string (single line) holding the words separated by blanks
fn toml_words_string(rng: &mut Rng, ws: &[String]) -> String {
    let mut s = String::new();
    if rng.chance(1, 4) {
        s.push_str(sep(rng));
    }
    for (i, w) in ws.iter().enumerate() {
        if i > 0 {
            s.push_str(sep(rng));
        }
        s.push_str(w);
    }
    if rng.chance(1, 4) {
        s.push_str(sep(rng));
    }
    if s.contains('\t') || rng.chance(1, 2) {
        format!("\"{}\"", s.replace('\\', "\\\\").replace('"', "\\\"").replace('\t', "\\t"))
    } else {
        format!("'{s}'")
    }
}

fn toml_list(ws: &[String], rng: &mut Rng) -> String {
    let q = if rng.chance(1, 2) { '\'' } else { '"' };
    format!("[{}]", ws.iter().map(|w| format!("{q}{w}{q}")).collect::<Vec<_>>().join(if rng.chance(1, 2) { ", " } else { "," }))
}

fn string_list_value(rng: &mut Rng) -> String {
    let ws = words_value(rng);
    if rng.chance(1, 2) {
        toml_words_string(rng, &ws)
    } else {
        toml_list(&ws, rng)
    }
}

/// One TOML line for the config block; class letter says what it is.
fn config_line(rng: &mut Rng, wit: bool, in_lang: &mut bool) -> (String, char) {
    if wit {
        match rng.below(12) {
            0 => ("async = true".into(), 'k'),
            1 => ("async = false".into(), 'k'),
            2 => ("error-context = true".into(), 'k'),
            3 => (format!("default-bindgen-args = {}", rng.chance(1, 2)), 'k'),
            4 => (format!("runner = '{}'", rng.pick(&["runner", "other", "a b"])), 'k'),
            5 | 6 => (format!("dependencies = {}", string_list_value(rng)), 's'),
            7 => ("wac = './compose.wac'".into(), 'k'),
            8 => ("".into(), 'e'),
            9 => ("# a toml comment".into(), 'c'),
            10 => ("unknown-key = 1".into(), 'u'),
            _ => ("async = ".into(), 'x'),
        }
    } else {
        match rng.below(14) {
            0..=3 if !*in_lang => (format!("args = {}", string_list_value(rng)), 's'),
            4 | 5 if !*in_lang => (format!("wasmtime-flags = {}", string_list_value(rng)), 's'),
            6 => {
                *in_lang = true;
                ("[lang]".into(), 't')
            }
            7 if *in_lang => (format!("rustflags = {}", string_list_value(rng)), 'l'),
            8 if *in_lang => (format!("n{} = {}", rng.below(3), rng.below(5)), 'l'),
            9 => ("".into(), 'e'),
            10 => ("# comment".into(), 'c'),
            11 => ("bogus-key = 'x'".into(), 'u'),
            12 => ("args = [".into(), 'x'),
            _ => (format!("args = {}", string_list_value(rng)), 's'),
        }
    }
}

fn gen_file(rng: &mut Rng) -> FileCase {
    let marker = *rng.pick(MARKERS);
    let wit = rng.chance(1, 3);
    let mut lines = vec![];
    let mut classes = String::new();
    let mut in_lang = false;
    let lead = match rng.below(8) {
        0 => 0,
        1..=4 => rng.range(1, 3),
        _ => rng.range(2, 6),
    };
    let mut used_keys: Vec<String> = vec![];
    for _ in 0..lead {
        let (l, c) = config_line(rng, wit, &mut in_lang);
        // mostly avoid duplicate keys (a duplicate is still a legal case: both sides must fail)
        let key = l.split('=').next().unwrap_or("").trim().to_string();
        if c != 'e' && c != 'c' && used_keys.contains(&key) && rng.chance(9, 10) {
            continue;
        }
        used_keys.push(key);
        let glue = if rng.chance(2, 3) { " " } else { "" };
        lines.push(format!("{marker}{glue}{l}"));
        classes.push(c.to_ascii_uppercase());
    }
    // multi-line array spread over marker lines
    if !wit && !in_lang && !used_keys.iter().any(|k| k == "args") && rng.chance(1, 8) {
        lines.push(format!("{marker} args = ["));
        lines.push(format!("{marker}   '--multi',"));
        lines.push(format!("{marker} ]"));
        classes.push_str("MMM");
    }
    // the first other line and what follows
    let tail = rng.range(0, 6);
    for i in 0..tail {
        let roll = rng.below(12);
        let (l, c): (String, char) = match roll {
            0 | 1 => ("".into(), 'b'),
            2 | 3 => (rng.pick(&["include!(\"x\");", "fn main() {}", "package a:b;", "(module)", "int x;"]).to_string(), 'o'),
            4 => (format!(" {marker} args = 'indented marker'"), 'i'),
            5 => (format!("{} args = 'not the marker'", &marker[..marker.len() - 1]), 'n'),
            6 => (format!("x {marker} args = 'marker mid line'"), 'o'),
            _ => {
                if i == 0 {
                    // must be a non-marker line to end the block
                    ("// plain comment".into(), 'o')
                } else {
                    // later marker lines: would change or break the config if they were read
                    let l = match rng.below(6) {
                        0 => "args = 'LATER --flag'".to_string(),
                        1 => "]]] not toml".to_string(),
                        2 => "[lang]".to_string(),
                        3 => "async = true".to_string(),
                        4 => "wasmtime-flags = ['-Wlater']".to_string(),
                        _ => "runner = 'later'".to_string(),
                    };
                    (format!("{marker} {l}"), 'm')
                }
            }
        };
        lines.push(l);
        classes.push(c);
    }
    FileCase { marker, lines, classes, final_newline: rng.chance(3, 4), wit }
}

fn contents(f: &FileCase) -> String {
    let mut s = f.lines.join("\n");
    if f.final_newline && !f.lines.is_empty() {
        s.push('\n');
    }
    s
}

/// Reference: leading marker lines, marker removed, joined with '\n'.
fn reference_text(contents: &str, marker: &str) -> String {
    let mut out: Vec<&str> = vec![];
    let mut segs: Vec<&str> = contents.split('\n').collect();
    if contents.ends_with('\n') {
        segs.pop();
    }
    for l in segs {
        match l.strip_prefix(marker) {
            Some(rest) => out.push(rest),
            None => break,
        }
    }
    out.join("\n")
}

/// What a reader that used every marker line of the file would see (only used to
/// name the failure class).
fn all_marker_text(contents: &str, marker: &str) -> String {
    contents.split('\n').filter_map(|l| l.strip_prefix(marker)).collect::<Vec<_>>().join("\n")
}

fn my_words(s: &str) -> Vec<String> {
    let mut v = vec![];
    let mut cur = String::new();
    for c in s.chars() {
        if c.is_whitespace() {
            if !cur.is_empty() {
                v.push(std::mem::take(&mut cur));
            }
        } else {
            cur.push(c);
        }
    }
    if !cur.is_empty() {
        v.push(cur);
    }
    v
}

fn sl_dbg(l: &StringList) -> String {
    format!("{l:?}")
}
fn sl_words_from_toml(v: Option<&toml::Value>) -> Option<Vec<String>> {
    match v {
        None => Some(vec![]),
        Some(toml::Value::String(s)) => Some(my_words(s)),
        Some(toml::Value::Array(a)) => a.iter().map(|x| x.as_str().map(|s| s.to_string())).collect(),
        _ => None,
    }
}

fn rt_fields(c: &RuntimeTestConfig) -> serde_json::Value {
    json!({"args": sl_dbg(&c.args), "wasmtime_flags": sl_dbg(&c.wasmtime_flags), "lang": c.lang.as_ref().map(|m| {
        let mut v: Vec<String> = m.iter().map(|(k, v)| format!("{k}={v:?}")).collect(); v.sort(); v })})
}
fn wit_fields(c: &WitConfig) -> serde_json::Value {
    json!({"async": c.async_, "error_context": c.error_context, "default_bindgen_args": c.default_bindgen_args, "runner": c.runner,
           "dependencies": c.dependencies.as_ref().map(sl_dbg), "wac": c.wac, "runner_world": c.runner_world(), "dependency_worlds": c.dependency_worlds()})
}

fn run_case(rng: &mut Rng, idx: u64, rep: &mut Report, seed: u64) {
    // --- part 2 on its own: StringList -> Vec<String>
    {
        let ws = words_value(rng);
        let mut s = String::new();
        for w in &ws {
            s.push_str(*rng.pick(&[" ", "  ", "\t", "\n", " \t"]));
            s.push_str(w);
        }
        if rng.chance(1, 2) {
            s.push(' ');
        }
        let got: Vec<String> = StringList::String(s.clone()).into();
        let got_list: Vec<String> = StringList::List(ws.clone()).into();
        rep.count("stringlist_conversions");
        if got != my_words(&s) || got_list != ws || got != got_list {
            rep.violation(
                "testconfig:string-list-words-differ",
                &format!("StringList::String({s:?}) converts to {got:?} but its whitespace separated words are {:?}; StringList::List of those words converts to {got_list:?}", my_words(&s)),
                json!({"seed": seed, "stream": "file", "case": idx, "string": s}),
            );
        }
    }

    let f = gen_file(rng);
    let text = contents(&f);
    let reference = reference_text(&text, f.marker);
    let all = all_marker_text(&text, f.marker);
    let has_later = all != reference;
    let replay = json!({"seed": seed, "stream": "file", "case": idx, "marker": f.marker, "contents": text, "reference_toml": reference, "config_type": if f.wit { "WitConfig" } else { "RuntimeTestConfig" }});
    let classify = |real_fields: &serde_json::Value, real_ok: bool| -> &'static str {
        // would reading every marker line explain what the real parser returned?
        if has_later {
            let alt_ok;
            let alt_fields;
            if f.wit {
                let r = toml::from_str::<WitConfig>(&all);
                alt_ok = r.is_ok();
                alt_fields = r.ok().map(|c| wit_fields(&c)).unwrap_or(json!(null));
            } else {
                let r = toml::from_str::<RuntimeTestConfig>(&all);
                alt_ok = r.is_ok();
                alt_fields = r.ok().map(|c| rt_fields(&c)).unwrap_or(json!(null));
            }
            if alt_ok == real_ok && &alt_fields == real_fields {
                return "testconfig:later-marker-lines-used";
            }
        }
        "testconfig:leading-block-misread"
    };

    let table: Option<toml::Table> = toml::from_str::<toml::Table>(&reference).ok();
    let (real_ok, exp_ok, real_fields, exp_fields);
    let mut generic_mismatch = None;
    if f.wit {
        let real = parse_test_config::<WitConfig>(&text, f.marker);
        let exp = toml::from_str::<WitConfig>(&reference);
        real_ok = real.is_ok();
        exp_ok = exp.is_ok();
        if let (Ok(r), Some(t)) = (&real, &table) {
            if exp_ok {
                let deps: Vec<String> = r.dependency_worlds();
                let want = match t.get("dependencies") {
                    None => Some(vec!["test".to_string()]),
                    v => sl_words_from_toml(v),
                };
                if want.as_ref() != Some(&deps) {
                    generic_mismatch = Some(format!("dependency_worlds() = {deps:?} but the block says {want:?}"));
                }
                if t.get("async").and_then(|v| v.as_bool()).unwrap_or(false) != r.async_ {
                    generic_mismatch = Some(format!("async = {} but the block says {:?}", r.async_, t.get("async")));
                }
            }
        }
        real_fields = real.as_ref().ok().map(wit_fields).unwrap_or(json!(null));
        exp_fields = exp.as_ref().ok().map(wit_fields).unwrap_or(json!(null));
    } else {
        let real = parse_test_config::<RuntimeTestConfig>(&text, f.marker);
        let exp = toml::from_str::<RuntimeTestConfig>(&reference);
        real_ok = real.is_ok();
        exp_ok = exp.is_ok();
        real_fields = real.as_ref().ok().map(rt_fields).unwrap_or(json!(null));
        exp_fields = exp.as_ref().ok().map(rt_fields).unwrap_or(json!(null));
        if let (Ok(r), Some(t)) = (real, &table) {
            if exp_ok {
                let args: Vec<String> = r.args.into();
                let want = sl_words_from_toml(t.get("args"));
                if want.as_ref() != Some(&args) {
                    generic_mismatch = Some(format!("args as words = {args:?} but the block says {want:?}"));
                }
                let wf: Vec<String> = r.wasmtime_flags.into();
                let want = sl_words_from_toml(t.get("wasmtime-flags"));
                if want.as_ref() != Some(&wf) {
                    generic_mismatch = Some(format!("wasmtime-flags as words = {wf:?} but the block says {want:?}"));
                }
                let lang: HashMap<String, toml::Value> = r.lang.unwrap_or_default();
                let want: HashMap<String, toml::Value> =
                    t.get("lang").and_then(|v| v.as_table()).map(|t| t.iter().map(|(k, v)| (k.clone(), v.clone())).collect()).unwrap_or_default();
                if lang != want {
                    generic_mismatch = Some(format!("lang = {lang:?} but the block says {want:?}"));
                }
            }
        }
    }
    rep.eval();
    rep.count(if exp_ok { "reference_parses" } else { "reference_rejects" });
    if has_later {
        rep.count("files_with_later_marker_lines");
    }
    if real_ok != exp_ok || real_fields != exp_fields {
        let sig = classify(&real_fields, real_ok);
        rep.violation(
            sig,
            &format!(
                "file {:?} with marker {:?}: parse_test_config gave {} but the leading block {:?} gives {}",
                clip(&text, 300),
                f.marker,
                if real_ok { format!("Ok {real_fields}") } else { "Err".to_string() },
                clip(&reference, 200),
                if exp_ok { format!("Ok {exp_fields}") } else { "Err".to_string() },
            ),
            replay,
        );
        return;
    }
    if let Some(m) = generic_mismatch {
        rep.violation(
            "testconfig:string-list-words-differ",
            &format!("file {:?} with marker {:?}: {m}", clip(&text, 300), f.marker),
            replay,
        );
        return;
    }
    if exp_ok && !reference.trim().is_empty() {
        rep.distinct(&format!("{}|{}|{}", f.marker, f.wit, f.classes));
    }
    if idx < 4 {
        rep.sample(json!({"marker": f.marker, "contents": text, "reference_toml": reference, "parsed_ok": real_ok, "fields": real_fields}));
    }
}

fn main() {
    let args = Args::parse();
    let seed = args.seed();
    let n: u64 = args.u64("n", if args.thorough() { 3_000_000 } else { 60_000 });
    let mut rep = Report::new(
        "case = one random file (0..9 leading marker lines of TOML, then other lines incl. later marker lines) parsed as RuntimeTestConfig or WitConfig, \
         plus one StringList conversion; distinct = (marker, config type, per-line class string) of files whose leading block is non-empty and parses",
    );
    rep.assume("the reference parses the reference text with the same toml crate and config types; only the choice of text and the word splitting are judged");
    rep.assume("files use \\n line ends; argument strings are separated by ASCII blanks, tabs and newlines only");
    if let Some(i) = only_case(&args) {
        let mut rng = corelib_mon::case_rng(seed, 34, i);
        run_case(&mut rng, i, &mut rep, seed);
    } else {
        fan_out(&mut rep, seed, 34, n, |rng, i, r| run_case(rng, i, r, seed));
    }
    rep.write(&args.out());
}
