//! C17 — async directives select exactly the documented functions.
//!
//! Model monitor: random directive lists are pushed into the real
//! `wit_bindgen_core::AsyncFilterSet`; `is_async` is queried for the functions of
//! a random world in random order and compared with the reference below (first
//! matching directive in order wins, else the WIT `async`); `ensure_all_used`
//! must fail when some non-`all` directive matches none of the queries made and
//! must succeed when every non-`all` directive decided some query (directives
//! that only name-match behind an earlier one are left unjudged); the printed
//! form of the directives (`debug_opts`) pushed into a second set must behave
//! identically.
//!
//! End-to-end monitor: the real Rust, C and MoonBit generators run in-process
//! with the directives; a function is "bound asynchronously" in the output iff
//! its core import is named `[async-lower]<name>` / its core export
//! `[async-lift]<name>`; that set must equal the reference's, and the Rust
//! generator must return an error when a directive matches no function at all.
//! Generator panics / other errors are inconclusive here.
use corelib_mon::{catch, clip, fan_out, only_case};
use serde_json::{json, Value};
use std::collections::BTreeSet;
use vkit::{Args, Report, Rng};
use wit_bindgen_core::{AsyncFilterSet, Files, WorldGenerator};
use wit_parser::{Function, FunctionKind, Resolve, WorldId, WorldItem, WorldKey};

// ------------------------------------------------------------ reference model

#[derive(Clone, Debug, PartialEq)]
enum Kind {
    All,
    Any(String),
    Import(String),
    Export(String),
}
#[derive(Clone, Debug)]
struct Dir {
    enabled: bool,
    kind: Kind,
}

/// Documented syntax: optional leading `-`; then `all`, `import:NAME`, `export:NAME` or `NAME`.
fn ref_parse(s: &str) -> Dir {
    let (enabled, rest) = match s.strip_prefix('-') {
        Some(r) => (false, r),
        None => (true, s),
    };
    let kind = if rest == "all" {
        Kind::All
    } else if let Some(n) = rest.strip_prefix("import:") {
        Kind::Import(n.to_string())
    } else if let Some(n) = rest.strip_prefix("export:") {
        Kind::Export(n.to_string())
    } else {
        Kind::Any(rest.to_string())
    };
    Dir { enabled, kind }
}

fn ref_matches(d: &Dir, name: &str, is_import: bool) -> bool {
    match &d.kind {
        Kind::All => true,
        Kind::Any(n) => n == name,
        Kind::Import(n) => is_import && n == name,
        Kind::Export(n) => !is_import && n == name,
    }
}

/// (bound async?, index of the deciding directive)
fn ref_is_async(dirs: &[Dir], name: &str, is_import: bool, wit_async: bool) -> (bool, Option<usize>) {
    for (i, d) in dirs.iter().enumerate() {
        if ref_matches(d, name, is_import) {
            return (d.enabled, Some(i));
        }
    }
    (wit_async, None)
}

// ------------------------------------------------------------ worlds

struct FnRef {
    key: Option<WorldKey>,
    func: Function,
    is_import: bool,
    /// the name directives are matched against: `<interface>#<func>` or `<func>`
    name: String,
    wit_async: bool,
    /// core module / names
    module: String,
}

fn wit_async(f: &Function) -> bool {
    matches!(f.kind, FunctionKind::AsyncFreestanding | FunctionKind::AsyncMethod(_) | FunctionKind::AsyncStatic(_))
}

fn inventory(resolve: &Resolve, world: WorldId) -> Vec<FnRef> {
    let w = &resolve.worlds[world];
    let mut v = vec![];
    for (is_import, items) in [(true, &w.imports), (false, &w.exports)] {
        for (key, item) in items.iter() {
            match item {
                WorldItem::Function(f) => v.push(FnRef {
                    key: None,
                    func: f.clone(),
                    is_import,
                    name: f.name.clone(),
                    wit_async: wit_async(f),
                    module: "$root".into(),
                }),
                WorldItem::Interface { id, .. } => {
                    let kn = resolve.name_world_key(key);
                    for (_, f) in resolve.interfaces[*id].functions.iter() {
                        v.push(FnRef {
                            key: Some(key.clone()),
                            func: f.clone(),
                            is_import,
                            name: format!("{kn}#{}", f.name),
                            wit_async: wit_async(f),
                            module: kn.clone(),
                        });
                    }
                }
                WorldItem::Type { .. } => {}
            }
        }
    }
    v
}

const FN_NAMES: &[&str] = &["f", "g", "run", "get-x", "all", "h"];

fn small_world(rng: &mut Rng) -> String {
    let ver = *rng.pick(&["", "", "@1.0.0", "@0.2.1-rc.1"]);
    let mut s = format!("package t:p{ver};\n");
    let n_if = rng.range(1, 3);
    let mut ifaces = vec![];
    for k in 0..n_if {
        let iname = format!("i{k}");
        s.push_str(&format!("interface {iname} {{\n"));
        if rng.chance(1, 2) {
            s.push_str("  resource r {\n");
            if rng.chance(1, 2) {
                s.push_str("    constructor(a: u32);\n");
            }
            let mut used = BTreeSet::new();
            for _ in 0..rng.range(0, 3) {
                let m = *rng.pick(FN_NAMES);
                if !used.insert(m) {
                    continue;
                }
                let a = if rng.chance(1, 2) { "async " } else { "" };
                let st = if rng.chance(1, 4) { "static " } else { "" };
                s.push_str(&format!("    {}: {st}{a}func(x: u32) -> u32;\n", esc(m)));
            }
            s.push_str("  }\n");
        }
        let mut used = BTreeSet::new();
        for _ in 0..rng.range(1, 4) {
            let f = *rng.pick(FN_NAMES);
            if !used.insert(f) {
                continue;
            }
            let a = if rng.chance(1, 2) { "async " } else { "" };
            let sig = *rng.pick(&["()", "(a: u32) -> u32", "(s: string) -> string", "(a: u8, b: list<u8>)"]);
            s.push_str(&format!("  {}: {a}func{sig};\n", esc(f)));
        }
        s.push_str("}\n");
        ifaces.push(iname);
    }
    s.push_str("world w {\n");
    let mut any = false;
    for i in &ifaces {
        match rng.below(4) {
            0 => s.push_str(&format!("  import {i};\n")),
            1 => s.push_str(&format!("  export {i};\n")),
            2 => s.push_str(&format!("  import {i};\n  export {i};\n")),
            _ => continue,
        }
        any = true;
    }
    if rng.chance(1, 3) {
        let a = if rng.chance(1, 2) { "async " } else { "" };
        let dir = if rng.chance(1, 2) { "import" } else { "export" };
        s.push_str(&format!("  {dir} inl: interface {{ f: {a}func(); run: func() -> u32; }}\n"));
        any = true;
    }
    let mut used_i = BTreeSet::new();
    let mut used_e = BTreeSet::new();
    for _ in 0..rng.range(if any { 0 } else { 1 }, 4) {
        let f = *rng.pick(FN_NAMES);
        let a = if rng.chance(1, 2) { "async " } else { "" };
        if rng.chance(1, 2) {
            if used_i.insert(f) {
                s.push_str(&format!("  import {}: {a}func(a: u32) -> u32;\n", esc(f)));
            }
        } else if used_e.insert(f) {
            s.push_str(&format!("  export {}: {a}func(a: u32) -> u32;\n", esc(f)));
        }
    }
    s.push_str("}\n");
    s
}

fn esc(id: &str) -> String {
    if id == "all" {
        id.to_string()
    } else {
        id.to_string()
    }
}

// ------------------------------------------------------------ directives

fn gen_dirs(rng: &mut Rng, fns: &[FnRef], bogus: bool) -> Vec<String> {
    let n = match rng.below(10) {
        0 => 0,
        1..=3 => 1,
        4..=6 => 2,
        _ => rng.range(3, 6),
    };
    let mut v: Vec<String> = vec![];
    for _ in 0..n {
        let neg = if rng.chance(2, 5) { "-" } else { "" };
        let roll = rng.below(20);
        let d = match roll {
            0 | 1 => format!("{neg}all"),
            2..=13 if !fns.is_empty() => {
                let f = &fns[rng.usize(fns.len())];
                let prefix = match rng.below(5) {
                    0 | 1 => "",
                    2 => "import:",
                    3 => "export:",
                    _ => {
                        if f.is_import {
                            "import:"
                        } else {
                            "export:"
                        }
                    }
                };
                format!("{neg}{prefix}{}", f.name)
            }
            14 if !v.is_empty() => v[rng.usize(v.len())].clone(), // duplicate
            15 if !v.is_empty() => {
                // same target, opposite sign
                let d = v[rng.usize(v.len())].clone();
                match d.strip_prefix('-') {
                    Some(r) => r.to_string(),
                    None => format!("-{d}"),
                }
            }
            _ if bogus && !fns.is_empty() => {
                // near misses: must match nothing
                let f = &fns[rng.usize(fns.len())];
                let base = &f.name;
                let cand = match rng.below(8) {
                    0 => base.rsplit('#').next().unwrap().to_string() + "-nope",
                    1 => base.split('@').next().unwrap().replace('#', "/"),
                    2 => format!("{base} "),
                    3 => base.to_uppercase(),
                    4 => format!("#{}", base.rsplit('#').next().unwrap()),
                    5 => format!("import:export:{base}"),
                    6 => format!("-{neg}all"),
                    _ => "nope:pkg/iface#f".to_string(),
                };
                format!("{neg}{}{cand}", *rng.pick(&["", "", "import:", "export:"]))
            }
            _ => format!("{neg}all"),
        };
        v.push(d);
    }
    v
}

// ------------------------------------------------------------ model monitor

fn decide_class(dirs: &[Dir], name: &str, is_import: bool, decided: Option<usize>) -> String {
    let base = match decided {
        None => "wit-default".to_string(),
        Some(i) => match &dirs[i].kind {
            Kind::All => "all",
            Kind::Any(_) => "name",
            Kind::Import(_) => "import",
            Kind::Export(_) => "export",
        }
        .to_string(),
    };
    let later_conflict = match decided {
        Some(i) => dirs[i + 1..].iter().any(|d| ref_matches(d, name, is_import) && d.enabled != dirs[i].enabled),
        None => false,
    };
    if later_conflict {
        format!("{base}:conflicting-later-match")
    } else {
        base
    }
}

fn model_case(rng: &mut Rng, idx: u64, rep: &mut Report, seed: u64) {
    let (wit, resolve, world) = if rng.chance(1, 10) {
        let cfg = witgen::Cfg { async_: true, ifaces: 2, funcs: 3, types: 2, ..Default::default() };
        match witgen::generate_valid(rng, &cfg) {
            Some((w, r, id, _)) => (w.wit, r, id),
            None => return,
        }
    } else {
        let wit = small_world(rng);
        match witgen::parse(&wit) {
            Ok((r, id)) => (wit, r, id),
            Err(e) => {
                rep.count("model_worlds_rejected_by_parser");
                if std::env::var("C17_DEBUG").is_ok() {
                    eprintln!("rejected: {e:#}\n{wit}");
                }
                return;
            }
        }
    };
    let fns = inventory(&resolve, world);
    let texts = gen_dirs(rng, &fns, true);
    let dirs: Vec<Dir> = texts.iter().map(|s| ref_parse(s)).collect();
    let mut real = AsyncFilterSet::default();
    for t in &texts {
        real.push(t);
    }
    let replay = |extra: Value| json!({"seed": seed, "stream": "model", "case": idx, "wit": wit, "directives": texts, "detail": extra});

    // queries: real directions, sometimes also the opposite direction, sometimes only some of them
    let mut queries: Vec<(usize, bool)> = (0..fns.len()).map(|i| (i, fns[i].is_import)).collect();
    if rng.chance(1, 4) {
        for i in 0..fns.len() {
            if rng.chance(1, 2) {
                queries.push((i, !fns[i].is_import));
            }
        }
    }
    rng.shuffle(&mut queries);
    if rng.chance(1, 3) && !queries.is_empty() {
        let keep = rng.range(0, queries.len());
        queries.truncate(keep);
    }
    if rng.chance(1, 4) {
        let extra: Vec<(usize, bool)> = queries.iter().take(3).cloned().collect();
        queries.extend(extra);
    }
    let mut matched_any = vec![false; dirs.len()]; // name/direction matches some query made
    let mut decided_any = vec![false; dirs.len()]; // was the first match of some query made
    let mut log = vec![];
    let check_ensure = |real: &AsyncFilterSet, matched_any: &[bool], decided_any: &[bool], rep: &mut Report, log: &[Value]| -> bool {
        let non_all = |i: usize| dirs[i].kind != Kind::All;
        let must_fail = (0..dirs.len()).any(|i| non_all(i) && !matched_any[i]);
        let must_pass = (0..dirs.len()).all(|i| !non_all(i) || decided_any[i]);
        let got_err = real.ensure_all_used().is_err();
        rep.count(if must_fail {
            "ensure_all_used:must-fail"
        } else if must_pass {
            "ensure_all_used:must-pass"
        } else {
            "ensure_all_used:unjudged(shadowed directive)"
        });
        if must_fail && !got_err {
            let i = (0..dirs.len()).find(|i| non_all(*i) && !matched_any[*i]).unwrap();
            rep.violation(
                "async:ensure_all_used:accepts-unmatched-directive",
                &format!("directives {texts:?}: `{}` matches none of the {} queries made, yet ensure_all_used() returned Ok", texts[i], log.len()),
                replay(json!({"queries": log})),
            );
            return false;
        }
        if must_pass && got_err {
            rep.violation(
                "async:ensure_all_used:rejects-although-every-directive-decided-a-query",
                &format!("directives {texts:?}: every non-`all` directive was the first match of some query, yet ensure_all_used() failed: {:?}", real.ensure_all_used().err().map(|e| e.to_string())),
                replay(json!({"queries": log})),
            );
            return false;
        }
        true
    };
    let mid = if queries.is_empty() { 0 } else { rng.usize(queries.len()) };
    for (qn, (fi, is_import)) in queries.iter().enumerate() {
        if qn == mid && rng.chance(1, 2) && !check_ensure(&real, &matched_any, &decided_any, rep, &log) {
            return;
        }
        let f = &fns[*fi];
        let got = real.is_async(&resolve, f.key.as_ref(), &f.func, *is_import);
        let (want, by) = ref_is_async(&dirs, &f.name, *is_import, f.wit_async);
        for (i, d) in dirs.iter().enumerate() {
            if ref_matches(d, &f.name, *is_import) {
                matched_any[i] = true;
            }
        }
        if let Some(i) = by {
            decided_any[i] = true;
        }
        log.push(json!({"name": f.name, "import": is_import, "wit_async": f.wit_async, "got": got, "want": want}));
        rep.count("is_async_queries");
        if got != want {
            let class = decide_class(&dirs, &f.name, *is_import, by);
            rep.violation(
                &format!("async:is_async:decided-by-{class}"),
                &format!(
                    "directives {texts:?}: is_async({:?}, {}) = {got} but {} ⇒ {want}",
                    f.name,
                    if *is_import { "import" } else { "export" },
                    match by {
                        Some(i) => format!("the first matching directive is #{i} `{}`", texts[i]),
                        None => format!("no directive matches and the WIT function is {}", if f.wit_async { "async" } else { "sync" }),
                    }
                ),
                replay(json!({"queries": log})),
            );
            return;
        }
    }
    if !check_ensure(&real, &matched_any, &decided_any, rep, &log) {
        return;
    }
    // Display∘parse round trip: the printed directives behave the same
    let printed: Vec<String> = real.debug_opts().collect();
    let mut second = AsyncFilterSet::default();
    for p in &printed {
        second.push(p);
    }
    let printed2: Vec<String> = second.debug_opts().collect();
    let mut rt_ok = printed == printed2 && printed.len() == texts.len();
    let mut fresh = AsyncFilterSet::default();
    for t in &texts {
        fresh.push(t);
    }
    for (fi, is_import) in &queries {
        let f = &fns[*fi];
        if second.is_async(&resolve, f.key.as_ref(), &f.func, *is_import) != fresh.is_async(&resolve, f.key.as_ref(), &f.func, *is_import) {
            rt_ok = false;
        }
    }
    if second.ensure_all_used().is_err() != fresh.ensure_all_used().is_err() {
        rt_ok = false;
    }
    if !rt_ok {
        rep.violation(
            "async:display-parse-roundtrip",
            &format!("directives {texts:?} print as {printed:?}; pushing the printed forms gives a set that prints as {printed2:?} or answers differently"),
            replay(json!({})),
        );
        return;
    }
    rep.eval();
    let nontrivial = dirs.len() >= 2 && (0..dirs.len()).any(|i| dirs[i].kind != Kind::All && decided_any[i]);
    if nontrivial {
        let shape: Vec<String> = dirs
            .iter()
            .enumerate()
            .map(|(i, d)| {
                format!(
                    "{}{}{}",
                    if d.enabled { "+" } else { "-" },
                    match d.kind {
                        Kind::All => "A",
                        Kind::Any(_) => "n",
                        Kind::Import(_) => "i",
                        Kind::Export(_) => "e",
                    },
                    if decided_any[i] {
                        "!"
                    } else if matched_any[i] {
                        "~"
                    } else {
                        "0"
                    }
                )
            })
            .collect();
        rep.distinct(&format!("{}|{}|{}", shape.join(""), fns.len(), queries.len()));
    }
    if idx < 3 {
        rep.sample(json!({"wit": wit, "directives": texts, "queries": log}));
    }
}

// ------------------------------------------------------------ end-to-end

#[derive(Default, Debug)]
struct CoreNames {
    imports: BTreeSet<(String, String)>,
    exports: BTreeSet<String>,
}

fn quoted_after<'a>(s: &'a str, pat: &str) -> Option<(&'a str, &'a str)> {
    let i = s.find(pat)? + pat.len();
    let rest = &s[i..];
    let j = rest.find('"')?;
    Some((&rest[..j], &rest[j + 1..]))
}

fn extract_rust(files: &Files) -> CoreNames {
    let mut n = CoreNames::default();
    for (name, c) in files.iter() {
        if !name.ends_with(".rs") {
            continue;
        }
        let text = String::from_utf8_lossy(c);
        let mut module: Option<String> = None;
        for l in text.lines() {
            if let Some((m, _)) = quoted_after(l, "wasm_import_module = \"") {
                module = Some(m.to_string());
            }
            if let Some((x, _)) = quoted_after(l, "link_name = \"") {
                if let Some(m) = &module {
                    n.imports.insert((m.clone(), x.to_string()));
                }
            }
            if let Some((x, _)) = quoted_after(l, "export_name = \"") {
                n.exports.insert(x.to_string());
            }
        }
    }
    n
}

fn extract_c(files: &Files) -> CoreNames {
    let mut n = CoreNames::default();
    for (name, c) in files.iter() {
        if !name.ends_with(".c") {
            continue;
        }
        let text = String::from_utf8_lossy(c);
        for l in text.lines() {
            if let Some((m, rest)) = quoted_after(l, "__import_module__(\"") {
                if let Some((x, _)) = quoted_after(rest, "__import_name__(\"") {
                    n.imports.insert((m.to_string(), x.to_string()));
                }
            }
            if let Some((x, _)) = quoted_after(l, "__export_name__(\"") {
                n.exports.insert(x.to_string());
            }
        }
    }
    n
}

fn extract_moonbit(files: &Files) -> Option<CoreNames> {
    let mut n = CoreNames::default();
    for (name, c) in files.iter() {
        let text = String::from_utf8_lossy(c);
        if name.ends_with(".mbt") {
            for l in text.lines() {
                let t = l.trim_end();
                if !t.starts_with("fn ") || !t.ends_with('"') {
                    continue;
                }
                // `... = "module" "name"`
                let q: Vec<usize> = t.match_indices('"').map(|(i, _)| i).collect();
                if q.len() < 4 {
                    continue;
                }
                let (a, b, c2, d) = (q[q.len() - 4], q[q.len() - 3], q[q.len() - 2], q[q.len() - 1]);
                if &t[b + 1..c2] != " " || !t[..a].trim_end().ends_with('=') {
                    continue;
                }
                n.imports.insert((t[a + 1..b].to_string(), t[c2 + 1..d].to_string()));
            }
        } else if name.ends_with("moon.pkg.json") {
            let v: Value = serde_json::from_str(&text).ok()?;
            if let Some(ex) = v.pointer("/link/wasm/exports").and_then(|e| e.as_array()) {
                for e in ex {
                    if let Some((_, core)) = e.as_str().and_then(|s| s.split_once(':')) {
                        n.exports.insert(core.to_string());
                    }
                }
            }
        }
    }
    Some(n)
}

fn e2e_case(rng: &mut Rng, idx: u64, rep: &mut Report, seed: u64) {
    let (wit, tags) = if rng.chance(1, 2) {
        let cfg = witgen::Cfg { async_: true, error_context: false, fixed_lists: false, ifaces: 2, funcs: 3, types: 3, ..Default::default() };
        match witgen::generate_valid(rng, &cfg) {
            Some((w, _, _, _)) => (w.wit, w.tags.into_iter().collect::<Vec<_>>()),
            None => return,
        }
    } else {
        let wit = small_world(rng);
        match witgen::parse(&wit) {
            Ok((r, id)) => {
                if witgen::check_encodable(&r, id).is_err() {
                    rep.count("e2e_small_world_not_encodable");
                    return;
                }
            }
            Err(_) => return,
        }
        (wit, vec![])
    };
    let (resolve, world) = match witgen::parse(&wit) {
        Ok(x) => x,
        Err(_) => return,
    };
    let fns = inventory(&resolve, world);
    let bogus = rng.chance(1, 3);
    let texts = gen_dirs(rng, &fns, bogus);
    let dirs: Vec<Dir> = texts.iter().map(|s| ref_parse(s)).collect();
    let unmatched: Vec<usize> = (0..dirs.len()).filter(|i| dirs[*i].kind != Kind::All && !fns.iter().any(|f| ref_matches(&dirs[*i], &f.name, f.is_import))).collect();
    let replay = |extra: Value| json!({"seed": seed, "stream": "e2e", "case": idx, "wit": wit, "directives": texts, "tags": tags, "detail": extra});
    rep.eval();
    let n_async_expected = fns.iter().filter(|f| ref_is_async(&dirs, &f.name, f.is_import, f.wit_async).0).count();
    if !dirs.is_empty() && n_async_expected > 0 && n_async_expected < fns.len() {
        rep.distinct(&format!("{}|{}", texts.join(","), vkit::hash_str(&wit)));
    }

    for backend in ["rust", "c", "moonbit"] {
        let (mut r, w) = match witgen::parse(&wit) {
            Ok(x) => x,
            Err(_) => return,
        };
        let mut files = Files::default();
        let res = catch(|| match backend {
            "rust" => {
                let mut o = wit_bindgen_rust::Opts::default();
                o.generate_all = true;
                for d in &texts {
                    o.async_.push(d);
                }
                o.build().generate(&mut r, w, &mut files)
            }
            "c" => {
                let mut o = wit_bindgen_c::Opts::default();
                for d in &texts {
                    o.async_.push(d);
                }
                o.build().generate(&mut r, w, &mut files)
            }
            _ => {
                let mut o = wit_bindgen_moonbit::Opts::default();
                for d in &texts {
                    o.async_.push(d);
                }
                o.build().generate(&mut r, w, &mut files)
            }
        });
        match res {
            Err((m, l)) => {
                rep.count(&format!("e2e:{backend}:generator-panic"));
                rep.inconclusive(&format!("C17 e2e: {backend} generator panicked at {l}: {}", clip(&m, 70)));
                continue;
            }
            Ok(Err(e)) => {
                let msg = format!("{e:#}");
                if backend == "rust" && !unmatched.is_empty() {
                    rep.count("e2e:rust:rejected-unmatched-directive");
                    continue;
                }
                if backend == "rust" && msg.contains("unused async option") {
                    // a directive that name-matches but never decided: outside the reading
                    rep.count("e2e:rust:rejected-shadowed-directive(unjudged)");
                    continue;
                }
                rep.count(&format!("e2e:{backend}:generator-error"));
                rep.inconclusive(&format!("C17 e2e: {backend} generator error: {}", clip(&msg, 70)));
                continue;
            }
            Ok(Ok(())) => {
                if backend == "rust" && !unmatched.is_empty() {
                    rep.violation(
                        "async:e2e:rust:accepts-unmatched-directive",
                        &format!("Rust generator returned Ok although directive `{}` of {texts:?} matches no function of the world", texts[unmatched[0]]),
                        replay(json!({})),
                    );
                    continue;
                }
            }
        }
        let names = match backend {
            "rust" => extract_rust(&files),
            "c" => extract_c(&files),
            _ => match extract_moonbit(&files) {
                Some(n) => n,
                None => {
                    rep.inconclusive("C17 e2e: moon.pkg.json did not parse");
                    continue;
                }
            },
        };
        rep.count(&format!("e2e:{backend}:outputs-scanned"));
        for f in &fns {
            let (want, by) = ref_is_async(&dirs, &f.name, f.is_import, f.wit_async);
            let (has_sync, has_async) = if f.is_import {
                (
                    names.imports.contains(&(f.module.clone(), f.func.name.clone())),
                    names.imports.contains(&(f.module.clone(), format!("[async-lower]{}", f.func.name))),
                )
            } else {
                let core = if f.key.is_some() { format!("{}#{}", f.module, f.func.name) } else { f.func.name.clone() };
                (names.exports.contains(&core), names.exports.contains(&format!("[async-lift]{core}")))
            };
            let got = match (has_sync, has_async) {
                (true, false) => false,
                (false, true) => true,
                (false, false) => {
                    rep.count(&format!("e2e:{backend}:function-not-found-in-output"));
                    continue;
                }
                (true, true) => {
                    rep.count(&format!("e2e:{backend}:function-found-in-both-forms"));
                    continue;
                }
            };
            rep.count(&format!("e2e:{backend}:functions-judged"));
            if got {
                rep.count(&format!("e2e:{backend}:functions-async"));
            }
            if got != want {
                let dirn = if f.is_import { "import" } else { "export" };
                rep.violation(
                    &format!("async:e2e:{backend}:{dirn}:{}", if want { "expected-async-got-sync" } else { "expected-sync-got-async" }),
                    &format!(
                        "{backend} output for directives {texts:?}: {dirn} {:?} is bound {} but {} ⇒ {}",
                        f.name,
                        if got { "async ([async-lower]/[async-lift] core name)" } else { "sync (plain core name)" },
                        match by {
                            Some(i) => format!("first matching directive is `{}`", texts[i]),
                            None => format!("no directive matches and the WIT says {}", if f.wit_async { "async" } else { "sync" }),
                        },
                        if want { "async" } else { "sync" }
                    ),
                    replay(json!({"function": f.name, "module": f.module, "core_name": f.func.name})),
                );
            }
        }
    }
    if idx < 2 {
        rep.sample(json!({"e2e_wit": wit, "directives": texts, "expected_async": fns.iter().filter(|f| ref_is_async(&dirs, &f.name, f.is_import, f.wit_async).0).map(|f| format!("{}:{}", if f.is_import {"import"} else {"export"}, f.name)).collect::<Vec<_>>() }));
    }
}

fn main() {
    std::env::set_var("VERIF_WASM_IMPORTS", "1");
    let args = Args::parse();
    let seed = args.seed();
    let n_model: u64 = args.u64("n", if args.thorough() { 2_000_000 } else { 20_000 });
    let n_e2e: u64 = args.u64("e2e", if args.thorough() { 6_000 } else { 200 });
    let mut rep = Report::new(
        "model case = one world (small generated world with name clashes across interfaces / world level, or a witgen async world) x one directive list (0..6 of all, -all, name, import:/export:, negations, duplicates, near misses) x a shuffled query set; \
         e2e case = one encodable world x one directive list run through the Rust, C and MoonBit generators; \
         distinct = model: (directive kind/sign/used pattern, #functions, #queries) with >= 2 directives of which a non-`all` one decided a query; e2e: (directives, world) where some but not all functions are expected async",
    );
    rep.assume("function names come from wit-parser (Resolve::name_world_key, Function::name); core names follow the [async-lower]/[async-lift] convention seen in the three backends' output");
    rep.assume("ensure_all_used is judged only when a directive matches no query at all (must fail) or every non-all directive decided a query (must pass)");
    let stream = args.str("stream", "");
    if let Some(i) = only_case(&args) {
        if stream == "e2e" {
            let mut rng = corelib_mon::case_rng(seed, 1702, i);
            e2e_case(&mut rng, i, &mut rep, seed);
        } else {
            let mut rng = corelib_mon::case_rng(seed, 1701, i);
            model_case(&mut rng, i, &mut rep, seed);
        }
    } else {
        fan_out(&mut rep, seed, 1701, n_model, |rng, i, r| model_case(rng, i, r, seed));
        let mut e2e = Report::new("");
        e2e.max_samples = 2;
        fan_out(&mut e2e, seed, 1702, n_e2e, |rng, i, r| e2e_case(rng, i, r, seed));
        rep.max_samples = 8;
        rep.extra.insert("e2e_worlds".into(), json!(e2e.evaluations));
        rep.extra.insert("model_cases".into(), json!(rep.evaluations));
        corelib_mon::merge(&mut rep, e2e);
    }
    rep.write(&args.out());
}
