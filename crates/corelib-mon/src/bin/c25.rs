//! C25 — Source preserves text and tracks indentation.
//!
//! Random op sequences (`push_str`, `push_str_literal`, `indent`, `deindent`,
//! `write!`, `append_src`) are executed against the real
//! `wit_bindgen_core::Source`; the oracle below is written from the property
//! statement (DESIGN.md "### C25") and never looks at source.rs:
//!
//!  (1) text preservation — stripping the leading whitespace of every line of the
//!      buffer and of the concatenated input gives equal strings;
//!  (2) indentation — every non-blank output line starts with 2·d spaces (exactly
//!      2·d when the input line has no leading blanks of its own), d following the
//!      nesting of braces judged on WHOLE lines: a line whose trimmed text starts
//!      with `}` closes before it is indented, one that ends with `{` opens after
//!      it, lines starting with `//` and literal lines do neither.  Judged only
//!      while fragment boundaries have not separated a `}` / `//` / `{` token from
//!      its line edge and braces have not underflowed; everything after the first
//!      such line is outside reading (2) for that sequence;
//!  (3) literal lines change neither depth nor comment state (falls out of (2):
//!      lines after a literal `}` / `{` / `//` line are judged as if it were text);
//!  (3') metamorphic monitor for (3): the sequence with every non-blank character of every
//!      literal fragment replaced by `x` must give the same leading-blank count on every
//!      output line and the same final depth (needs no whole-line model, so it also covers
//!      lines mixing literal and ordinary fragments);
//!  (4) the depth observed at the end (via `set_indent`, restored immediately)
//!      equals the oracle's depth, in particular brace-balanced code restores the
//!      starting depth.
//!
//! `\r` is never generated.  `deindent(n)` is clamped to the current depth (an
//! underflowing `deindent` is a usize underflow, outside the quantifier).
//! `append_src` is used the way the generators use it: whole lines appended at a
//! line start.
use corelib_mon::{clip, fan_out, only_case};
use serde_json::{json, Value};
use std::fmt::Write as _;
use vkit::{Args, Report, Rng};
use wit_bindgen_core::Source;

#[derive(Clone, Debug)]
enum Op {
    Push(String),
    Lit(String),
    Indent(usize),
    Deindent(usize),
    /// `write!` with one of a few fixed templates
    Write(u8, Vec<String>),
    /// ops run on a fresh Source which is then `append_src`ed
    Append(Vec<Op>),
}

fn op_json(op: &Op) -> Value {
    match op {
        Op::Push(s) => json!({"push_str": s}),
        Op::Lit(s) => json!({"push_str_literal": s}),
        Op::Indent(n) => json!({"indent": n}),
        Op::Deindent(n) => json!({"deindent_clamped": n}),
        Op::Write(t, a) => json!({"write": TEMPLATES[*t as usize], "args": a}),
        Op::Append(inner) => json!({"append_src": inner.iter().map(op_json).collect::<Vec<_>>()}),
    }
}

const TEMPLATES: &[&str] = &["{}", "{}{}", "{} {{\n{}}}\n", "{}\n", "{}: {},\n", "// {}\n", "{} = {};", "{}{}{}"];

/// What the Source was actually told, in order.
#[derive(Clone, Debug)]
enum Ev {
    Frag { text: String, lit: bool, via: &'static str },
    Manual(i64),
    Append { text: String, inner: Vec<Ev> },
}

/// fmt::Write adapter: logs each `write_str` piece and forwards it to the real
/// `<Source as fmt::Write>::write_str`.
struct Tee<'a> {
    src: &'a mut Source,
    evs: &'a mut Vec<Ev>,
}
impl std::fmt::Write for Tee<'_> {
    fn write_str(&mut self, s: &str) -> std::fmt::Result {
        self.evs.push(Ev::Frag { text: s.to_string(), lit: false, via: "write" });
        self.src.write_str(s)
    }
}

fn probe_indent(src: &mut Source) -> usize {
    let old = src.set_indent(0);
    src.set_indent(old);
    old
}

fn at_line_start(s: &str) -> bool {
    s.is_empty() || s.ends_with('\n')
}

/// Execute `ops`; after every top-level event call `after(src, evs)`; stop when
/// it returns false.
fn exec(ops: &[Op], src: &mut Source, evs: &mut Vec<Ev>, after: &mut dyn FnMut(&Source, &[Ev]) -> bool) -> bool {
    for op in ops {
        match op {
            Op::Push(s) => {
                evs.push(Ev::Frag { text: s.clone(), lit: false, via: "push_str" });
                src.push_str(s);
            }
            Op::Lit(s) => {
                evs.push(Ev::Frag { text: s.clone(), lit: true, via: "push_str_literal" });
                src.push_str_literal(s);
            }
            Op::Indent(n) => {
                evs.push(Ev::Manual(*n as i64));
                src.indent(*n);
            }
            Op::Deindent(n) => {
                let n = (*n).min(probe_indent(src));
                if n > 0 {
                    evs.push(Ev::Manual(-(n as i64)));
                    src.deindent(n);
                }
            }
            Op::Write(t, a) => {
                let g = |i: usize| a.get(i).map(|s| s.as_str()).unwrap_or("");
                let mut tee = Tee { src, evs };
                match t {
                    0 => write!(tee, "{}", g(0)),
                    1 => write!(tee, "{}{}", g(0), g(1)),
                    2 => write!(tee, "{} {{\n{}}}\n", g(0), g(1)),
                    3 => write!(tee, "{}\n", g(0)),
                    4 => write!(tee, "{}: {},\n", g(0), g(1)),
                    5 => write!(tee, "// {}\n", g(0)),
                    6 => write!(tee, "{} = {};", g(0), g(1)),
                    _ => write!(tee, "{}{}{}", g(0), g(1), g(2)),
                }
                .unwrap();
            }
            Op::Append(inner_ops) => {
                // whole lines appended at a line start
                if !at_line_start(src.as_str()) {
                    evs.push(Ev::Frag { text: "\n".into(), lit: false, via: "push_str" });
                    src.push_str("\n");
                }
                let mut inner = Source::default();
                let mut ievs = vec![];
                exec(inner_ops, &mut inner, &mut ievs, &mut |_, _| true);
                if !at_line_start(inner.as_str()) {
                    ievs.push(Ev::Frag { text: "\n".into(), lit: false, via: "push_str" });
                    inner.push_str("\n");
                }
                src.append_src(&inner);
                evs.push(Ev::Append { text: inner.as_str().to_string(), inner: ievs });
            }
        }
        if !after(src, evs) {
            return false;
        }
    }
    true
}

// ---------------------------------------------------------------- oracle

fn is_ws(c: char) -> bool {
    c.is_whitespace()
}
fn trim(s: &str) -> &str {
    s.trim_matches(is_ws)
}
/// remove the leading whitespace of every line
fn strip_lines(s: &str) -> String {
    let mut out = String::with_capacity(s.len());
    for (i, l) in s.split('\n').enumerate() {
        if i > 0 {
            out.push('\n');
        }
        out.push_str(l.trim_start_matches(is_ws));
    }
    out
}
fn input_text(evs: &[Ev]) -> String {
    let mut s = String::new();
    for e in evs {
        match e {
            Ev::Frag { text, .. } | Ev::Append { text, .. } => s.push_str(text),
            Ev::Manual(_) => {}
        }
    }
    s
}
/// The lines a fragment contributes: split on '\n'; a final '\n' terminates the
/// last piece instead of opening an empty one.  Returns (piece, ends_line).
fn pieces(text: &str) -> Vec<(&str, bool)> {
    if text.is_empty() {
        return vec![];
    }
    let mut v: Vec<&str> = text.split('\n').collect();
    let terminated = text.ends_with('\n');
    if terminated {
        v.pop();
    }
    let n = v.len();
    v.into_iter().enumerate().map(|(i, p)| (p, i + 1 < n || terminated)).collect()
}

struct Piece {
    text: String,
    lit: bool,
}

#[derive(Default)]
struct LineStats {
    judged_lines: u64,
    exact_lines: u64,
    literal_edge_lines_followed: u64,
    closes: u64,
    opens: u64,
    comment_lines: u64,
    manual: u64,
    stop_reason: Option<&'static str>,
}

struct Judge<'a> {
    out_lines: Vec<&'a str>,
    line_no: usize,
    d: i64,
    cur: Vec<Piece>,
    line_start_d: i64,
    judging: bool,
    pending_literal_edge: u64,
    saw_literal_edge: bool,
    stats: LineStats,
    /// (signature suffix, message)
    bad: Option<(String, String)>,
}

impl<'a> Judge<'a> {
    fn stop(&mut self, why: &'static str) {
        if self.judging {
            self.judging = false;
            self.stats.stop_reason = Some(why);
        }
    }
    fn feed(&mut self, evs: &[Ev]) {
        for e in evs {
            if self.bad.is_some() {
                return;
            }
            match e {
                Ev::Manual(n) => {
                    // indent()/deindent() in the middle of a line: the brace effects of that line and
                    // the call do not commute once the level saturates at zero, so whole-line
                    // nesting is not defined for the rest of the sequence
                    if !self.cur.is_empty() {
                        self.stop("indent()/deindent() called in the middle of a line");
                    }
                    self.d += n;
                    self.stats.manual += 1;
                    if self.d < 0 {
                        self.stop("oracle depth negative after deindent");
                        self.d = 0;
                    }
                }
                Ev::Frag { text, lit, .. } => {
                    for (p, ends) in pieces(text) {
                        if self.cur.is_empty() {
                            self.line_start_d = self.d;
                        }
                        self.cur.push(Piece { text: p.to_string(), lit: *lit });
                        if ends {
                            self.finish_line();
                        }
                    }
                }
                Ev::Append { text, inner } => {
                    if self.judging && self.cur.is_empty() && self.d == 0 {
                        // appended at depth 0 at a line start: same as running the inner ops here
                        self.feed(inner);
                    } else {
                        self.stop("append_src at non-zero depth (relative indentation, outside reading (2))");
                        // keep line numbering in step
                        self.line_no += text.matches('\n').count();
                    }
                }
            }
        }
    }

    fn finish_line(&mut self) {
        let ps = std::mem::take(&mut self.cur);
        let ln = self.line_no;
        self.line_no += 1;
        if !self.judging {
            return;
        }
        let text: String = ps.iter().map(|p| p.text.as_str()).collect();
        let t = trim(&text);
        if t.is_empty() {
            return; // blank line: no claim, no effect
        }
        let nonblank: Vec<usize> = (0..ps.len()).filter(|i| !trim(&ps[*i].text).is_empty()).collect();
        let first = nonblank[0];
        let last = *nonblank.last().unwrap();
        let all_lit = nonblank.iter().all(|i| ps[*i].lit);
        let edge = |s: &str| s.starts_with('}') || s.starts_with("//") || s.ends_with('{');
        let (mut close, mut open) = (false, false);
        let kind;
        if all_lit {
            kind = "literal";
            if edge(t) {
                self.pending_literal_edge += 1;
                self.saw_literal_edge = true;
            }
        } else if t.starts_with("//") {
            let f = &ps[first];
            if f.lit || !trim(&f.text).starts_with("//") {
                return self.stop("`//` at a line start split across fragments or mixed with literal text");
            }
            kind = "comment";
            self.stats.comment_lines += 1;
        } else {
            for &i in &nonblank {
                let pt = trim(&ps[i].text);
                if ps[i].lit {
                    if edge(pt) {
                        return self.stop("literal piece with an edge token inside a mixed line");
                    }
                } else {
                    if (pt.starts_with('}') || pt.starts_with("//")) && i != first {
                        return self.stop("fragment boundary puts `}` or `//` at a fragment start inside a line");
                    }
                    if pt.ends_with('{') && i != last {
                        return self.stop("fragment boundary puts `{` at a fragment end inside a line");
                    }
                }
            }
            close = t.starts_with('}');
            open = t.ends_with('{');
            kind = match (close, open) {
                (true, true) => "close-open",
                (true, false) => "close",
                (false, true) => "open",
                _ => "plain",
            };
        }
        let mut e = self.line_start_d;
        if close {
            if self.line_start_d <= 0 || self.d <= 0 {
                return self.stop("unbalanced `}` (depth would go below zero)");
            }
            e -= 1;
        }
        if e < 0 {
            return self.stop("oracle depth negative after deindent");
        }
        let out = self.out_lines.get(ln).copied().unwrap_or("");
        let lead: String = out.chars().take_while(|c| is_ws(*c)).collect();
        let want = " ".repeat(2 * e as usize);
        let exact = !text.starts_with(is_ws);
        let ok = if exact { lead == want } else { lead.starts_with(&want) };
        if !ok {
            let after_lit = if self.saw_literal_edge { ":after-literal-edge-line" } else { "" };
            self.bad = Some((
                format!("source:indentation:{kind}-line{after_lit}"),
                format!(
                    "output line {ln} {:?} starts with {} blank(s) but brace nesting of the whole lines before it gives depth {e} ⇒ {} {} spaces (input line {:?})",
                    clip(out, 60),
                    lead.chars().count(),
                    if exact { "exactly" } else { "at least" },
                    2 * e,
                    clip(&text, 60)
                ),
            ));
            return;
        }
        self.stats.judged_lines += 1;
        if exact {
            self.stats.exact_lines += 1;
        }
        if kind != "literal" && self.pending_literal_edge > 0 {
            self.stats.literal_edge_lines_followed += self.pending_literal_edge;
            self.pending_literal_edge = 0;
        }
        if close {
            self.d -= 1;
            self.stats.closes += 1;
        }
        if open {
            self.d += 1;
            self.stats.opens += 1;
        }
        if self.d < 0 {
            self.stop("oracle depth negative after deindent");
        }
    }
}

/// Which op made reading (1) fail, classified from the INPUT only.
fn classify_text_failure(before: &str, ev: &Ev) -> String {
    let last_line = before.rsplit('\n').next().unwrap_or("");
    let mid_line = !trim(last_line).is_empty();
    match ev {
        Ev::Frag { text, lit, via } => {
            let ps = pieces(text);
            let multi = ps.len() > 1;
            let first = ps.first().map(|p| p.0).unwrap_or("");
            if multi && mid_line && first.starts_with(is_ws) {
                return "source:multiline-continuation-trims-interior-whitespace".into();
            }
            if !*lit && mid_line && trim(first).starts_with('}') && before.ends_with("  ") {
                return "source:close-brace-continuation-pops-interior-whitespace".into();
            }
            format!("source:text-not-preserved:{via}:{}", if multi { "multi-line" } else { "single-line" })
        }
        Ev::Append { .. } => "source:text-not-preserved:append_src".into(),
        Ev::Manual(_) => "source:text-not-preserved:indent-op".into(),
    }
}

fn first_diff(a: &str, b: &str) -> String {
    let (ac, bc): (Vec<char>, Vec<char>) = (a.chars().collect(), b.chars().collect());
    let mut i = 0;
    while i < ac.len() && i < bc.len() && ac[i] == bc[i] {
        i += 1;
    }
    let lo = i.saturating_sub(12);
    let sa: String = ac[lo..(i + 12).min(ac.len())].iter().collect();
    let sb: String = bc[lo..(i + 12).min(bc.len())].iter().collect();
    format!("…{sa:?} (buffer) vs …{sb:?} (input), both with line-leading blanks removed")
}

// ---------------------------------------------------------------- generators

const WORDS: &[&str] = &["x", "foo", "let y", "bar(a, b)", "a  b", "ret", "T::new()", "f(", ");", "x =", "= 1;", ",", "a { b } c", "}{", "{}"];

fn pick_str(rng: &mut Rng, xs: &[&'static str]) -> &'static str {
    xs[rng.usize(xs.len())]
}

fn plain_line(rng: &mut Rng) -> String {
    let n = rng.range(1, 3);
    let mut s = String::new();
    for i in 0..n {
        if i > 0 {
            s.push_str(pick_str(rng, &[" ", "  ", ""]));
        }
        s.push_str(pick_str(rng, WORDS));
    }
    // a plain line must not start with `}`/`//` or end with `{`
    let t = trim(&s).to_string();
    if t.starts_with('}') || t.starts_with("//") || t.ends_with('{') || t.is_empty() {
        return "stmt;".into();
    }
    if rng.chance(1, 10) {
        s.push_str(pick_str(rng, &[" ", "  "]));
    }
    s
}

struct Emitter<'r> {
    rng: &'r mut Rng,
    ops: Vec<Op>,
    pending: String,
    pending_lit: bool,
    /// probability (per mille) of cutting fragments at arbitrary characters
    wild_cut: u64,
    /// may emit lines mixing a literal fragment with ordinary text (stops reading (2) for the sequence)
    mixed: bool,
}

impl Emitter<'_> {
    fn line(&mut self, text: &str, lit: bool) {
        if !self.pending.is_empty() && (self.pending_lit != lit || self.rng.chance(2, 3)) {
            self.flush();
        }
        let own = if self.rng.chance(1, 8) { pick_str(self.rng, &["  ", " ", "\t", "    ", "\u{a0}"]) } else { "" };
        self.pending_lit = lit;
        self.pending.push_str(own);
        self.pending.push_str(text);
        self.pending.push('\n');
        if self.rng.chance(1, 2) {
            self.flush();
        }
    }
    fn frag(&mut self, s: String, lit: bool) {
        if lit {
            self.ops.push(Op::Lit(s));
        } else if self.rng.chance(1, 4) {
            self.ops.push(Op::Write(0, vec![s]));
        } else {
            self.ops.push(Op::Push(s));
        }
    }
    fn flush(&mut self) {
        if self.pending.is_empty() {
            return;
        }
        let s = std::mem::take(&mut self.pending);
        let lit = self.pending_lit;
        let roll = self.rng.below(1000);
        if roll < self.wild_cut {
            // cut at 1..3 arbitrary character positions
            let cs: Vec<char> = s.chars().collect();
            let k = self.rng.range(1, 3);
            let mut cuts: Vec<usize> = (0..k).map(|_| self.rng.usize(cs.len() + 1)).collect();
            cuts.sort();
            let mut prev = 0;
            for c in cuts.into_iter().chain([cs.len()]) {
                let part: String = cs[prev..c].iter().collect();
                prev = c;
                if !part.is_empty() || self.rng.chance(1, 4) {
                    self.frag(part, lit);
                }
            }
            return;
        }
        match self.rng.below(10) {
            0..=4 => self.frag(s, lit),
            5 | 6 => {
                // body and the final newline separately
                let body = s[..s.len() - 1].to_string();
                self.frag(body, lit);
                let l2 = lit && self.rng.chance(1, 2);
                self.frag("\n".into(), l2);
            }
            7 => {
                // cut at a line boundary
                let idxs: Vec<usize> = s.match_indices('\n').map(|(i, _)| i + 1).collect();
                let c = *self.rng.pick(&idxs);
                let (a, b) = s.split_at(c);
                self.frag(a.to_string(), lit);
                if !b.is_empty() {
                    self.frag(b.to_string(), lit);
                }
            }
            8 if !lit => {
                // write!("{}\n") for a single line, else write!("{}{}") cut at a line boundary
                if s.matches('\n').count() == 1 {
                    self.ops.push(Op::Write(3, vec![s[..s.len() - 1].to_string()]));
                } else {
                    let c = s.find('\n').unwrap() + 1;
                    let (a, b) = s.split_at(c);
                    self.ops.push(Op::Write(1, vec![a.to_string(), b.to_string()]));
                }
            }
            _ => {
                // cut at a blank inside the text (never next to the line edge tokens)
                let cs: Vec<(usize, char)> = s.char_indices().collect();
                let cands: Vec<usize> = cs.iter().filter(|(_, c)| *c == ' ').map(|(i, _)| *i).collect();
                if cands.is_empty() {
                    self.frag(s, lit);
                } else {
                    let c = *self.rng.pick(&cands);
                    let (a, b) = s.split_at(c);
                    self.frag(a.to_string(), lit);
                    self.frag(b.to_string(), lit);
                }
            }
        }
    }

    fn stmts(&mut self, depth: usize, budget: &mut i64, top: bool) {
        let n = self.rng.range(1, 4);
        for _ in 0..n {
            if *budget <= 0 {
                return;
            }
            *budget -= 1;
            match self.rng.below(23) {
                20..=22 if self.mixed => {
                    // a literal fragment WITHOUT newline carrying an edge token, continued on the same
                    // line by ordinary text that opens / closes a brace (judged by the literal-twin monitor)
                    self.flush();
                    let lit = pick_str(self.rng, &["// note", "//", "}", "} lit", "text {", "{", "// x {", "/// doc", "//}", "plain"]);
                    let ord = pick_str(self.rng, &[" fn f() {\n", "{\n", " {\n", "}\n", " else {\n", "} else {\n", " x\n", "\n", " }\n"]);
                    self.ops.push(Op::Lit(lit.to_string()));
                    if self.rng.chance(1, 3) {
                        self.ops.push(Op::Write(0, vec![ord.to_string()]));
                    } else {
                        self.ops.push(Op::Push(ord.to_string()));
                    }
                    if ord.ends_with("{\n") && self.rng.chance(3, 4) {
                        self.stmts(depth + 1, budget, false);
                        self.line("}", false);
                    }
                }
                0..=5 => {
                    let l = plain_line(self.rng);
                    self.line(&l, false);
                }
                6..=9 if depth < 4 => {
                    let hdr = pick_str(self.rng, &["if c {", "fn f() {", "{", "match x {", "impl T {", "a => {", "x = S {"]);
                    self.line(hdr, false);
                    self.stmts(depth + 1, budget, false);
                    let mut k = 0;
                    while self.rng.chance(1, 4) && k < 2 {
                        let l = pick_str(self.rng, &["} else {", "} else if d {", "}{"]);
                        self.line(l, false);
                        self.stmts(depth + 1, budget, false);
                        k += 1;
                    }
                    let l = pick_str(self.rng, &["}", "}", "};", "} // end {", "})"]);
                    self.line(l, false);
                }
                10 | 11 => {
                    let c = pick_str(self.rng, &["// note", "// open {", "// }", "//", "/// doc {", "// a { b", "//}{"]);
                    self.line(c, false);
                }
                12 => self.line("", false),
                13 | 14 => {
                    let l = pick_str(self.rng, &["}", "{", "// lit", "text {", "} lit", "plain literal", "* item", "```", "}{", "// {"]);
                    self.line(l, true);
                }
                15 => {
                    // manual indentation around a region
                    self.flush();
                    let k = self.rng.range(1, 2);
                    self.ops.push(Op::Indent(k));
                    self.stmts(depth + 1, budget, false);
                    self.flush();
                    self.ops.push(Op::Deindent(k));
                }
                16 if top => {
                    // append_src of a nested program (only at depth 0)
                    self.flush();
                    let wc = self.wild_cut;
                    let mut inner = Emitter { rng: &mut *self.rng, ops: vec![], pending: String::new(), pending_lit: false, wild_cut: wc, mixed: false };
                    let mut b = 6;
                    inner.stmts(0, &mut b, false);
                    inner.flush();
                    let ops = inner.ops;
                    self.ops.push(Op::Append(ops));
                }
                17 => {
                    // block through a write! template: "{hdr} {{\n{body}}}\n"
                    self.flush();
                    let mut inner = Emitter { rng: &mut *self.rng, ops: vec![], pending: String::new(), pending_lit: false, wild_cut: 0, mixed: false };
                    let mut b = 3;
                    inner.stmts(depth + 1, &mut b, false);
                    inner.flush();
                    let body: String = inner
                        .ops
                        .iter()
                        .filter_map(|o| match o {
                            Op::Push(s) => Some(s.clone()),
                            Op::Write(0, a) => Some(a[0].clone()),
                            _ => None,
                        })
                        .collect();
                    let body = if body.ends_with('\n') { body } else { format!("{body}\n") };
                    // keep the body brace-balanced on whole lines: use only its plain lines
                    let body: String = body
                        .split_inclusive('\n')
                        .filter(|l| {
                            let t = trim(l);
                            !(t.starts_with('}') || t.ends_with('{'))
                        })
                        .collect();
                    self.ops.push(Op::Write(2, vec!["while go".into(), body]));
                }
                18 => {
                    // unbalanced code: stray close or missing close
                    if self.rng.chance(1, 2) {
                        self.line("}", false);
                    } else {
                        self.line("open {", false);
                    }
                }
                _ => {
                    let l = plain_line(self.rng);
                    let k = *self.rng.pick(&[4u8, 5, 6]);
                    self.flush();
                    match k {
                        4 => self.ops.push(Op::Write(4, vec!["field".into(), l])),
                        5 => self.ops.push(Op::Write(5, vec![l])),
                        _ => {
                            self.ops.push(Op::Write(6, vec!["v".into(), l]));
                            self.ops.push(Op::Push("\n".into()));
                        }
                    }
                }
            }
        }
    }
}

fn gen_program(rng: &mut Rng, wild_cut: u64) -> Vec<Op> {
    let mixed = rng.chance(1, 4);
    let mut e = Emitter { rng, ops: vec![], pending: String::new(), pending_lit: false, wild_cut, mixed };
    let mut budget = e.rng.range(3, 14) as i64;
    while budget > 0 {
        e.stmts(0, &mut budget, true);
    }
    e.flush();
    e.ops
}

const TOKENS: &[&str] = &[
    "x", "y", "foo", "bar(", "a,", ")", ";", "=", "{", "}", "{", "}", "//", "/", "/*", " ", "  ", "   ", "\t", "\n", "\n", "\n", "} else {", "// c",
    "{}", "\u{a0}", " f(", "x =", "\n\n", "}\n", "{\n", " {\n",
];

fn wild_frag(rng: &mut Rng) -> String {
    let n = rng.range(0, 6);
    (0..n).map(|_| *rng.pick(TOKENS)).collect()
}

fn gen_wild(rng: &mut Rng, allow_append: bool) -> Vec<Op> {
    let n = rng.range(1, 14);
    let mut ops = vec![];
    for _ in 0..n {
        match rng.below(20) {
            0..=10 => ops.push(Op::Push(wild_frag(rng))),
            11..=13 => ops.push(Op::Lit(wild_frag(rng))),
            14 | 15 => {
                let t = *rng.pick(&[1u8, 1, 2, 4, 6, 7]);
                ops.push(Op::Write(t, vec![wild_frag(rng), wild_frag(rng), wild_frag(rng)]));
            }
            16 => ops.push(Op::Indent(rng.range(1, 2))),
            17 => ops.push(Op::Deindent(rng.range(1, 2))),
            18 if allow_append => ops.push(Op::Append(gen_wild(rng, false))),
            _ => ops.push(Op::Push(format!("{}\n", wild_frag(rng).replace('\n', "")))),
        }
    }
    ops
}

/// Literal parts (`Some`) and argument slots (`None`) of a write! template.
fn template_parts(t: u8) -> Vec<Option<String>> {
    let mut v = vec![];
    let mut rest = TEMPLATES[t as usize];
    while let Some(p) = rest.find("{}") {
        let l = rest[..p].replace("{{", "{").replace("}}", "}");
        if !l.is_empty() {
            v.push(Some(l));
        }
        v.push(None);
        rest = &rest[p + 2..];
    }
    let l = rest.replace("{{", "{").replace("}}", "}");
    if !l.is_empty() {
        v.push(Some(l));
    }
    v
}

fn mid_line(input: &str) -> bool {
    !trim(input.rsplit('\n').next().unwrap_or("")).is_empty()
}

/// Rewrite a fragment so that it does not fall in one of the two known classes.
fn fix_frag(s: String, input: &str, lit: bool) -> String {
    let mut s = s;
    if mid_line(input) {
        let ps = pieces(&s);
        if ps.len() > 1 && ps[0].0.starts_with(is_ws) {
            s = s.trim_start_matches(is_ws).to_string();
        }
        if !lit && input.ends_with("  ") && trim(pieces(&s).first().map(|p| p.0).unwrap_or("")).starts_with('}') {
            s = format!("x{s}");
        }
    }
    s
}

/// Avoid the two known ways reading (1) fails (decided on the input alone), so
/// that any other text change shows up under its own signature.
fn avoid_known(ops: Vec<Op>) -> Vec<Op> {
    let mut input = String::new();
    let mut out = vec![];
    for op in ops {
        match op {
            Op::Push(s) => {
                let s = fix_frag(s, &input, false);
                input.push_str(&s);
                out.push(Op::Push(s));
            }
            Op::Lit(s) => {
                let s = fix_frag(s, &input, true);
                input.push_str(&s);
                out.push(Op::Lit(s));
            }
            Op::Write(t, a) => {
                let saved = input.clone();
                let (mut a2, mut ai, mut ok) = (vec![], 0, true);
                for part in template_parts(t) {
                    match part {
                        Some(l) => {
                            if fix_frag(l.clone(), &input, false) != l {
                                ok = false; // a fixed template part cannot be rewritten: drop the op
                            }
                            input.push_str(&l);
                        }
                        None => {
                            let arg = fix_frag(a.get(ai).cloned().unwrap_or_default(), &input, false);
                            input.push_str(&arg);
                            a2.push(arg);
                            ai += 1;
                        }
                    }
                }
                if ok {
                    out.push(Op::Write(t, a2));
                } else {
                    input = saved;
                }
            }
            Op::Append(inner) => {
                out.push(Op::Append(avoid_known(inner)));
                // afterwards the outer buffer is at a line start
                if !input.is_empty() && !input.ends_with('\n') {
                    input.push('\n');
                }
                input.push_str("appended\n");
            }
            other => out.push(other),
        }
    }
    out
}

fn render(t: u8, a: &[String]) -> String {
    let g = |i: usize| a.get(i).map(|s| s.as_str()).unwrap_or("");
    match t {
        0 => g(0).to_string(),
        1 => format!("{}{}", g(0), g(1)),
        2 => format!("{} {{\n{}}}\n", g(0), g(1)),
        3 => format!("{}\n", g(0)),
        4 => format!("{}: {},\n", g(0), g(1)),
        5 => format!("// {}\n", g(0)),
        6 => format!("{} = {};", g(0), g(1)),
        _ => format!("{}{}{}", g(0), g(1), g(2)),
    }
}

fn shape(ops: &[Op]) -> String {
    fn cls(s: &str) -> String {
        let mut out = String::new();
        let mut last = ' ';
        for c in s.chars() {
            let k = match c {
                '\n' => 'N',
                '{' => '{',
                '}' => '}',
                '/' => '/',
                c if c.is_whitespace() => '_',
                _ => 'a',
            };
            if k != last || k == 'N' || k == '{' || k == '}' {
                out.push(k);
            }
            last = k;
        }
        out
    }
    ops.iter()
        .map(|o| match o {
            Op::Push(s) => format!("p[{}]", cls(s)),
            Op::Lit(s) => format!("l[{}]", cls(s)),
            Op::Indent(n) => format!("+{n}"),
            Op::Deindent(n) => format!("-{n}"),
            Op::Write(t, a) => format!("w{t}[{}]", a.iter().map(|s| cls(s)).collect::<Vec<_>>().join("|")),
            Op::Append(i) => format!("A({})", shape(i)),
        })
        .collect::<Vec<_>>()
        .join(" ")
}

// ---------------------------------------------------------------- one case

fn check_text(evs: &[Ev], buf: &str) -> bool {
    strip_lines(buf) == strip_lines(&input_text(evs))
}

fn has_literal(ops: &[Op]) -> bool {
    ops.iter().any(|o| match o {
        Op::Lit(s) => s.chars().any(|c| !c.is_whitespace()),
        Op::Append(i) => has_literal(i),
        _ => false,
    })
}

/// The same sequence with every non-blank character of every literal fragment replaced by `x`
/// (same length, newlines and blanks).
fn literal_twin(ops: &[Op]) -> Vec<Op> {
    ops.iter()
        .map(|o| match o {
            Op::Lit(s) => Op::Lit(s.chars().map(|c| if c.is_whitespace() { c } else { 'x' }).collect()),
            Op::Append(i) => Op::Append(literal_twin(i)),
            other => other.clone(),
        })
        .collect()
}

fn lead_len(l: &str) -> usize {
    l.chars().take_while(|c| is_ws(*c)).count()
}

/// Reading (3), metamorphic form: what a literal fragment says must be irrelevant to every
/// indentation / comment decision.  Returns false when a violation was reported.
fn literal_twin_monitor(ops: &[Op], src: &mut Source, rep: &mut Report, replay: &dyn Fn(Value) -> Value) -> bool {
    if !has_literal(ops) {
        return true;
    }
    let twin = literal_twin(ops);
    let mut tsrc = Source::default();
    let mut tevs = vec![];
    if let Err((msg, loc)) = corelib_mon::catch(|| exec(&twin, &mut tsrc, &mut tevs, &mut |_, _| true)) {
        rep.violation(
            "source:panic",
            &format!("Source panicked at {loc}: {msg} on the literal twin of ops {}", clip(&shape(ops), 300)),
            replay(json!({"panic": msg, "at": loc, "twin": twin.iter().map(op_json).collect::<Vec<_>>()})),
        );
        return false;
    }
    rep.count("literal_twins_run");
    let (a, b) = (src.as_str().to_string(), tsrc.as_str().to_string());
    let (la, lb): (Vec<&str>, Vec<&str>) = (a.split('\n').collect(), b.split('\n').collect());
    let detail = |extra: Value| replay(json!({"twin_ops": twin.iter().map(op_json).collect::<Vec<_>>(), "buffer": a, "twin_buffer": b, "more": extra}));
    if la.len() != lb.len() {
        rep.violation(
            "source:literal-content-affects-line-structure",
            &format!("replacing the non-blank characters of the literal fragments by `x` changes the number of output lines ({} vs {}): {:?} vs {:?}", la.len(), lb.len(), clip(&a, 200), clip(&b, 200)),
            detail(json!({})),
        );
        return false;
    }
    for (i, (x, y)) in la.iter().zip(lb.iter()).enumerate() {
        if lead_len(x) != lead_len(y) {
            rep.violation(
                "source:literal-content-affects-later-indentation",
                &format!(
                    "output line {i} is indented by {} blank(s) ({:?}) but by {} ({:?}) when the non-blank characters of the literal fragments are replaced by `x`; literal text must not influence indentation or comment state; buffers {:?} vs {:?}",
                    lead_len(x),
                    clip(x, 60),
                    lead_len(y),
                    clip(y, 60),
                    clip(&a, 300),
                    clip(&b, 300)
                ),
                detail(json!({"line": i})),
            );
            return false;
        }
    }
    rep.count_n("literal_twin_lines_compared", la.len() as u64);
    let (da, db) = (probe_indent(src), probe_indent(&mut tsrc));
    if da != db {
        rep.violation(
            "source:literal-content-affects-final-depth",
            &format!("the indent level after the sequence is {da}, but {db} when the non-blank characters of the literal fragments are replaced by `x`; buffers {:?} vs {:?}", clip(&a, 300), clip(&b, 300)),
            detail(json!({"depth": da, "twin_depth": db})),
        );
        return false;
    }
    true
}

/// Hand-written sequences run before the random ones (stable minimal witnesses).
fn directed() -> Vec<Vec<Op>> {
    let p = |s: &str| Op::Push(s.to_string());
    let l = |s: &str| Op::Lit(s.to_string());
    vec![
        vec![p("x ="), p(" f(\n  a)\n")],
        vec![p("a  "), p("}\n")],
        vec![p("fn f() {\n"), p("y\n"), p("} else {\n"), p("z\n"), p("}\n")],
        vec![Op::Indent(1), l("}\n{"), Op::Deindent(1), p("\nx {\n"), l("// {\n"), p("y\n}\n")],
        vec![p("// a {\n"), p("b {\n"), Op::Write(2, vec!["while c".into(), "d;\n".into()]), p("}\n")],
        vec![p("top {\n"), Op::Append(vec![p("in {\nx\n}\n")]), p("}\n")],
        vec![Op::Append(vec![p("in {\nx\n")]), p("y\n}\n")],
        // literal text without newline, continued by ordinary text on the same line
        vec![l("// note"), p(" fn f() {\n"), p("x\n"), p("}\n")],
        vec![p("a {\n"), l("//"), p("}\n"), p("b\n")],
        vec![l("text {"), p("\n"), p("y {\n"), l("}"), p(" z {\n"), p("w\n"), p("}\n}\n")],
        vec![p("m {\n"), l("/// doc"), Op::Write(2, vec![" if c".into(), "d;\n".into()]), p("}\n")],
    ]
}

fn run_case(rng: &mut Rng, idx: u64, rep: &mut Report, seed: u64) {
    let mode = if idx >= DIRECTED_BASE { 10 } else { rng.below(10) };
    let (ops, mode_name) = match mode {
        10 => (directed()[(idx - DIRECTED_BASE) as usize].clone(), "directed"),
        0..=4 => (gen_program(rng, 0), "program"),
        5 | 6 => (gen_program(rng, 150), "program-wild-cuts"),
        7 => (avoid_known(gen_program(rng, 400)), "program-wild-cuts-avoiding-known"),
        8 => (avoid_known(gen_wild(rng, true)), "wild-avoiding-known"),
        _ => (gen_wild(rng, true), "wild"),
    };
    let replay = |extra: Value| json!({"seed": seed, "stream": "seq", "case": idx, "mode": mode_name, "ops": ops.iter().map(op_json).collect::<Vec<_>>(), "detail": extra});

    let mut src = Source::default();
    let mut evs = vec![];
    let run = corelib_mon::catch(|| exec(&ops, &mut src, &mut evs, &mut |_, _| true));
    if let Err((msg, loc)) = run {
        // the statement does not speak about panics, but a panic on in-alphabet input means no buffer at all
        rep.violation(
            "source:panic",
            &format!("Source panicked at {loc}: {msg} on ops {}", clip(&shape(&ops), 300)),
            replay(json!({"panic": msg, "at": loc})),
        );
        return;
    }
    rep.eval();
    rep.count(&format!("mode:{mode_name}"));
    rep.count_n("fragments", evs.iter().filter(|e| matches!(e, Ev::Frag { .. })).count() as u64);

    // (3) metamorphic: literal content is irrelevant to indentation / comment decisions
    if !literal_twin_monitor(&ops, &mut src, rep, &replay) {
        return;
    }

    // (1) text preservation, inner sources first
    let mut text_ok = true;
    for e in &evs {
        if let Ev::Append { text, inner } = e {
            rep.count("append_src");
            if !check_text(inner, text) {
                text_ok = false;
                report_text_failure(rep, &ops_of_append(&ops), true, &replay);
            }
        }
    }
    if text_ok && !check_text(&evs, src.as_str()) {
        text_ok = false;
        report_text_failure(rep, &ops, false, &replay);
    }
    if !text_ok {
        rep.count("text_not_preserved");
        return;
    }
    rep.count("text_preserved");

    // (2)(3)(4)
    let buf = src.as_str().to_string();
    let mut j = Judge {
        out_lines: buf.split('\n').collect(),
        line_no: 0,
        d: 0,
        cur: vec![],
        line_start_d: 0,
        judging: true,
        pending_literal_edge: 0,
        saw_literal_edge: false,
        stats: LineStats::default(),
        bad: None,
    };
    j.feed(&evs);
    if let Some((sig, msg)) = j.bad.take() {
        rep.violation(&sig, &format!("{msg}; buffer {:?}", clip(&buf, 400)), replay(json!({"buffer": buf})));
        return;
    }
    rep.count_n("lines_judged_for_indentation", j.stats.judged_lines);
    rep.count_n("lines_judged_exact", j.stats.exact_lines);
    rep.count_n("literal_edge_lines_followed_by_judged_lines", j.stats.literal_edge_lines_followed);
    rep.count_n("brace_opens", j.stats.opens);
    rep.count_n("brace_closes", j.stats.closes);
    rep.count_n("comment_lines", j.stats.comment_lines);
    if let Some(r) = j.stats.stop_reason {
        rep.count(&format!("indentation_judging_stopped: {r}"));
    }
    if j.judging && j.cur.is_empty() {
        let real = probe_indent(&mut src) as i64;
        if real != j.d {
            let balanced = j.stats.opens == j.stats.closes;
            let sig = if balanced && j.d == 0 { "source:depth-not-restored-after-balanced-code" } else { "source:depth-mismatch-at-end" };
            rep.violation(
                sig,
                &format!(
                    "after the sequence the Source's indent level is {real} but whole-line brace nesting (+ indent/deindent calls) gives {}; opens={} closes={}; buffer {:?}",
                    j.d,
                    j.stats.opens,
                    j.stats.closes,
                    clip(&buf, 400)
                ),
                replay(json!({"buffer": buf, "real_indent": real, "oracle_depth": j.d})),
            );
            return;
        }
        rep.count("sequences_fully_judged");
        if j.stats.opens > 0 && j.stats.opens == j.stats.closes {
            rep.count("balanced_sequences_depth_restored");
        }
        if j.stats.judged_lines >= 2 {
            rep.distinct(&shape(&ops));
        }
    } else if j.stats.judged_lines >= 2 {
        rep.distinct(&shape(&ops));
    }
    if idx < 4 {
        rep.sample(json!({"mode": mode_name, "ops": ops.iter().map(op_json).collect::<Vec<_>>(), "buffer": buf, "lines_judged": j.stats.judged_lines}));
    }
}

fn ops_of_append(ops: &[Op]) -> Vec<Op> {
    // the first Append whose inner text fails is re-run on its own below; return all inner op lists flattened
    for o in ops {
        if let Op::Append(inner) = o {
            let mut s = Source::default();
            let mut ev = vec![];
            exec(inner, &mut s, &mut ev, &mut |_, _| true);
            if !check_text(&ev, s.as_str()) {
                return inner.clone();
            }
        }
    }
    vec![]
}

/// Re-run `ops` on a fresh Source, then re-apply the recorded events one by one
/// checking reading (1) after each to find the call that broke it; classify and report.
fn report_text_failure(rep: &mut Report, ops: &[Op], inner: bool, replay: &dyn Fn(Value) -> Value) {
    let mut src = Source::default();
    let mut evs = vec![];
    exec(ops, &mut src, &mut evs, &mut |_, _| true);
    let mut s2 = Source::default();
    let mut failing = None;
    let mut before = String::new();
    for (k, e) in evs.iter().enumerate() {
        replay_events(std::slice::from_ref(e), &mut s2);
        if !check_text(&evs[..=k], s2.as_str()) {
            failing = Some(k);
            break;
        }
        if let Ev::Frag { text, .. } | Ev::Append { text, .. } = e {
            before.push_str(text);
        }
    }
    let Some(failing) = failing else {
        rep.inconclusive("C25: text failure did not reproduce on event-wise re-execution");
        return;
    };
    let sig = classify_text_failure(&before, &evs[failing]);
    let ev_desc = match &evs[failing] {
        Ev::Frag { text, lit, via } => format!("{via}({text:?}){}", if *lit { " [literal]" } else { "" }),
        Ev::Append { text, .. } => format!("append_src(<{:?}>)", clip(text, 80)),
        Ev::Manual(n) => format!("indent op {n}"),
    };
    let inp = input_text(&evs[..=failing]);
    let cur = s2.as_str().to_string();
    rep.violation(
        &sig,
        &format!(
            "after input {:?} the call {ev_desc} left the buffer {:?}: text differs beyond line-leading whitespace: {}{}",
            clip(&before, 120),
            clip(&cur, 200),
            first_diff(&strip_lines(&cur), &strip_lines(&inp)),
            if inner { " (inside a Source later passed to append_src)" } else { "" }
        ),
        replay(json!({"input_before": before, "failing_call": ev_desc, "buffer_after": cur})),
    );
}

fn replay_events(evs: &[Ev], s: &mut Source) {
    for e in evs {
        match e {
            Ev::Frag { text, lit, .. } => {
                if *lit {
                    s.push_str_literal(text)
                } else {
                    s.push_str(text)
                }
            }
            Ev::Manual(n) => {
                if *n >= 0 {
                    s.indent(*n as usize)
                } else {
                    s.deindent((-*n) as usize)
                }
            }
            Ev::Append { inner, .. } => {
                let mut i2 = Source::default();
                replay_events(inner, &mut i2);
                s.append_src(&i2);
            }
        }
    }
}

const DIRECTED_BASE: u64 = 1 << 60;

fn main() {
    let args = Args::parse();
    let seed = args.seed();
    let n: u64 = args.u64("n", if args.thorough() { 10_000_000 } else { 60_000 });
    let mut rep = Report::new(
        "case = one op sequence (push_str / push_str_literal / indent / deindent / write! / append_src) run on a fresh Source; \
         generators: block-structured programs cut into fragments at safe places, the same with cuts at arbitrary characters, and token soup; \
         distinct = sequences (by op kinds + fragment token-class skeleton) in which at least 2 output lines were judged for indentation",
    );
    rep.assume("input alphabet excludes \\r; deindent is clamped to the current level; append_src is only used with whole lines at a line start");
    rep.assume("reading (2) is not judged after the first line where a fragment boundary separates a brace/comment token from its line edge, after brace underflow, after indent()/deindent() called in the middle of a line, or after append_src at non-zero depth");
    if let Some(i) = only_case(&args) {
        let mut rng = corelib_mon::case_rng(seed, 25, i);
        run_case(&mut rng, i, &mut rep, seed);
    } else {
        for k in 0..directed().len() as u64 {
            let mut rng = corelib_mon::case_rng(seed, 25, DIRECTED_BASE + k);
            run_case(&mut rng, DIRECTED_BASE + k, &mut rep, seed);
        }
        fan_out(&mut rep, seed, 25, n, |rng, i, r| run_case(rng, i, r, seed));
    }
    rep.write(&args.out());
}
