//! C27 — distinct packages get distinct module names.
//!
//! Random sets of packages in ONE namespace (same / different names; versions
//! `M.m.p` with pre-release and build metadata containing dots, hyphens, mixed
//! case; at most one unversioned package per name) are pushed into a real
//! `wit_parser::Resolve`; `wit_bindgen_core::name_package_module` is evaluated
//! for each.  Oracle: injectivity — two distinct packages of the namespace must
//! not get the same module name.  End-to-end half: the real Rust generator runs
//! on a world importing an interface from each package and the generated module
//! tree (parsed with `syn`) must not contain two sibling modules of one name.
//!
//! A collision is labelled from the INPUT pair only (never from the mangled
//! names): which characters differ between the two version strings / names.
use corelib_mon::{catch, clip, fan_out, only_case};
use serde_json::{json, Value};
use std::collections::BTreeMap;
use vkit::{Args, Report, Rng};
use wit_bindgen_core::{name_package_module, Files, WorldGenerator};
use wit_parser::{PackageId, Resolve};

#[derive(Clone, Debug, PartialEq, Eq, PartialOrd, Ord)]
struct Pkg {
    name: String,
    version: Option<String>,
    iface: String,
}
impl Pkg {
    fn id(&self, ns: &str) -> String {
        match &self.version {
            Some(v) => format!("{ns}:{}@{v}", self.name),
            None => format!("{ns}:{}", self.name),
        }
    }
}

// lower-case only: the component-model encoding rejects upper-case package names
const NAMES: &[&str] = &["b", "b", "b", "b1", "b10", "foo-bar", "foobar", "foo", "c"];
const NUMS: &[&str] = &["0", "1", "2", "10", "1", "0"];
const PRE_IDS: &[&str] = &["a", "b", "rc", "RC", "rc1", "rc-1", "rcA", "rc-a", "a-b", "a--b", "x", "X", "1", "0a", "alpha", "Alpha", "-a", "a-"];
const BUILD_IDS: &[&str] = &["x", "X", "a", "b", "a-b", "001", "sha-1f", "SHA", "rc", "a--b"];

fn gen_version(rng: &mut Rng) -> String {
    let mut v = format!("{}.{}.{}", rng.pick(NUMS), rng.pick(NUMS), rng.pick(NUMS));
    if rng.chance(3, 5) {
        let n = rng.range(1, 3);
        let ids: Vec<&str> = (0..n).map(|_| *rng.pick(PRE_IDS)).collect();
        v.push('-');
        v.push_str(&ids.join("."));
    }
    if rng.chance(2, 5) {
        let n = rng.range(1, 2);
        let ids: Vec<&str> = (0..n).map(|_| *rng.pick(BUILD_IDS)).collect();
        v.push('+');
        v.push_str(&ids.join("."));
    }
    v
}

/// A near twin of `v`: one small edit that keeps it a (probably) valid semver.
fn twin(rng: &mut Rng, v: &str) -> String {
    let (core, rest) = match v.find(|c| c == '-' || c == '+') {
        Some(i) => (&v[..i], &v[i..]),
        None => (v, ""),
    };
    let cs: Vec<char> = rest.chars().collect();
    if cs.is_empty() {
        return format!("{core}{}", rng.pick(&["-a", "+a", "-rc", "-RC"]));
    }
    let mut out = cs.clone();
    match rng.below(7) {
        0 => {
            // swap one '.' <-> '-' after the first character
            let idx: Vec<usize> = (1..cs.len()).filter(|i| cs[*i] == '.' || cs[*i] == '-').collect();
            if let Some(&i) = idx.get(rng.usize(idx.len().max(1))) {
                out[i] = if cs[i] == '.' { '-' } else { '.' };
            }
        }
        1 => {
            // pre-release <-> build metadata
            if cs[0] == '-' && !rest.contains('+') {
                out[0] = '+';
            } else if cs[0] == '+' {
                out[0] = '-';
            }
        }
        2 => {
            // flip the case of one letter
            let idx: Vec<usize> = (0..cs.len()).filter(|i| cs[*i].is_ascii_alphabetic()).collect();
            if !idx.is_empty() {
                let i = idx[rng.usize(idx.len())];
                out[i] = if cs[i].is_ascii_lowercase() { cs[i].to_ascii_uppercase() } else { cs[i].to_ascii_lowercase() };
            }
        }
        3 => {
            // double a hyphen
            let idx: Vec<usize> = (1..cs.len()).filter(|i| cs[*i] == '-').collect();
            if !idx.is_empty() {
                let i = idx[rng.usize(idx.len())];
                out.insert(i, '-');
            }
        }
        4 => {
            // turn "-x" (inside) into "X" (camel boundary)
            let idx: Vec<usize> = (1..cs.len().saturating_sub(1)).filter(|i| cs[*i] == '-' && cs[*i + 1].is_ascii_lowercase() && cs[*i - 1].is_ascii_lowercase()).collect();
            if !idx.is_empty() {
                let i = idx[rng.usize(idx.len())];
                out[i + 1] = cs[i + 1].to_ascii_uppercase();
                out.remove(i);
            }
        }
        5 => {
            // a later '.'/'-' becomes the build separator
            if !rest.contains('+') {
                let idx: Vec<usize> = (1..cs.len()).filter(|i| cs[*i] == '.' || cs[*i] == '-').collect();
                if !idx.is_empty() {
                    let i = idx[rng.usize(idx.len())];
                    out[i] = '+';
                }
            }
        }
        _ => {
            // a genuinely different version
            return gen_version(rng);
        }
    }
    format!("{core}{}", out.into_iter().collect::<String>())
}

fn gen_set(rng: &mut Rng) -> Vec<Pkg> {
    let n = rng.range(2, 5);
    let mut set: Vec<Pkg> = vec![];
    let same_iface = rng.chance(2, 3);
    while set.len() < n {
        let p = if !set.is_empty() && rng.chance(3, 5) {
            // relative of an existing package
            let base = set[rng.usize(set.len())].clone();
            match rng.below(6) {
                0 => Pkg { name: base.name.clone(), version: None, iface: String::new() },
                1 => {
                    let nm = match base.name.as_str() {
                        "b" => *rng.pick(&["b1", "b10"]),
                        "b1" | "b10" => "b",
                        "foo-bar" => *rng.pick(&["foobar", "foo"]),
                        "foobar" | "foo" => "foo-bar",
                        other => other,
                    };
                    Pkg { name: nm.to_string(), version: base.version.clone().or_else(|| Some(gen_version(rng))), iface: String::new() }
                }
                _ => {
                    let v = match &base.version {
                        Some(v) => twin(rng, v),
                        None => gen_version(rng),
                    };
                    Pkg { name: base.name.clone(), version: Some(v), iface: String::new() }
                }
            }
        } else {
            Pkg { name: rng.pick(NAMES).to_string(), version: if rng.chance(1, 8) { None } else { Some(gen_version(rng)) }, iface: String::new() }
        };
        if set.iter().any(|q| q.name == p.name && q.version == p.version) {
            continue;
        }
        set.push(p);
    }
    for (i, p) in set.iter_mut().enumerate() {
        p.iface = if same_iface { "i".to_string() } else { format!("i{i}") };
    }
    set
}

fn directed() -> Vec<Vec<Pkg>> {
    let p = |n: &str, v: &str| Pkg { name: n.into(), version: if v.is_empty() { None } else { Some(v.into()) }, iface: "i".into() };
    vec![
        vec![p("b", "1.0.0-a.b"), p("b", "1.0.0-a-b")],
        vec![p("b", "1.0.0-x"), p("b", "1.0.0+x")],
        vec![p("b", "1.0.0-a.b"), p("b", "1.0.0-a+b")],
        vec![p("b", "1.0.0-a.b-c"), p("b", "1.0.0-a-b+c")],
        vec![p("b", "1.0.0-rc"), p("b", "1.0.0-RC")],
        vec![p("b", "1.0.0-rcA"), p("b", "1.0.0-rc-a")],
        vec![p("foo-bar", "1.0.0"), p("foo-bar", "2.0.0"), p("foobar", "1.0.0"), p("foobar", "2.0.0"), p("foo", "1.0.0")],
        vec![p("b", "10.0.0"), p("b", "1.0.0"), p("b1", "0.0.0"), p("b1", "0.0.1")],
        vec![p("b", "1.0.0"), p("b", "2.0.0"), p("b", ""), p("c", "1.0.0")],
    ]
}

/// Label of a colliding pair, from the input only.
fn classify(p: &Pkg, q: &Pkg) -> String {
    let strip = |s: &str| -> String { s.chars().filter(|c| !matches!(c, '.' | '-' | '+' | '_')).collect::<String>().to_lowercase() };
    if p.name != q.name {
        if p.name.to_lowercase() == q.name.to_lowercase() {
            return "path:name-mangling-collision:name-case".into();
        }
        let a = format!("{}{}", p.name, p.version.clone().unwrap_or_default());
        let b = format!("{}{}", q.name, q.version.clone().unwrap_or_default());
        if strip(&a) == strip(&b) {
            return "path:name-mangling-collision:name-version-boundary".into();
        }
        return "path:name-mangling-collision:other".into();
    }
    let (Some(a), Some(b)) = (&p.version, &q.version) else {
        return "path:version-mangling-collision:unversioned".into();
    };
    let (ac, bc): (Vec<char>, Vec<char>) = (a.chars().collect(), b.chars().collect());
    let is_sep = |c: char| matches!(c, '.' | '-' | '+');
    if ac.len() == bc.len() {
        let diffs: Vec<(char, char)> = ac.iter().zip(bc.iter()).filter(|(x, y)| x != y).map(|(x, y)| (*x, *y)).collect();
        if !diffs.is_empty() && diffs.iter().all(|(x, y)| is_sep(*x) && is_sep(*y)) {
            let mut kinds: Vec<String> = diffs
                .iter()
                .map(|(x, y)| {
                    let nm = |c: char| match c {
                        '.' => "dot",
                        '-' => "hyphen",
                        _ => "plus",
                    };
                    let (mut l, mut r) = (*x, *y);
                    // order: dot < hyphen < plus
                    let rank = |c: char| match c {
                        '.' => 0,
                        '-' => 1,
                        _ => 2,
                    };
                    if rank(l) > rank(r) {
                        std::mem::swap(&mut l, &mut r);
                    }
                    format!("{}-vs-{}", nm(l), nm(r))
                })
                .collect();
            kinds.sort();
            kinds.dedup();
            let k = if kinds.len() == 1 { kinds[0].clone() } else { "mixed-separators".to_string() };
            return format!("path:version-mangling-collision:{k}");
        }
    }
    if a.to_lowercase() == b.to_lowercase() {
        return "path:version-mangling-collision:case".into();
    }
    if strip(a) == strip(b) {
        return "path:version-mangling-collision:word-splitting".into();
    }
    "path:version-mangling-collision:other".into()
}

/// "Valid input" is defined operationally (DESIGN 2.3): wit-parser accepts the package AND its
/// component-model encoding validates.
fn encodable(r: &Resolve, id: PackageId) -> Result<(), String> {
    let bytes = match catch(|| wit_component::encode(r, id)) {
        Ok(Ok(b)) => b,
        Ok(Err(e)) => return Err(format!("{e:#}")),
        Err((m, _)) => return Err(format!("encoder panic: {m}")),
    };
    wasmparser::Validator::new_with_features(wasmparser::WasmFeatures::all()).validate_all(&bytes).map(|_| ()).map_err(|e| format!("{e:#}"))
}

fn reason_class(e: &str) -> String {
    // keep counters few: strip quoted / backticked specifics
    let mut out = String::new();
    let mut skip = false;
    for c in e.chars() {
        if c == '`' || c == '"' {
            skip = !skip;
            continue;
        }
        if !skip {
            out.push(c);
        }
    }
    clip(out.rsplit(':').next().unwrap_or(&out).trim(), 60)
}

struct Built {
    resolve: Resolve,
    ids: Vec<PackageId>,
}

fn build(ns: &str, set: &[Pkg]) -> Result<Built, String> {
    let mut r = Resolve::default();
    r.all_features = true;
    let mut ids = vec![];
    for (i, p) in set.iter().enumerate() {
        let text = format!("package {};\ninterface {} {{\n  type t = u32;\n  f: func(x: t) -> t;\n}}\n", p.id(ns), p.iface);
        match catch(|| r.push_str(&format!("p{i}.wit"), &text)) {
            Ok(Ok(id)) => ids.push(id),
            Ok(Err(e)) => return Err(format!("{}: {e:#}", p.id(ns))),
            Err((m, _)) => return Err(format!("{}: parser panic {m}", p.id(ns))),
        }
    }
    Ok(Built { resolve: r, ids })
}

fn root_world(ns: &str, set: &[Pkg]) -> String {
    let mut w = String::from("package zz:root;\nworld w {\n");
    for p in set {
        match &p.version {
            Some(v) => w.push_str(&format!("  import {ns}:{}/{}@{v};\n", p.name, p.iface)),
            None => w.push_str(&format!("  import {ns}:{}/{};\n", p.name, p.iface)),
        }
    }
    w.push_str("}\n");
    w
}

/// (parent path, duplicated module name)
fn duplicate_modules(items: &[syn::Item], path: &str, out: &mut Vec<(String, String)>, count: &mut u64) {
    let mut seen: BTreeMap<String, u32> = BTreeMap::new();
    for it in items {
        if let syn::Item::Mod(m) = it {
            *count += 1;
            let name = m.ident.to_string();
            *seen.entry(name.clone()).or_insert(0) += 1;
            if let Some((_, inner)) = &m.content {
                duplicate_modules(inner, &format!("{path}::{name}"), out, count);
            }
        }
    }
    for (n, c) in seen {
        if c > 1 {
            out.push((path.to_string(), n));
        }
    }
}

fn run_set(ns: &str, set: &[Pkg], e2e: bool, idx: u64, seed: u64, rep: &mut Report, stream: &str) {
    let ids_txt: Vec<String> = set.iter().map(|p| p.id(ns)).collect();
    let replay = |extra: Value| json!({"seed": seed, "stream": stream, "case": idx, "packages": ids_txt, "detail": extra});
    let b = match build(ns, set) {
        Ok(b) => b,
        Err(e) => {
            rep.count("sets_rejected_by_wit_parser");
            if idx < 3 {
                rep.count(&format!("example rejection: {}", clip(&e, 120)));
            }
            return;
        }
    };
    for id in &b.ids {
        if let Err(e) = encodable(&b.resolve, *id) {
            rep.count("sets_not_component_encodable(discarded)");
            rep.count(&format!("not encodable: {}", reason_class(&e)));
            return;
        }
    }
    let names: Vec<String> = match catch(|| b.ids.iter().map(|id| name_package_module(&b.resolve, *id)).collect()) {
        Ok(n) => n,
        Err((m, l)) => {
            rep.violation("path:panic", &format!("name_package_module panicked at {l}: {m} on {ids_txt:?}"), replay(json!({})));
            return;
        }
    };
    rep.eval();
    rep.count_n("packages", set.len() as u64);
    let mut first_collision: Option<String> = None;
    let mut pairs_same_name = 0;
    for i in 0..set.len() {
        for j in i + 1..set.len() {
            if set[i].name == set[j].name {
                pairs_same_name += 1;
            }
            rep.count("package_pairs_compared");
            if names[i] == names[j] {
                let sig = classify(&set[i], &set[j]);
                rep.count(&format!("collisions:{}", sig.rsplit(':').next().unwrap()));
                rep.violation(
                    &sig,
                    &format!(
                        "packages {} and {} (both present in one Resolve) get the same module name {:?} from name_package_module",
                        set[i].id(ns),
                        set[j].id(ns),
                        names[i]
                    ),
                    replay(json!({"names": names})),
                );
                first_collision.get_or_insert(sig);
            }
        }
    }
    if pairs_same_name > 0 {
        let mut key: Vec<String> = ids_txt.clone();
        key.sort();
        rep.distinct(&key.join(" "));
    }
    if idx < 3 && stream == "sets" {
        rep.sample(json!({"packages": ids_txt, "module_names": names}));
    }
    if !e2e {
        return;
    }
    // ---- end-to-end: the Rust generator on a world importing an interface of every package
    let mut r = b.resolve;
    let w = root_world(ns, set);
    let root = match catch(|| r.push_str("root.wit", &w)) {
        Ok(Ok(id)) => id,
        Ok(Err(e)) => {
            rep.inconclusive(&format!("C27 e2e: root world rejected by wit-parser: {}", clip(&format!("{e:#}"), 100)));
            return;
        }
        Err(_) => {
            rep.inconclusive("C27 e2e: wit-parser panicked on the root world");
            return;
        }
    };
    let world = match r.select_world(&[root], None) {
        Ok(w) => w,
        Err(_) => {
            rep.inconclusive("C27 e2e: select_world failed");
            return;
        }
    };
    if let Err(e) = witgen::check_encodable(&r, world) {
        rep.count("e2e_root_world_not_encodable(discarded)");
        rep.count(&format!("not encodable: {}", reason_class(&format!("{e:#}"))));
        return;
    }
    let mut opts = wit_bindgen_rust::Opts::default();
    opts.generate_all = true;
    let mut files = Files::default();
    let res = catch(|| {
        let mut g = opts.build();
        g.generate(&mut r, world, &mut files)
    });
    match res {
        Ok(Ok(())) => {}
        Ok(Err(e)) => {
            rep.inconclusive(&format!("C27 e2e: Rust generator returned an error: {}", clip(&format!("{e:#}"), 100)));
            return;
        }
        Err((m, l)) => {
            rep.inconclusive(&format!("C27 e2e: Rust generator panicked at {l}: {}", clip(&m, 80)));
            return;
        }
    }
    let mut total_mods = 0;
    let mut dups = vec![];
    let mut any = false;
    for (name, contents) in files.iter() {
        if !name.ends_with(".rs") {
            continue;
        }
        let text = String::from_utf8_lossy(contents);
        match syn::parse_file(&text) {
            Ok(f) => {
                any = true;
                duplicate_modules(&f.items, "crate", &mut dups, &mut total_mods);
            }
            Err(e) => {
                rep.inconclusive(&format!("C27 e2e: generated Rust does not parse with syn: {}", clip(&e.to_string(), 80)));
                return;
            }
        }
    }
    if !any {
        rep.inconclusive("C27 e2e: no .rs file generated");
        return;
    }
    rep.count("e2e_worlds");
    rep.count_n("e2e_modules_seen", total_mods);
    if let Some((parent, name)) = dups.first() {
        // one signature for the visible consequence of any name collision reported above;
        // duplicates with no colliding pair in the set are something else
        let class = if first_collision.is_some() { "from-name-collision" } else { "unattributed" };
        rep.count(&format!("e2e_duplicates:{class}"));
        rep.violation(
            &format!("path:rust-duplicate-module:{class}"),
            &format!(
                "Rust bindings for a world importing {ids_txt:?} define module `{name}` twice inside `{parent}` ({} duplicate(s) in all)",
                dups.len()
            ),
            replay(json!({"world": w, "duplicates": dups})),
        );
    }
}

fn main() {
    std::env::set_var("VERIF_WASM_IMPORTS", "1");
    let args = Args::parse();
    let seed = args.seed();
    let n: u64 = args.u64("n", if args.thorough() { 1_000_000 } else { 20_000 });
    let n_e2e: u64 = args.u64("e2e", if args.thorough() { 20_000 } else { 300 });
    let mut rep = Report::new(
        "case = one set of 2..5 packages of one namespace pushed into a real Resolve (names from a pool with case / digit twins; versions M.m.p[-pre][+build], \
         often near twins of each other); every pair is compared; distinct = package sets (exact ids) containing at least one pair with the same name; \
         the first `e2e` sets and all directed sets also go through the Rust generator",
    );
    rep.assume("valid input = wit-parser accepts every package AND wit_component::encode of every package (and of the e2e root world) passes wasmparser validation; other sets are discarded and counted");
    rep.assume("e2e judges only duplicate sibling `mod` items in the syn-parsed output; generator errors/panics are inconclusive here (C16's business)");
    let ns = "a";
    // self-test of the validity filter: an upper-case package name parses but must not encode
    match build(ns, &[Pkg { name: "FOO-BAR".into(), version: None, iface: "i".into() }]) {
        Ok(b) => match encodable(&b.resolve, b.ids[0]) {
            Err(e) => {
                rep.extra.insert("selftest_uppercase_package_rejected_by_encoding".into(), json!(clip(&e, 120)));
            }
            Ok(()) => rep.inconclusive("C27: validity filter self-test: package a:FOO-BAR encodes; filter may be ineffective"),
        },
        Err(e) => {
            rep.extra.insert("selftest_uppercase_package_rejected_by_parser".into(), json!(clip(&e, 120)));
        }
    }
    let stream = args.str("stream", "");
    if let Some(i) = only_case(&args) {
        if stream == "directed" {
            run_set(ns, &directed()[i as usize], true, i, seed, &mut rep, "directed");
        } else {
            let mut rng = corelib_mon::case_rng(seed, 27, i);
            let set = gen_set(&mut rng);
            run_set(ns, &set, true, i, seed, &mut rep, "sets");
        }
    } else {
        for (i, set) in directed().iter().enumerate() {
            run_set(ns, set, true, i as u64, seed, &mut rep, "directed");
        }
        fan_out(&mut rep, seed, 27, n, |rng, i, r| {
            let set = gen_set(rng);
            run_set(ns, &set, i < n_e2e, i, seed, r, "sets");
        });
    }
    rep.write(&args.out());
}
