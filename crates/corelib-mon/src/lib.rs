//! Shared plumbing for the corelib-mon harness binaries: per-case seeded RNGs,
//! a thread fan-out whose result does not depend on the number of threads, report
//! merging and a thread-safe panic catcher.
use serde_json::Value;
use std::cell::RefCell;
use vkit::{Report, Rng};

pub fn threads() -> usize {
    if let Ok(v) = std::env::var("VERIF_THREADS") {
        if let Ok(n) = v.parse::<usize>() {
            return n.max(1);
        }
    }
    std::thread::available_parallelism().map(|n| n.get()).unwrap_or(4).min(32)
}

/// RNG of case `i` of stream `tag` under `seed`: independent of scheduling.
pub fn case_rng(seed: u64, tag: u64, i: u64) -> Rng {
    let mut r = Rng::new(seed ^ tag.wrapping_mul(0x9E3779B97F4A7C15));
    let a = r.next();
    Rng::new(a ^ i.wrapping_mul(0xD1342543DE82EF95).rotate_left(17) ^ i)
}

pub fn merge(into: &mut Report, from: Report) {
    into.evaluations += from.evaluations;
    for d in from.distinct {
        if into.distinct.len() < 400_000 {
            into.distinct.insert(d);
        }
    }
    for s in from.samples {
        into.sample(s);
    }
    for v in &from.violations {
        into.violation(
            v["signature"].as_str().unwrap_or("?"),
            v["what"].as_str().unwrap_or(""),
            v["replay"].clone(),
        );
    }
    for (k, n) in from.inconclusive {
        *into.inconclusive.entry(k).or_insert(0) += n;
    }
    for (k, n) in from.counters {
        *into.counters.entry(k).or_insert(0) += n;
    }
    for (k, v) in from.extra {
        into.extra.insert(k, v);
    }
    for a in from.assumptions {
        into.assume(&a);
    }
}

/// Run cases `0..n` of stream `tag`; case `i` gets `case_rng(seed, tag, i)`.
/// Work is split over threads by index; per-thread reports are merged in
/// thread order, so everything except sample choice is schedule independent.
pub fn fan_out<F>(rep: &mut Report, seed: u64, tag: u64, n: u64, f: F)
where
    F: Fn(&mut Rng, u64, &mut Report) + Sync,
{
    let t = threads().min(n.max(1) as usize);
    let max_samples = rep.max_samples;
    let parts: Vec<Report> = std::thread::scope(|s| {
        let mut hs = vec![];
        for k in 0..t {
            let f = &f;
            hs.push(s.spawn(move || {
                let mut r = Report::new("");
                r.max_samples = max_samples;
                let mut i = k as u64;
                while i < n {
                    let mut rng = case_rng(seed, tag, i);
                    // a panic inside one case (harness or code under test outside an explicit
                    // `catch`) must not lose the whole run: it is recorded as inconclusive
                    if let Err((msg, loc)) = catch(|| f(&mut rng, i, &mut r)) {
                        r.inconclusive(&format!("case panicked outside a monitored call at {loc}: {}", clip(&msg, 120)));
                    }
                    i += t as u64;
                }
                r
            }));
        }
        hs.into_iter().map(|h| h.join().expect("worker thread panicked")).collect()
    });
    for p in parts {
        merge(rep, p);
    }
}

thread_local! {
    static LAST_PANIC: RefCell<Option<(String, String)>> = const { RefCell::new(None) };
}

/// Run `f`, capturing a panic as (message, file:line).  Thread safe.
pub fn catch<F: FnOnce() -> R, R>(f: F) -> Result<R, (String, String)> {
    static INIT: std::sync::Once = std::sync::Once::new();
    INIT.call_once(|| {
        std::panic::set_hook(Box::new(|info| {
            let msg = if let Some(s) = info.payload().downcast_ref::<&str>() {
                s.to_string()
            } else if let Some(s) = info.payload().downcast_ref::<String>() {
                s.clone()
            } else {
                "<non-string panic>".to_string()
            };
            let loc = info.location().map(|l| format!("{}:{}", l.file(), l.line())).unwrap_or_default();
            LAST_PANIC.with(|c| *c.borrow_mut() = Some((msg, loc)));
        }));
    });
    match std::panic::catch_unwind(std::panic::AssertUnwindSafe(f)) {
        Ok(r) => Ok(r),
        Err(_) => Err(LAST_PANIC.with(|c| c.borrow_mut().take()).unwrap_or_default()),
    }
}

/// Shorten a string for `what` messages.
pub fn clip(s: &str, n: usize) -> String {
    if s.chars().count() <= n {
        s.to_string()
    } else {
        let t: String = s.chars().take(n).collect();
        format!("{t}…")
    }
}

pub fn jstr(v: &Value) -> String {
    serde_json::to_string(v).unwrap_or_default()
}

/// `--replay-case I` support: when set only that case index of a stream runs.
pub fn only_case(args: &vkit::Args) -> Option<u64> {
    args.get("case").and_then(|s| s.parse().ok())
}
