#!/bin/sh
# Extra one-time setup steps for /verif checks (idempotent, offline). Each agent appends its own block.
set -u

# --- rsguest (C05/C06/C07): Miri sysroot for 32-bit ARM (32-bit pointers, u64/f64 aligned to 8 like wasm32;
# i686 aligns them to 4, which makes canonical list<u64> buffers look mis-deallocated)
if ! ls "${MIRI_SYSROOT:-$HOME/.cache/miri}"/lib/rustlib/armv7-unknown-linux-gnueabihf >/dev/null 2>&1; then
  CARGO_NET_OFFLINE=true cargo +nightly miri setup --target armv7-unknown-linux-gnueabihf >/dev/null 2>&1 || echo "setup-extra: miri sysroot for armv7 failed (built lazily on first use)"
fi

# --- rt-alloc (C24): Miri sysroots for wasm32-unknown-unknown (no_std: the real cabi_realloc is only compiled
# there) and for the native target (generated cabi_dealloc item). Both are also built lazily by `cargo miri run`.
if ! ls "${MIRI_SYSROOT:-$HOME/.cache/miri}"/lib/rustlib/wasm32-unknown-unknown >/dev/null 2>&1; then
  MIRI_NO_STD=1 CARGO_NET_OFFLINE=true cargo +nightly miri setup --target wasm32-unknown-unknown >/dev/null 2>&1 || echo "setup-extra: miri sysroot for wasm32-unknown-unknown failed (built lazily on first use)"
fi
if ! ls "${MIRI_SYSROOT:-$HOME/.cache/miri}"/lib/rustlib/x86_64-unknown-linux-gnu >/dev/null 2>&1; then
  CARGO_NET_OFFLINE=true cargo +nightly miri setup >/dev/null 2>&1 || echo "setup-extra: native miri sysroot failed (built lazily on first use)"
fi

# --- componentize checks (C09/C12/C13/C31): warm the working-tree CLI build and C09's scratch projects (wit-bindgen
# guest crate for the custom wasm32 target with -Zbuild-std=core,alloc, and for the host). Checks do the same builds
# incrementally on every run; this only moves the one-time cost (~2 min) out of the first quick run.
( cd "$(dirname "$0")/.." && python3 - <<'PY' >/dev/null 2>&1 || echo "setup-extra: C09/C12 warm-up failed (built lazily on first use)"
import sys
sys.path.insert(0, "lib")
import cli, compz
from checks import C09
compz.componentize_bin()
cli.build_cli()
C09.prepare_base()
PY
)
