#!/usr/bin/env python3
"""Re-evaluate every seeded change (from /tmp/mut-Cxx-out or the committed copies
under seeded/) against the current checks, N at a time, each worker with its own
scratch worktree.  usage: tools/finalseeds.py [-jN] [ids or property ids ...]"""
import glob
import json
import os
import queue
import re
import subprocess
import sys
import threading

VERIF = os.path.dirname(os.path.dirname(os.path.abspath(__file__)))
extra_checks = {"C05-A": "C05,C06", "C05-B": "C05,C02", "C06-A": "C06,C05", "C06-B": "C06,C05", "C10-A": "C10,C04", "C10-B": "C10,C02",
                "C21-B": "C21,C18", "C22-A": "C22,C18", "C22-B": "C22,C23", "C08-A": "C08,C21", "C08-B": "C08"}
needs_new = {
    "C05-A": "a list lifted element by element whose element size mixes fixed bytes and pointer words (list<tuple<u64,string>>)",
    "C05-B": "a sync import with >16 flat params where a param has larger alignment than the running offset (u8 then u64)",
    "C06-A": "a non-empty map nested below the top level of an import parameter",
    "C06-B": "a list whose element size mixes a byte part and a pointer part, length 0 or >=2",
    "C07-A": "an own handle to an exported resource reaches guest code, guest calls into_inner, then handle drop and dtor run",
    "C07-B": "an import argument of type list<own<R>> (or list of records containing an own handle)",
    "C08-A": "async import returns STARTING, guest drops the future before STARTED is processed, subtask.cancel answers RETURNED_CANCELLED",
    "C08-B": "an async export with a borrow<imported resource> parameter and host-side borrow accounting at task.return",
    "C09-A": "a type named exactly guest reachable from a parameter of an imported function",
    "C09-B": "a 0x20 byte of the encoded world landing first on a wrapped line of the component-type literal (e.g. a 32-byte name)",
    "C10-A": "an f32 in a variant case whose flat slot is joined with a 64-bit case, lowered flat as an import parameter",
    "C10-B": "an export with >16 flat params whose params are not in non-increasing alignment order",
    "C11-A": "result<_, E> with allocating E reached through a *_free helper",
    "C11-B": "--autodrop-borrows yes, borrow<imported> as payload of a variant case of an export param, host passes a different case sharing the slot with a non-zero value",
    "C21-A": "own parameter, call still STARTING, future dropped in that window, subtask.cancel answers RETURNED_CANCELLED",
    "C21-B": "a status event delivered to the task and the call future dropped on that same wakeup instead of being polled",
    "C22-A": "a completion callback that re-enters waitable_register/unregister of the same task (foreign C-ABI client)",
    "C22-B": "inter-task-wakeup feature, a body waiting on both a waitable and a Rust-level signal, signal raised from another task first",
    "C23-A": "task sleeps on a host waitable and a Rust event, another task wakes it from Rust, host delivers the host event first",
    "C23-B": "a second (or later) sleep of a task that is woken only from Rust",
    "C13-A": "a function mentioning the same future/stream type twice in a row followed by a new payload type (C backend, async)",
    "C13-B": "a freestanding world-level export with a future/stream whose payload type is used by no import or exported interface (Rust)",
    "C31-A": "a world whose name is a C/C++ keyword; the .cpp (not only the header) must be compiled",
    "C31-B": "an imported resource with a constructor/static whose first parameter is a record/enum/variant declared after the resource",
    "C04-A": "an f32 sharing a flat slot with a list/string length and no pointer or 64-bit value",
    "C04-B": "C guest, an f32 sharing a 64-bit slot in the lowering direction, and a value that is not a whole number",
    "C14-A": "a build without debug assertions AND a peer sending a non-canonical true (2..=255)",
    "C14-B": "a core i32 with bits above bit 15 lifted as u16 (MoonBit)",
}


def main():
    args = sys.argv[1:]
    n = 4
    only = set()
    for a in args:
        if a.startswith("-j"):
            n = int(a[2:])
        else:
            only.add(a)
    jobs = []
    seen = set()
    srcs = sorted(glob.glob("/tmp/mut-C??-out"))
    for out in srcs:
        prop = re.search(r"mut-(C\d+)-out", out).group(1)
        for ab in "AB":
            patch = os.path.join(out, "patch%s.diff" % ab)
            demo = os.path.join(out, "demo%s" % ab)
            if os.path.exists(patch) and os.path.isdir(demo):
                jobs.append([prop, "%s-%s" % (prop, ab), patch, demo])
                seen.add("%s-%s" % (prop, ab))
    # committed copies (when /tmp was cleaned)
    for d in sorted(glob.glob(os.path.join(VERIF, "seeded", "C??-?"))):
        name = os.path.basename(d)
        if name not in seen and os.path.exists(os.path.join(d, "patch.diff")):
            jobs.append([name[:3], name, "/var/tmp/seedcopy-%s.diff" % name, "/var/tmp/seedcopy-%s-demo" % name])
            subprocess.run(["cp", os.path.join(d, "patch.diff"), jobs[-1][2]])
            subprocess.run(["rm", "-rf", jobs[-1][3]])
            subprocess.run(["cp", "-r", os.path.join(d, "demo"), jobs[-1][3]])
    full = []
    for prop, name, patch, demo in jobs:
        if only and name not in only and prop not in only:
            continue
        meta = os.path.join(VERIF, "seeded", name, "meta.json")
        needs = needs_new.get(name, "")
        tests_done = False
        if os.path.exists(meta):
            m = json.load(open(meta))
            needs = m.get("needs_to_manifest") or needs
            tests_done = m.get("tests_same_as_baseline") is True
        full.append((prop, name, patch, demo, needs, extra_checks.get(name, prop), tests_done))
    print(len(full), "jobs", flush=True)
    q = queue.Queue()
    for j in full:
        q.put(j)
    os.makedirs("/var/tmp/seedlogs", exist_ok=True)

    def worker(k):
        wt = "/tmp/ev-wt%d" % k
        while True:
            try:
                prop, name, patch, demo, needs, checks, tests_done = q.get_nowait()
            except queue.Empty:
                return
            cmd = ["python3", "tools/seedcheck.py", prop, name, patch, demo, "--needs", needs, "--checks", checks, "--wt", wt]
            if tests_done:
                cmd.append("--skip-tests")
            with open("/var/tmp/seedlogs/final-%s.log" % name, "w") as f:
                subprocess.run(cmd, cwd=VERIF, stdout=f, stderr=subprocess.STDOUT)
            print("done", name, flush=True)

    ts = [threading.Thread(target=worker, args=(k,)) for k in range(n)]
    [t.start() for t in ts]
    [t.join() for t in ts]
    print("ALL DONE", flush=True)


if __name__ == "__main__":
    main()
