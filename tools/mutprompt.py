#!/usr/bin/env python3
"""Print the prompt for an independent 'seeded breakage' sub-agent for one property.
The agent gets ONLY the property text and its own scratch worktree (nothing from /verif)."""
import json, sys
pid = sys.argv[1]
wt = "/tmp/mut-%s" % pid
for l in open('/verif/properties.jsonl'):
    p = json.loads(l)
    if p['id'] == pid:
        break
else:
    sys.exit("no such property")
files = ", ".join(p['anchors'].get('files', []))
print(f"""You are given a git worktree of the Rust repository bytecodealliance/wit-bindgen (a code generator that turns WIT interface definitions into guest-language bindings for the WebAssembly Component Model canonical ABI, plus a Rust async guest runtime) at {wt}. Work ONLY inside {wt} and an output directory {wt}-out (create it). Do not read or touch anything under /verif or /repo, and do not use the network (there is none; always pass --offline to cargo; set CARGO_TARGET_DIR={wt}/target).

Here is a semantic property of this code base that is supposed to hold for every input / schedule / history, not just the ones the tests sample:

  Title: {p['title']}
  Statement: {p['statement']}
  Quantified over: {p['quantifier']['text']}
  Code it is anchored in: {files}

YOUR JOB: play the role of a developer who introduces a realistic, plausible-looking bug. Produce TWO independent alternative source changes (patch A and patch B; if you can only find one good one, deliver one) to the repository, each of which BREAKS the property above while
  (1) the repository still compiles (`cargo build --workspace --offline`) and
  (2) the existing test suite still passes unchanged (`cargo test --workspace --no-fail-fast --offline` — run it on the unmodified worktree first to see the baseline, then with your change; the set of passing tests must be the same), and
  (3) the breakage needs something SPECIFIC to manifest — a particular interleaving/schedule, a fault or event at a particular point, a multi-step sequence of operations, an unusual input shape or value, a particular option combination, or two cooperating sites that each look fine alone — i.e. NOT something that ordinary use or any simple smoke test would expose at once. Subtle and narrow is good; think of off-by-one at a boundary, a wrong case in one arm of a match, a missing step on one path, a stale value reused, a condition inverted only for a rare combination. The two patches should break the property in different ways / different places.
Do not edit tests, CI files or the files under tests/; change only library/generator/runtime source. Keep each patch small (a few lines). Do not add comments that reveal the bug.

For each patch also write a DEMONSTRATION: a self-contained test or small program (Rust integration test, a small cargo project depending on the worktree crates by path, a shell script driving the CLI at {wt}/target/debug/wit-bindgen on a WIT file, etc.) that FAILS (non-zero exit) with the patch applied and PASSES (exit 0) on the unmodified worktree. It must run offline. If the property concerns generated code for a language whose toolchain is not installed (there is no wasmtime, no wasm32 Rust target, no go/dotnet/moon/ldc2; clang, gcc/g++, rustc stable+nightly with miri, python3 are installed), demonstrate on the generated text or by running generated Rust/C natively in whatever way you can make work; explain what you did.

DELIVERABLES in {wt}-out/:
  patchA.diff, patchB.diff  — `git diff` of the source change only (each relative to the unmodified HEAD, applicable with `git apply`)
  demoA/, demoB/            — the demonstration files plus a `run.sh` that takes the repository root as $1, exits 0 if the property-relevant behaviour is correct and non-zero if broken (it may build things; keep build output out of {wt}-out)
  notes.md                  — for each patch: what it changes, why it breaks the property, what specific condition it needs to manifest, why the existing tests do not notice, and the exact commands you ran with their outcomes (baseline tests before/after, demo before/after).
When finished, restore the worktree to a clean state (`git -C {wt} checkout -- . && git -C {wt} clean -fdq -e target`), delete {wt}/target to save disk, and reply with a short summary (what A and B are, in two or three sentences each, and whether every requirement (1)-(3) was verified).""")
