#!/usr/bin/env python3
"""Render the table of seeded changes (seeded/*/meta.json) into DESIGN.md between the
<!-- SEEDED-TABLE-BEGIN --> / <!-- SEEDED-TABLE-END --> markers."""
import glob, json, os, re
HERE = os.path.dirname(os.path.dirname(os.path.abspath(__file__)))
rows = []
for m in sorted(glob.glob(os.path.join(HERE, "seeded", "*", "meta.json"))):
    d = json.load(open(m))
    name = d["name"]
    sigs = []
    for c, r in d.get("checks", {}).items():
        for l in r.get("violation_lines", []):
            l = l.strip()
            if l.startswith("signature:"):
                sigs.append(l[len("signature:"):].strip())
    patch = open(os.path.join(os.path.dirname(m), "patch.diff")).read()
    files = sorted(set(re.findall(r"^\+\+\+ b/(\S+)", patch, re.M)))
    det = d.get("detected_by", [])
    new = d.get("new_signatures")
    rows.append((name, d["property"], ", ".join(files), d.get("needs_to_manifest", ""), "yes" if d.get("breakage_confirmed") else "NO",
                 (", ".join(det) if det else "**missed**") + (" (" + d.get("note", "") + ")" if d.get("note") else ""),
                 "; ".join(("`%s`" % s) for s in (new if new is not None else sigs)[:3])))
out = ["| seeded change | property | file(s) changed | needs, to manifest | breakage confirmed (tests same, demo fails) | caught by (quick tier) | signatures (first 3) |", "|---|---|---|---|---|---|---|"]
for r in rows:
    out.append("| " + " | ".join(x.replace("|", "\\|") for x in r) + " |")
table = "\n".join(out)
p = os.path.join(HERE, "DESIGN.md")
s = open(p).read()
b, e = "<!-- SEEDED-TABLE-BEGIN -->", "<!-- SEEDED-TABLE-END -->"
if b in s:
    s = s[:s.index(b) + len(b)] + "\n" + table + "\n" + s[s.index(e):]
    open(p, "w").write(s)
    print("table updated: %d rows" % len(rows))
else:
    print(table)

# findings table
kf = json.load(open(os.path.join(HERE, "known_findings.json")))["findings"]
out = ["| property | status | signature | what | repair / why not repaired |", "|---|---|---|---|---|"]
for f in sorted(kf, key=lambda f: (f["property"], f["status"], f["signature"])):
    out.append("| %s | %s | `%s` | %s | %s |" % (f["property"], f["status"], f["signature"], f["what"].replace("|", "\\|"),
               ("/repo commit " + f["commit"]) if f["status"] == "fixed" else f.get("why_not_fixed", "").replace("|", "\\|")))
ftable = "\n".join(out)
s = open(p).read()
b, e = "<!-- FINDINGS-TABLE-BEGIN -->", "<!-- FINDINGS-TABLE-END -->"
if b in s:
    s = s[:s.index(b) + len(b)] + "\n" + ftable + "\n" + s[s.index(e):]
    open(p, "w").write(s)
    print("findings table updated: %d rows" % len(kf))
