#!/usr/bin/env python3
"""Evaluate one seeded breakage against the machinery.

  tools/seedcheck.py <PROP> <name> <patch.diff> <demo-dir> [--checks C01,C02] [--tier quick] [--skip-tests] [--inplace]

Steps (all in a scratch worktree /tmp/ev-<name>, removed afterwards, unless
--inplace, which applies the patch to /repo itself and undoes it afterwards):
  1. demo on the unmodified tree must pass (exit 0)
  2. apply patch; `cargo build --workspace` must succeed; `cargo test --workspace`
     must give the same "test result" lines as the unmodified tree
  3. demo on the patched tree must fail (non-zero)
  4. run the registered quick (or given tier) commands of the given checks with
     VERIF_REPO pointing at the patched tree; record exit codes + VIOLATION lines
Writes /verif/seeded/<name>/{patch.diff, demo/, meta.json}.
"""
import argparse
import json
import os
import re
import shutil
import subprocess
import sys
import time

VERIF = os.path.dirname(os.path.dirname(os.path.abspath(__file__)))


def sh(cmd, cwd=None, env=None, timeout=7200):
    p = subprocess.run(cmd, cwd=cwd, env=env, shell=isinstance(cmd, str), stdout=subprocess.PIPE, stderr=subprocess.STDOUT, timeout=timeout)
    return p.returncode, p.stdout.decode("utf8", "replace")


def test_summary(root, target):
    env = dict(os.environ, CARGO_NET_OFFLINE="true", CARGO_TARGET_DIR=target)
    rc, out = sh(["cargo", "test", "--workspace", "--no-fail-fast", "--offline"], cwd=root, env=env)
    lines = [l.strip() for l in out.splitlines() if l.startswith("test result:")]
    lines = [re.sub(r"finished in [0-9.]+s", "", l) for l in lines]
    failed = [l for l in out.splitlines() if re.match(r"^test .* \.\.\. FAILED", l)]
    return rc, lines, failed, out


def main():
    ap = argparse.ArgumentParser()
    ap.add_argument("prop")
    ap.add_argument("name")
    ap.add_argument("patch")
    ap.add_argument("demo")
    ap.add_argument("--checks", default=None)
    ap.add_argument("--tier", default="quick")
    ap.add_argument("--skip-tests", action="store_true")
    ap.add_argument("--needs", default="")
    ap.add_argument("--keep", action="store_true")
    ap.add_argument("--wt", default="/tmp/ev-wt")
    a = ap.parse_args()
    checks = (a.checks or a.prop).split(",")
    # fixed paths so that sequential evaluations reuse build output
    wt = a.wt
    # one build dir per scratch worktree path: cargo must never see the same target dir
    # from two different checkouts (it would reuse the other checkout's binaries)
    tgt = "/var/tmp/ev-target" + ("" if wt == "/tmp/ev-wt" else "-" + os.path.basename(wt))
    meta = {"property": a.prop, "name": a.name, "needs_to_manifest": a.needs, "ran": [], "at": time.strftime("%Y-%m-%dT%H:%M:%SZ", time.gmtime())}
    prev_meta = os.path.join(VERIF, "seeded", a.name, "meta.json")
    if a.skip_tests and os.path.exists(prev_meta):
        try:
            pm = json.load(open(prev_meta))
            if "tests_same_as_baseline" in pm:
                meta["tests_same_as_baseline"] = pm["tests_same_as_baseline"]
                meta["ran"].append("cargo test --workspace comparison carried over from the first evaluation of this change (%s): same as baseline = %s" % (pm.get("at"), pm["tests_same_as_baseline"]))
        except Exception:
            pass
    rev = subprocess.run(["git", "-C", "/repo", "rev-parse", "--short", "HEAD"], stdout=subprocess.PIPE).stdout.decode().strip()
    meta["repo_head"] = rev
    sh(["git", "-C", "/repo", "worktree", "remove", "--force", wt])
    shutil.rmtree(wt, ignore_errors=True)
    rc, out = sh(["git", "-C", "/repo", "worktree", "add", "--detach", wt, "HEAD"])
    if rc != 0:
        sys.exit("worktree add failed: " + out)
    demo_run = os.path.join(os.path.abspath(a.demo), "run.sh")
    ok = True
    try:
        env = dict(os.environ, CARGO_NET_OFFLINE="true", CARGO_TARGET_DIR=tgt)
        # 1. demo on clean tree
        rc0, out0 = sh(["bash", demo_run, wt], env=env, cwd=os.path.dirname(demo_run))
        meta["demo_clean_rc"] = rc0
        meta["ran"].append("bash demo/run.sh <clean worktree> -> rc %d" % rc0)
        print("demo on clean tree: rc=%d" % rc0)
        if rc0 != 0:
            print(out0[-3000:])
            ok = False
        base = None
        if not a.skip_tests:
            _, base, bfailed, _ = test_summary(wt, tgt)
        # 2. apply
        rc, out = sh(["git", "-C", wt, "apply", os.path.abspath(a.patch)])
        if rc != 0:
            # /repo moved on since the patch was written (fix: commits): try a 3-way merge
            rc, out2 = sh(["git", "-C", wt, "apply", "--3way", os.path.abspath(a.patch)])
            if rc != 0:
                sys.exit("patch does not apply: " + out + out2)
            sh(["git", "-C", wt, "reset", "-q"])
            meta["ran"].append("patch applied with git apply --3way (repository HEAD moved since the patch was written)")
        rc, out = sh(["cargo", "build", "--workspace", "--offline"], cwd=wt, env=env)
        meta["build_rc"] = rc
        meta["ran"].append("cargo build --workspace --offline (patched) -> rc %d" % rc)
        print("patched build rc=%d" % rc)
        if rc != 0:
            print(out[-3000:])
            ok = False
        if not a.skip_tests:
            _, after, afailed, tout = test_summary(wt, tgt)
            same = base == after and not afailed
            meta["tests_same_as_baseline"] = same
            meta["ran"].append("cargo test --workspace --no-fail-fast --offline: clean vs patched summaries equal = %s (%d result lines)" % (same, len(after)))
            print("tests same as baseline: %s (%d result lines; failed: %s)" % (same, len(after), afailed))
            if not same:
                ok = False
        # 3. demo on patched tree
        rc1, out1 = sh(["bash", demo_run, wt], env=env, cwd=os.path.dirname(demo_run))
        meta["demo_patched_rc"] = rc1
        meta["ran"].append("bash demo/run.sh <patched worktree> -> rc %d" % rc1)
        print("demo on patched tree: rc=%d" % rc1)
        if rc1 == 0:
            ok = False
        meta["breakage_confirmed"] = ok
        # 4. checks
        results = {}
        for c in checks:
            cenv = dict(os.environ, VERIF_REPO=wt, VERIF_TARGET_DIR="/var/tmp/ev-vt" + ("" if wt == "/tmp/ev-wt" else "-" + os.path.basename(wt)))
            t0 = time.time()
            rc, out = sh(["./check", c, "--tier", a.tier], cwd=VERIF, env=cenv, timeout=4 * 3600)
            viol = [l for l in out.splitlines() if l.startswith("VIOLATION") or l.strip().startswith("signature:")]
            results[c] = {"rc": rc, "violation_lines": viol[:20], "wall_s": round(time.time() - t0, 1), "tail": out.splitlines()[-6:]}
            meta["ran"].append("VERIF_REPO=<patched worktree> ./check %s --tier %s -> rc %d" % (c, a.tier, rc))
            print("check %s (%s): rc=%d %s" % (c, a.tier, rc, "; ".join(viol[:6])))
            if rc not in (0, 1):
                print(out[-3000:])
        meta["checks"] = results
        meta["detected_by"] = [c for c, r in results.items() if r["rc"] == 1]
    finally:
        if not a.keep:
            sh(["git", "-C", "/repo", "worktree", "remove", "--force", wt])
            shutil.rmtree(wt, ignore_errors=True)
            # remove the mirror belonging to this worktree
            sys.path.insert(0, os.path.join(VERIF, "lib"))
            import hashlib
            mirror = os.path.join("/var/tmp", "verif-mirror-" + hashlib.sha256(wt.encode()).hexdigest()[:10])
            shutil.rmtree(mirror, ignore_errors=True)  # build output lives in /var/tmp/ev-vt and is kept for the next evaluation
    dst = os.path.join(VERIF, "seeded", a.name)
    shutil.rmtree(dst, ignore_errors=True)
    os.makedirs(dst)
    shutil.copy(a.patch, os.path.join(dst, "patch.diff"))
    shutil.copytree(a.demo, os.path.join(dst, "demo"), ignore=shutil.ignore_patterns("target", "*.o", "*.rlib", "*.rmeta"))
    with open(os.path.join(dst, "meta.json"), "w") as f:
        json.dump(meta, f, indent=1)
    print("recorded in %s: breakage_confirmed=%s detected_by=%s" % (dst, meta.get("breakage_confirmed"), meta.get("detected_by")))


if __name__ == "__main__":
    main()
