#!/usr/bin/env python3
"""Regenerate /verif/MANIFEST.json from the META dict of every lib/checks/C??.py."""
import importlib
import json
import os
import subprocess
import sys

HERE = os.path.dirname(os.path.dirname(os.path.abspath(__file__)))
sys.path.insert(0, os.path.join(HERE, "lib"))

props = [json.loads(l)["id"] for l in open(os.path.join(HERE, "properties.jsonl")) if l.strip()]
checks = []
na = []
NA_REASONS = {}
na_file = os.path.join(HERE, "lib", "not_applicable.json")
if os.path.exists(na_file):
    NA_REASONS = json.load(open(na_file))
for pid in props:
    path = os.path.join(HERE, "lib", "checks", pid + ".py")
    if not os.path.exists(path):
        na.append({"property_id": pid, "reason": NA_REASONS.get(pid, "no check built yet in this round (planned; see DESIGN.md section 3)")})
        continue
    mod = importlib.import_module("checks." + pid)
    m = mod.META
    c = {
        "property_id": pid,
        "quick_cmd": "./check %s --tier quick" % pid,
        "thorough_cmd": "./check %s --tier thorough" % pid,
        "evidence_file": "evidence/%s.json" % pid,
        "replay_cmd_template": "./check %s --replay {path}" % pid,
        "engine": m.get("engine", ""),
        "level_claimed": {"category": m.get("level", "exploration"), "text": m["text"], "design_ref": "DESIGN.md section 3, " + pid},
        "level_note": m["note"],
        "technique": m["technique"],
    }
    checks.append(c)

commits = subprocess.run(["git", "-C", "/repo", "log", "--format=%H %s"], stdout=subprocess.PIPE).stdout.decode().splitlines()
hook_commits = [l.split()[0] for l in commits if "verif hook" in l]

manifest = {
    "version": 1,
    "setup_cmd": "./setup.sh",
    "hooks": {
        "guard": "--cfg bytecodealliance_wit_bindgen_verif",
        "enable": "checks build /repo's crates as path dependencies of /verif/crates with RUSTFLAGS='--cfg bytecodealliance_wit_bindgen_verif' into /verif/target",
        "baseline_off_cmd": "cd /repo && cargo test --workspace --no-fail-fast --offline",
        "source_commits": hook_commits,
        "add_only": True,
    },
    "engines": json.load(open(os.path.join(HERE, "lib", "engines.json"))),
    "checks": checks,
    "notes": "Technique family: runtime monitoring and sanitizers. Every check runs the real code of /repo under generated workloads with an oracle watching; verdicts are three-valued (see DESIGN.md section 0). Known findings: known_findings.json.",
    "not_applicable": na,
}
with open(os.path.join(HERE, "MANIFEST.json"), "w") as f:
    json.dump(manifest, f, indent=1)
    f.write("\n")
try:
    import jsonschema
    jsonschema.validate(manifest, json.load(open("/root/.vp/MANIFEST.schema.json")))
    print("MANIFEST.json valid: %d checks, %d not_applicable" % (len(checks), len(na)))
except ImportError:
    print("MANIFEST.json written (jsonschema not importable here): %d checks" % len(checks))
