/* empty: lets `g++ -m32 -fsyntax-only` use the x86_64 multiarch glibc headers
   (no 32-bit libc development files are installed; nothing is linked) */
