#ifndef VERIF_ASSERT_H
#define VERIF_ASSERT_H
#include <stdlib.h>
#define assert(x) ((x) ? (void)0 : abort())
#endif
