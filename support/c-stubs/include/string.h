#ifndef VERIF_STRING_H
#define VERIF_STRING_H
#include <stddef.h>
#ifdef __cplusplus
extern "C" {
#endif
void *memcpy(void *dst, const void *src, size_t n);
void *memmove(void *dst, const void *src, size_t n);
void *memset(void *dst, int c, size_t n);
int memcmp(const void *a, const void *b, size_t n);
size_t strlen(const char *s);
int strcmp(const char *a, const char *b);
int strncmp(const char *a, const char *b, size_t n);
#ifdef __cplusplus
}
#endif
#endif
