/* minimal freestanding <stdlib.h> for compiling wit-bindgen generated C to
   wasm32-unknown-unknown without a libc (verification harness only) */
#ifndef VERIF_STDLIB_H
#define VERIF_STDLIB_H
#include <stddef.h>
#ifdef __cplusplus
extern "C" {
#endif
void *malloc(size_t size);
void *calloc(size_t n, size_t size);
void *realloc(void *ptr, size_t size);
void free(void *ptr);
void *aligned_alloc(size_t align, size_t size);
_Noreturn void abort(void);
_Noreturn void exit(int code);
#ifdef __cplusplus
}
#endif
#endif
