/* trivial libc for the wasm32 link of generated C (never executed) */
#include <stdlib.h>
#include <string.h>
static unsigned char heap[1 << 16];
static size_t heap_top;
void *malloc(size_t size) {
  size_t p = (heap_top + 15u) & ~(size_t)15u;
  if (p + size > sizeof heap) abort();
  heap_top = p + size;
  return heap + p;
}
void *calloc(size_t n, size_t size) { void *p = malloc(n * size); memset(p, 0, n * size); return p; }
void *realloc(void *ptr, size_t size) { void *p = malloc(size); if (ptr) memcpy(p, ptr, size); return p; }
void free(void *ptr) { (void)ptr; }
void *aligned_alloc(size_t align, size_t size) { (void)align; return malloc(size); }
_Noreturn void abort(void) { __builtin_trap(); }
_Noreturn void exit(int code) { (void)code; __builtin_trap(); }
void *memcpy(void *dst, const void *src, size_t n) { unsigned char *d = dst; const unsigned char *s = src; while (n--) *d++ = *s++; return dst; }
void *memmove(void *dst, const void *src, size_t n) {
  unsigned char *d = dst; const unsigned char *s = src;
  if (d < s) { while (n--) *d++ = *s++; } else { while (n--) d[n] = s[n]; }
  return dst;
}
void *memset(void *dst, int c, size_t n) { unsigned char *d = dst; while (n--) *d++ = (unsigned char)c; return dst; }
int memcmp(const void *a, const void *b, size_t n) { const unsigned char *x = a, *y = b; for (; n--; x++, y++) if (*x != *y) return *x - *y; return 0; }
size_t strlen(const char *s) { size_t n = 0; while (s[n]) n++; return n; }
int strcmp(const char *a, const char *b) { while (*a && *a == *b) { a++; b++; } return (unsigned char)*a - (unsigned char)*b; }
int strncmp(const char *a, const char *b, size_t n) { while (n && *a && *a == *b) { a++; b++; n--; } return n ? (unsigned char)*a - (unsigned char)*b : 0; }
