/* Interface between the generated echo machine (C) and the cguest host (Rust). */
#ifndef CG_RT_H
#define CG_RT_H
#include <stdint.h>
#include <stddef.h>
#include <stdbool.h>
#include <string.h>
#include <stdlib.h>
#define CG_UNUSED __attribute__((unused))

void cg_put_u64(uint64_t v);
void cg_put_bytes(const void *p, size_t n);
/* 1 if [p, p + count*size) lies inside a live guest allocation (or count == 0); otherwise records
   an "invalid pointer" observation in place of the value and returns 0 */
int cg_check_range(const void *p, size_t count, size_t size);
/* read a bool's representation without a bool-typed load */
#define CG_BOOL(x) (*(const uint8_t *)&(x))
uint64_t cg_get_u64(void);
void cg_get_bytes(void *dst, size_t n);
int cg_event(uint32_t kind, uint32_t idx);
void cg_host_import(uint32_t idx, const uint64_t *args, uint32_t nargs, uint64_t *ret);
int32_t cg_host_resource_new(uint32_t res, int32_t rep);
int32_t cg_host_resource_rep(uint32_t res, int32_t handle);
void cg_host_resource_drop(uint32_t res, int32_t handle);
void cg_host_unexpected(uint32_t what, uint32_t idx);
void *cg_rep_alloc(uint32_t res);
void cg_rep_seen(uint32_t res, const void *rep, uint32_t id);
void cg_rep_destroyed(uint32_t res, const void *rep, uint32_t id);

static inline uint64_t cg_f32_bits(float f) { uint32_t b; memcpy(&b, &f, 4); return (uint64_t)b; }
static inline uint64_t cg_f64_bits(double f) { uint64_t b; memcpy(&b, &f, 8); return b; }
static inline float cg_f32_from(uint64_t x) { uint32_t b = (uint32_t)x; float f; memcpy(&f, &b, 4); return f; }
static inline double cg_f64_from(uint64_t x) { double f; memcpy(&f, &x, 8); return f; }
#endif
