/* Entry point: everything happens in the Rust host. */
int cg_main(int argc, const char *const *argv);
int main(int argc, char **argv) { return cg_main(argc, (const char *const *)argv); }
/* keep ASan/UBSan defaults stable regardless of the environment */
const char *__asan_default_options(void) { return "detect_leaks=1:halt_on_error=1:abort_on_error=0:exitcode=87:detect_stack_use_after_return=0"; }
const char *__ubsan_default_options(void) { return "halt_on_error=1:print_stacktrace=1"; }
