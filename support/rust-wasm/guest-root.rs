// crate root of the per-world wasm32 cdylib built by C09 (no std on the custom
// target).  Only `::core::` absolute paths are used so that generated items
// called `core`/`alloc` cannot clash with this file.
#![no_std]
#![allow(warnings)]
struct VerifAllocXq;
unsafe impl ::core::alloc::GlobalAlloc for VerifAllocXq {
    unsafe fn alloc(&self, _l: ::core::alloc::Layout) -> *mut u8 {
        ::core::ptr::null_mut()
    }
    unsafe fn dealloc(&self, _p: *mut u8, _l: ::core::alloc::Layout) {}
}
#[global_allocator]
static VERIF_ALLOC_XQ: VerifAllocXq = VerifAllocXq;
#[panic_handler]
fn verif_panic_xq(_: &::core::panic::PanicInfo) -> ! {
    loop {}
}
include!(env!("BINDINGS"));
