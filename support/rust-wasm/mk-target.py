#!/usr/bin/env python3
"""Write the custom wasm32 target spec used for C09: rustc's own
wasm32-unknown-unknown spec with "os": "wasi" (keeps target_family="wasm",
target_env="", and avoids std's dlmalloc dependency, which is unavailable
offline).  usage: mk-target.py OUT.json"""
import json, subprocess, sys
out = sys.argv[1]
spec = subprocess.run(["rustc", "+nightly", "-Zunstable-options", "--print", "target-spec-json", "--target", "wasm32-unknown-unknown"],
                      check=True, stdout=subprocess.PIPE).stdout
spec = json.loads(spec)
spec["os"] = "wasi"
spec.pop("is-builtin", None)
with open(out, "w") as f:
    json.dump(spec, f, indent=1)
