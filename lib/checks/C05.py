"""C05 — Rust guest bindings carry every value across the boundary unchanged."""
import rsguest

META = {
    "engine": "rsguest",
    "level": "exploration",
    "technique": "end-to-end differential execution: generated Rust bindings run natively (x86_64 debug+release) and under Miri (32-bit ARM) "
                 "against an in-process reference canonical-ABI host (cabi-ref over live memory); positional observation channel derived "
                 "from the syntax of the generated code",
    "text": "Random valid worlds (all value type constructors, handle-free) x generator configurations x random/boundary values: the four "
            "equalities host-sent = guest-observed and guest-scripted = host-lifted, for exports and imports, in canonical value text. "
            "Held on the executions observed; nothing is proved.",
    "note": "Trusted: cabi-ref (written from the spec, self-checked), the Obs channel (no bindgen-emitted lifting/lowering), hook H1 (imports "
            "are C symbols). No wasm engine: the guest is native/Miri code, pointer widths 64 and 32. Worlds whose generated code does not "
            "compile are leads for C09, not verdicts. Async functions, resources, futures/streams are C07/C08.",
}
FLOORS = {"quick": (800, 40), "thorough": (20000, 400)}
PREFIXES = ("rust-e2e:",)


def run(tier, seed, replay):
    rp = replay.get("replay") if replay else None
    rep = rsguest.run_pipeline("C05", "values", tier, seed, replay=rp)
    rep.rule = ("one evaluation = one call through the generated bindings (export: lower, call, observe, lift, post-return; import: driver, "
                "stub); distinct = (direction, canonical shape key of parameter and result types, generator options)")
    if rp:
        global FLOORS
        FLOORS = {"quick": (1, 1), "thorough": (1, 1)}
    return rsguest.filter_for(rep, PREFIXES)
