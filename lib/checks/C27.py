"""C27 - distinct packages get distinct module names (injectivity monitor + Rust generator module tree)."""
import os
import vcommon

META = {
    "engine": "corelib-mon",
    "level": "exploration",
    "technique": "injectivity monitor over seeded random package sets built into real wit_parser::Resolve values and passed to the real name_package_module, plus a syn-parsed scan of the module tree emitted by the real Rust generator",
    "text": "For random sets of packages of one namespace (case/digit twin names; versions with pre-release and build metadata, near twins of each other; at most one unversioned per name) every pair of distinct packages must get different module names, and Rust bindings for a world importing an interface of each must not define two sibling modules of one name. Holds on the K sets observed; collisions are labelled by the input difference (separator kind, case, word splitting, name case, name/version digit boundary).",
    "note": "Package sets rejected by wit-parser (invalid semver after an edit) are discarded. e2e judges only duplicate sibling mod items; generator errors are inconclusive.",
}
FLOORS = {"quick": (5000, 2000), "thorough": (200000, 50000)}
BIN = "c27"
FEATURES = ["e2e"]
RULE = "case = one set of 2..5 packages of one namespace in one Resolve, all pairs compared; distinct = package sets (exact ids) with at least one same-name pair; the first sets and all directed sets also go through the Rust generator"


def run(tier, seed, replay):
    rep = vcommon.Report("C27", level=META["level"], rule=RULE)
    bindir = vcommon.cargo_build("corelib-mon", bins=[BIN], features=FEATURES)
    d = vcommon.scratch_dir(BIN)
    out = os.path.join(d, "r.json")
    cmd = [os.path.join(bindir, BIN), "--seed", str(seed), "--tier", tier, "--out", out]
    if replay:
        # a replay file names the generator seed, the case stream and the case index; the
        # harness regenerates exactly that case (case RNGs depend on (seed, stream, index) only)
        r = replay.get("replay", {})
        cmd = [os.path.join(bindir, BIN), "--seed", str(r.get("seed", replay.get("seed", seed))),
               "--tier", replay.get("tier", tier), "--out", out,
               "--stream", str(r.get("stream", "")), "--case", str(r.get("case", 0))]
    try:
        vcommon.run_harness(rep, cmd, timeout=600 if tier == "quick" else 5400, out_json=out,
                            env=vcommon.base_env(), what="c25 harness")
    finally:
        vcommon.rm_scratch(d)
    return rep
