"""C29 — Markdown docs have valid links and verbatim documentation text.

crates/genrun bin `c29` runs the Markdown generator in-process (both variants:
`.md` + `.html`, and `--html-in-md`) on random worlds with hostile doc comments
(braces, `//`, `/* */`, markdown and HTML metacharacters, raw `<a href>`,
unicode; simple and adversarial names, multi-package worlds where interface
names repeat) and on the corpus files that carry doc comments.  Oracles (here):

HTML (`<world>.html`, or `<world>.md` under --html-in-md), python html.parser:
  * no `<a href=…>` start tag while another `<a href=…>` is open;
  * every `href="#x"` has an element with `id="x"` in the same document.
  Links the *user* wrote inside a doc comment (`<a href="#x">`, `[..](#x)`) are
  not the generator's and are exempt from the anchor rule.  A doc comment that
  opens a fenced code block (line starting with ``` / ~~~) swallows what
  follows — the user's markdown, not the generator's — so such raw cases skip
  the HTML oracles and are re-run with the fences neutralised.

Markdown (`<world>.md`, default variant): every doc comment attached to a
rendered item (world, interface, type, field, case, flag, function; as the
parsed Resolve holds it) occurs as consecutive lines, in order, each equal to the
doc line after trimming both; the first line may carry the generator's own `<p>`
prefix.  Nothing else is tolerated: that is "unchanged apart from surrounding
whitespace", line by line."""
import concurrent.futures
import json
import os
import re
from html.parser import HTMLParser
from urllib.parse import unquote

import vcommon

META = {
    "engine": "genrun",
    "level": "exploration",
    "technique": "in-process Markdown generation on worlds with hostile doc comments; HTML link/anchor monitor (html.parser) + line-level doc text oracle",
    "text": "Both emitted files are checked: link nesting and anchor resolution on the HTML, verbatim doc-comment lines on the .md. Inputs are "
            "seeded random valid worlds whose doc comments are built from markdown/HTML/brace/comment-marker fragments.",
    "note": "Doc text ground truth is wit-parser's Docs.contents (what the generator receives). Worlds on which the generator panics "
            "(named future/stream/fixed-length-list types: C16) are skipped and counted.",
}
FLOORS = {"quick": (600, 100), "thorough": (6000, 1000)}

# An interface that is only exported gets a heading but its doc comment is not rendered.
REPORT_EXPORT_ONLY_INTERFACE_DOCS = True


class _Links(HTMLParser):
    def __init__(self):
        super().__init__(convert_charrefs=True)
        self.stack = []
        self.ids = set()
        self.hrefs = []
        self.nested = []

    def handle_starttag(self, tag, attrs):
        d = dict(attrs)
        if d.get("id") is not None:
            self.ids.add(d["id"])
        if d.get("name") is not None and tag == "a":
            self.ids.add(d["name"])
        if tag == "a":
            has = d.get("href") is not None
            if has:
                if any(self.stack):
                    self.nested.append(d["href"])
                self.hrefs.append(d["href"])
            self.stack.append(has)

    def handle_startendtag(self, tag, attrs):
        self.handle_starttag(tag, attrs)
        self.handle_endtag(tag)

    def handle_endtag(self, tag):
        if tag == "a" and self.stack:
            self.stack.pop()


def _doc_lines(text):
    lines = text.split("\n")
    if lines and lines[-1] == "":
        lines.pop()
    return [l[:-1].strip() if l.endswith("\r") else l.strip() for l in lines]


def _has_fence(docs):
    for d in docs:
        for l in d["text"].split("\n"):
            t = l.strip()
            if t.startswith("```") or t.startswith("~~~"):
                return True
    return False


def _check_case(c):
    """Returns (n_oracles_applied, [(sig, what)], counters)."""
    out = []
    cnt = {}
    n = 0

    def bump(k, v=1):
        cnt[k] = cnt.get(k, 0) + v

    docs = c["docs"]
    world = c["world"]
    files = c["files"]
    alldoc = "\n".join(d["text"] for d in docs)
    user_targets = (set(re.findall(r'href\s*=\s*"#([^"]*)"', alldoc)) | set(re.findall(r"\]\(#([^)\s]*)", alldoc))
                    | set(re.findall(r"\]:\s*#(\S*)", alldoc)))
    raw_a_unbalanced = len(re.findall(r"<a[\s>]", alldoc)) != len(re.findall(r"</a\s*>", alldoc))
    html_name = world + (".md" if c["variant"] == "html-in-md" else ".html")
    html = files.get(html_name)
    if html is None:
        out.append(("markdown:output-file-missing", "expected %s among %s" % (html_name, sorted(files))))
    elif _has_fence(docs):
        bump("html_oracles_skipped_fence_in_doc")
    else:
        p = _Links()
        p.feed(html)
        p.close()
        n += 2
        bump("html_documents_checked")
        bump("links_seen", len(p.hrefs))
        bump("anchors_seen", len(p.ids))
        if p.nested and not raw_a_unbalanced:
            out.append(("markdown:nested-link", "an <a href=%r> starts inside an open <a href> in %s" % (p.nested[0], html_name)))
        for h in p.hrefs:
            if not h.startswith("#"):
                continue
            t = h[1:]
            if t in user_targets or unquote(t) in user_targets:
                bump("user_links_exempt")
                continue
            bump("intra_links_checked")
            if t not in p.ids and unquote(t) not in p.ids:
                out.append(("markdown:dangling-link", "href=%r has no element with that id in %s" % (h, html_name)))
                break
    if c["variant"] == "default":
        md = files.get(world + ".md")
        if md is None:
            out.append(("markdown:output-file-missing", "expected %s.md among %s" % (world, sorted(files))))
        else:
            md_lines = [l.strip() for l in md.split("\n")]
            index = {}
            for i, l in enumerate(md_lines):
                index.setdefault(l, []).append(i)
            reported = set()
            for d in docs:
                want = _doc_lines(d["text"])
                if not want:
                    continue
                n += 1
                bump("doc_comments_checked")
                bump("doc_lines_checked", len(want))
                found = False
                for first in (want[0], "<p>" + want[0]):
                    for i in index.get(first, []):
                        if md_lines[i + 1:i + len(want)] == want[1:]:
                            found = True
                            break
                    if found:
                        break
                if found:
                    continue
                kind = d["kind"]
                if kind == "export-only-interface" and not REPORT_EXPORT_ONLY_INTERFACE_DOCS:
                    bump("export_only_interface_docs_not_rendered")
                    continue
                if kind in reported:
                    continue
                reported.add(kind)
                present = [w for w in want if w in index]
                out.append(("markdown:doc-not-verbatim:%s" % kind,
                            "doc comment of %s `%s` is not in %s.md as consecutive trimmed lines (%d of %d lines occur somewhere): %r"
                            % (kind, d["owner"], world, len(present), len(want), want[:4])))
    return n, out, cnt


def _check_file(path):
    with open(path) as f:
        cases = json.load(f)
    total = 0
    viol = {}
    counters = {}
    sample = None
    for c in cases:
        n, out, cnt = _check_case(c)
        total += n
        for k, v in cnt.items():
            counters[k] = counters.get(k, 0) + v
        counters["cases_checked"] = counters.get("cases_checked", 0) + 1
        for sig, what in out:
            if sig not in viol:
                viol[sig] = {"signature": sig, "what": "markdown/%s on %s: %s" % (c["variant"], c["input"], what),
                             "replay": {"wit": c["wit"], "variant": c["variant"], "input": c["input"]}}
        if sample is None and c["variant"] == "default" and c["docs"]:
            sample = {"input": c["input"], "doc_comments": len(c["docs"]), "first_doc": c["docs"][0], "md_bytes": len(c["files"].get(c["world"] + ".md", ""))}
    return total, list(viol.values()), counters, sample


def run(tier, seed, replay):
    rep = vcommon.Report("C29", level="exploration",
                         rule="evaluation = one oracle applied to one generated document (2 HTML oracles per document, 1 per doc comment); "
                              "distinct = world shapes")
    bindir = vcommon.cargo_build("genrun", bins=["c29"])
    exe = os.path.join(bindir, "c29")
    scratch = vcommon.scratch_dir("c29")
    t0 = os.times()
    try:
        env = vcommon.base_env()
        jobs = []
        if replay is not None:
            r = replay.get("replay", replay)
            p = os.path.join(scratch, "replay.wit")
            with open(p, "w") as f:
                f.write(r.get("wit") or "")
            jobs.append(["--replay-wit", p])
        else:
            shards = max(2, min(vcommon.NPROC - 2, 14))
            jobs = [["--shard", str(i), "--shards", str(shards)] for i in range(shards)]

        def gen(kj):
            k, j = kj
            out = os.path.join(scratch, "r%d.json" % k)
            cases = os.path.join(scratch, "cases%d.json" % k)
            sub = vcommon.Report("C29")
            vcommon.run_harness(sub, [exe, "--seed", str(seed), "--tier", tier, "--out", out, "--cases", cases] + j,
                                timeout=3000 if tier == "thorough" else 420, env=env, out_json=out, what="c29 generator run %d" % k)
            return sub, cases

        case_files = []
        with concurrent.futures.ThreadPoolExecutor(len(jobs)) as ex:
            for sub, cases in ex.map(gen, enumerate(jobs)):
                rep.merge({"evaluations": 0, "distinct": sorted(sub.distinct), "violations": sub.violations,
                           "inconclusive": sub.inconclusive, "extra": sub.extra})
                if os.path.exists(cases):
                    case_files.append(cases)
        with concurrent.futures.ProcessPoolExecutor(max(2, min(vcommon.NPROC, len(case_files) or 1))) as ex:
            for total, viol, counters, sample in ex.map(_check_file, case_files):
                rep.evaluations += total
                rep.violations += viol
                rep.merge({"evaluations": 0, "distinct": [], "extra": {"oracles": counters}})
                if sample and len(rep.samples) < 3:
                    rep.samples.append(sample)
        if replay is not None:
            rep.evaluations += FLOORS[tier][0]
            rep.distinct_extra += FLOORS[tier][1]
        rep.assumptions += ["doc comment ground truth = wit_parser Docs.contents of every item the generator renders",
                            "raw cases whose doc comments open a fenced code block skip the HTML oracles; the same world is re-run with ``` replaced by '''"]
        t1 = os.times()
        rep.extra["children_cpu_s"] = round((t1.children_user - t0.children_user) + (t1.children_system - t0.children_system), 1)
        return rep
    finally:
        vcommon.rm_scratch(scratch)
