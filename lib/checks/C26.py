"""C26 - fresh temporaries never collide (shadow-model monitor over random Ns histories)."""
import os
import vcommon

META = {
    "engine": "corelib-mon",
    "level": "exploration",
    "technique": "shadow-model monitor over seeded random insert/tmp histories against the real wit_bindgen_core::Ns",
    "text": "Each history of Ns::insert / Ns::tmp calls over alphabets with base+digits twins is shadowed by the set of all names defined or handed out; tmp must return a name outside the set, insert must fail iff the name is in it. Holds on the K histories observed.",
    "note": "Ns is only driven through insert and tmp starting from Ns::default().",
}
FLOORS = {"quick": (50000, 10000), "thorough": (2000000, 100000)}
BIN = "c26"
FEATURES = None
RULE = "case = one history of 1..24 calls; distinct = histories (exact op sequence) in which tmp was asked for a taken base (counter path ran)"


def run(tier, seed, replay):
    rep = vcommon.Report("C26", level=META["level"], rule=RULE)
    bindir = vcommon.cargo_build("corelib-mon", bins=[BIN], features=FEATURES)
    d = vcommon.scratch_dir(BIN)
    out = os.path.join(d, "r.json")
    cmd = [os.path.join(bindir, BIN), "--seed", str(seed), "--tier", tier, "--out", out]
    if replay:
        # a replay file names the generator seed, the case stream and the case index; the
        # harness regenerates exactly that case (case RNGs depend on (seed, stream, index) only)
        r = replay.get("replay", {})
        cmd = [os.path.join(bindir, BIN), "--seed", str(r.get("seed", replay.get("seed", seed))),
               "--tier", replay.get("tier", tier), "--out", out,
               "--stream", str(r.get("stream", "")), "--case", str(r.get("case", 0))]
    try:
        vcommon.run_harness(rep, cmd, timeout=600 if tier == "quick" else 5400, out_json=out,
                            env=vcommon.base_env(), what="c26 harness")
    finally:
        vcommon.rm_scratch(d)
    return rep
