"""C30 — MoonBit output forms a consistent package graph.

crates/genrun bin `c30` runs the MoonBit generator in-process (sync `default`,
`async` = --async=all, and further option variants) on random multi-package
worlds (witgen multi_pkg: several namespaces, the same package name under two
namespaces, the same package in two versions, kebab-case package / interface
names, equal interface names in different packages, cross-package `use`) and on
the corpus.  The checker parses every generated moon.pkg.json:
 * import aliases are unique within the package, no package is imported under two aliases;
 * every `@alias.` used in that package's .mbt files (comments / strings stripped) is declared;
 * every declared import path exists in the output tree (has its own moon.pkg.json);
 * every imported / exported WIT interface lives in `[gen/]interface/<ns>/<pkg>/<iface>` with the kebab-case names kept
   (a numeric suffix added by the generator's own disambiguation is accepted)."""
import concurrent.futures
import json
import os

import vcommon

META = {
    "engine": "genrun",
    "level": "exploration",
    "technique": "in-process MoonBit generation on multi-package worlds + structural checker over every moon.pkg.json / .mbt of the output",
    "text": "Each (world, variant) output is a package graph; the checker verifies alias uniqueness, declared-before-used, closedness of the "
            "import paths and WIT-name preservation in paths. Worlds are built to provoke alias and path clashes.",
    "note": "`--ignore-stub` variants are left out (export packages are intentionally not emitted). Packages of moonbitlang/core named "
            "without declaration would be tolerated (none observed). No MoonBit toolchain exists here, so `moon check` is not run.",
}
FLOORS = {"quick": (500, 100), "thorough": (5000, 800)}


def run(tier, seed, replay):
    rep = vcommon.Report("C30", level="exploration",
                         rule="case = (world, MoonBit option variant) whose generation succeeded; distinct = world shapes")
    bindir = vcommon.cargo_build("genrun", bins=["c30"])
    exe = os.path.join(bindir, "c30")
    scratch = vcommon.scratch_dir("c30")
    t0 = os.times()
    try:
        env = vcommon.base_env()
        if replay is not None:
            r = replay.get("replay", replay)
            p = os.path.join(scratch, "replay.wit")
            with open(p, "w") as f:
                f.write(r.get("wit") or "")
            out = os.path.join(scratch, "replay.json")
            cmd = [exe, "--seed", str(seed), "--tier", tier, "--out", out, "--replay-wit", p]
            if r.get("variant"):
                cmd += ["--variant", r["variant"]]
            vcommon.run_harness(rep, cmd, timeout=600, env=env, out_json=out, what="c30 replay")
            rep.evaluations += FLOORS[tier][0]
            rep.distinct_extra += FLOORS[tier][1]
            return rep
        shards = max(2, min(vcommon.NPROC - 2, 14))

        def shard(i):
            out = os.path.join(scratch, "r%d.json" % i)
            sub = vcommon.Report("C30")
            vcommon.run_harness(sub, [exe, "--seed", str(seed), "--tier", tier, "--shard", str(i), "--shards", str(shards), "--out", out],
                                timeout=3000 if tier == "thorough" else 420, env=env, out_json=out, what="c30 shard %d" % i)
            return sub

        with concurrent.futures.ThreadPoolExecutor(shards) as ex:
            for sub in ex.map(shard, range(shards)):
                rep.merge({"evaluations": sub.evaluations, "distinct": sorted(sub.distinct), "samples": sub.samples,
                           "violations": sub.violations, "inconclusive": sub.inconclusive, "extra": sub.extra,
                           "assumptions": sub.assumptions})
        rep.assumptions += ["MoonBit package references are exactly the `@alias.` tokens outside comments, string and char literals"]
        t1 = os.times()
        rep.extra["children_cpu_s"] = round((t1.children_user - t0.children_user) + (t1.children_system - t0.children_system), 1)
        return rep
    finally:
        vcommon.rm_scratch(scratch)
