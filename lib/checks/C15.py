"""C15 — binding generation is deterministic.

The real CLI (built from the working tree) is run in N separate processes per
(world, backend, option variant): every process has fresh RandomState seeds and
ASLR, a different environment size and a different cwd depth.  Oracle: identical
file-name sets, byte-identical contents; then `--check` against the first output
exits 0.  Worlds are LARGE (many interfaces / packages / types: hash-map order
only shows with more than a handful of entries) plus multi-interface corpus
inputs (multiversion, issue569, ...) plus eight DIRECTED worlds
(genrun::hash_order_worlds) that each stress one generator collection with more
than 8 entries (borrows of imported resources in one export, structurally equal
named types in 12 interfaces, many resources/methods, many future/stream payload
types, many world-level items, many `use`d types, many packages/versions, many
interfaces); the directed worlds run at every seed for every backend with the
default and every option variant crates/test uses."""
import concurrent.futures
import hashlib
import json
import os
import re
import shutil

import cli
import vcommon

META = {
    "engine": "genrun",
    "level": "exploration",
    "technique": "differential execution of the CLI across independent processes (fresh hash seeds, ASLR, env size, cwd depth) + --check replay",
    "text": "For large random valid worlds and multi-interface corpus inputs, every backend (default + seed-chosen option variants) is run in "
            "3 (quick) / 6 (thorough) separate CLI processes; outputs must be byte-identical and `--check` against the first must exit 0. "
            "A hash-order dependence shows as a differing file; the evidence lists processes, files and bytes compared.",
    "note": "Cases whose first generation fails (Err/panic, C16's business) are skipped and counted. All runs of a case write to the same "
            "--out-dir path so a generator embedding that path would not be flagged. C++ user-class files: the check directory is given the "
            "`<file>.template` copies the backend writes when the file already exists (design of that backend, not a determinism issue).",
}
FLOORS = {"quick": (150, 40), "thorough": (1500, 300)}


def _snapshot(root):
    snap = {}
    for dp, dn, fn in os.walk(root):
        for f in fn:
            p = os.path.join(dp, f)
            with open(p, "rb") as fh:
                snap[os.path.relpath(p, root)] = fh.read()
    return snap


def _kind(name):
    """File kind for signatures: world-specific names reduced to the extension, fixed names kept, and the structural
    directory (`gen/`, `interface/`, `world/`) kept so that e.g. MoonBit's top-level gen/ffi.mbt (export glue) and the
    per-interface ffi.mbt (builtins) are different findings."""
    parts = name.replace("\\", "/").split("/")
    base = parts[-1]
    ext = os.path.splitext(base)[1] or base
    k = base if base in ("moon.pkg.json", "moon.mod.json", "wit.h", "go.mod", "ffi.mbt", "top.mbt", "README.md") else ext
    if ".wit.Imports." in base or ".wit.imports." in base:
        k = "imports" + ext      # C# per-interface files
    elif ".wit.Exports." in base or ".wit.exports." in base:
        k = "exports" + ext
    for seg in parts[:-1]:
        if seg in ("interface", "world"):
            return seg + "/" + k
    if len(parts) == 2 and parts[0] in ("gen",):
        return parts[0] + "/" + k
    return k


def _first_diff(a, b):
    la, lb = a.split(b"\n"), b.split(b"\n")
    for i, (x, y) in enumerate(zip(la, lb)):
        if x != y:
            return "line %d: %r  vs  %r" % (i + 1, x[:160], y[:160])
    return "length %d vs %d" % (len(a), len(b))


def _run_case(case, work, nproc_runs):
    """Returns dict(stats..., violation=(sig, what) | None, skipped=reason | None)."""
    res = {"processes": 0, "files": 0, "bytes": 0, "violations": [], "skipped": None, "check_rc": None}
    os.makedirs(work)
    out = os.path.join(work, "out")
    args = [case["backend"], case["src"], "--out-dir", out] + (["--world", "%" + case["world"]] if case.get("world") else []) + case["flags"]
    first = None
    for r in range(nproc_runs):
        cwd = os.path.join(work, "cwd%d" % r, *["d%d" % j for j in range(r * 3)])
        os.makedirs(cwd, exist_ok=True)
        env_extra = {"VERIF_PAD_%d" % j: "p" * (997 * (j + 1)) for j in range(r * 5)}
        env_extra["VERIF_PAD"] = "x" * (1 + r * 7919)
        env_extra["RUST_BACKTRACE"] = "0"
        rc, so, se = cli.run_cli(args, cwd=cwd, env_extra=env_extra, timeout=300)
        res["processes"] += 1
        if rc is None:
            res["skipped"] = "timeout"
            return res
        if rc != 0:
            if r == 0:
                res["skipped"] = "generation failed rc=%s" % rc
                return res
            res["violations"].append(("%s:nondeterministic:exit-status" % case["backend"],
                                      "run 0 succeeded but run %d of the same command exited %s: %s" % (r, rc, se[-300:])))
            return res
        snap = _snapshot(out)
        shutil.move(out, os.path.join(work, "run%d" % r))
        if first is None:
            first = snap
            if not snap:
                res["skipped"] = "no files generated"
                return res
            continue
        res["files"] += len(snap)
        res["bytes"] += sum(len(v) for v in snap.values())
        if set(snap) != set(first):
            diff = sorted(set(snap) ^ set(first))
            res["violations"].append(("%s:nondeterministic:file-set" % case["backend"],
                                      "file names differ between process 0 and process %d: %s" % (r, diff[:6])))
            continue
        for name in sorted(snap):
            if snap[name] != first[name]:
                res["violations"].append(("%s:nondeterministic:%s" % (case["backend"], _kind(name)),
                                          "%s differs between process 0 and process %d (%s)" % (name, r, _first_diff(first[name], snap[name]))))
                break
    # --check against the first output
    shutil.move(os.path.join(work, "run0"), out)
    before = _snapshot(out)
    cwd = os.path.join(work, "cwdc", "a", "b")
    os.makedirs(cwd, exist_ok=True)
    rc, so, se = cli.run_cli(args + ["--check"], cwd=cwd, env_extra={"VERIF_PAD": "y" * 3001, "RUST_BACKTRACE": "0"}, timeout=300)
    res["processes"] += 1
    # The C++ backend deliberately emits `<file>.template` instead of `<file>` when a user-editable file already exists
    # in the output directory, so a check against a populated directory looks for a different file set.  Reproduce
    # that state: the template the generator would write next to an existing user file has the file's own bytes.
    retries = 0
    while rc not in (0, None) and retries < 64:
        m = re.search(r'failed to read "([^"]*)\.template"', se)
        if not m or not os.path.isfile(m.group(1)) or os.path.exists(m.group(1) + ".template"):
            break
        shutil.copyfile(m.group(1), m.group(1) + ".template")
        retries += 1
        res["template_files_provided"] = res.get("template_files_provided", 0) + 1
        rc, so, se = cli.run_cli(args + ["--check"], cwd=cwd, env_extra={"VERIF_PAD": "y" * 3001, "RUST_BACKTRACE": "0"}, timeout=300)
        res["processes"] += 1
    if retries:
        before = _snapshot(out)
    res["check_rc"] = rc
    res["files"] += len(before)
    res["bytes"] += sum(len(v) for v in before.values())
    if rc is None:
        res["skipped"] = "timeout in --check"
    elif rc != 0 and res["violations"]:
        pass  # consequence of the nondeterminism already reported for this case
    elif rc != 0:
        m = re.search(r"not up to date: (.*)", se)
        m2 = re.search(r'failed to read "([^"]*)"', se)
        if m:
            # the checking process is one more generation whose bytes differ from the first one's
            res["violations"].append(("%s:nondeterministic:%s" % (case["backend"], _kind(os.path.relpath(m.group(1).strip(), out))),
                                      "`--check` right after generating into the same directory reports %s" % m.group(0)[:300]))
            shutil.rmtree(work, ignore_errors=True)
            return res
        elif m2:
            k = "missing:" + _kind(m2.group(1))
        elif "differs only in line endings" in se:
            k = "line-endings"
        else:
            k = "rc%s" % rc
        res["violations"].append(("%s:check-after-generate:%s" % (case["backend"], k),
                                  "`--check` right after generating into the same directory exited %s: %s" % (rc, se[-300:])))
    shutil.rmtree(work, ignore_errors=True)
    return res


def _tool(bindir, args, what):
    rc, out, err = vcommon.sh([os.path.join(bindir, "genrun-tool")] + args, env=vcommon.base_env(), timeout=900)
    if rc != 0:
        raise vcommon.HarnessFailure("%s failed: %s" % (what, err[-2000:]))


def run(tier, seed, replay):
    rep = vcommon.Report("C15", level="exploration",
                         rule="case = (input, backend, option variant) generated in N separate CLI processes + one --check; "
                              "distinct = (world shape | corpus name, backend, variant)")
    with concurrent.futures.ThreadPoolExecutor(2) as ex:
        fb = ex.submit(vcommon.cargo_build, "genrun", ["genrun-tool"])
        fc = ex.submit(cli.build_cli)
        bindir = fb.result()
        fc.result()
    scratch = vcommon.scratch_dir("c15")
    t0 = os.times()
    try:
        thorough = tier == "thorough"
        nruns = 6 if thorough else 3
        table_p = os.path.join(scratch, "table.json")
        _tool(bindir, ["variants", "--out", table_p], "genrun-tool variants")
        with open(table_p) as f:
            table = json.load(f)
        variants = table["variants"]
        rng = vcommon.Rng(seed ^ 0xC15)
        cases = []
        if replay is not None:
            r = replay.get("replay", replay)
            src = r.get("src")
            if r.get("wit"):
                src = os.path.join(scratch, "replay.wit")
                with open(src, "w") as f:
                    f.write(r["wit"])
            cases.append({"backend": r["backend"], "variant": r.get("variant", "default"), "flags": r.get("flags", []), "src": src,
                          "world": r.get("world"), "key": "replay", "input": r.get("input", "replay")})
            nruns = 8
        else:
            n_random = 30 if thorough else 8
            wdir = os.path.join(scratch, "worlds")
            idx_p = os.path.join(scratch, "worlds.json")
            _tool(bindir, ["worlds", "--seed", str(seed), "--n", str(n_random), "--profile", "large", "--dir", wdir, "--out", idx_p],
                  "genrun-tool worlds")
            with open(idx_p) as f:
                idx = json.load(f)
            rep.extra["random_worlds"] = len(idx["worlds"])
            rep.extra["random_worlds_discarded_invalid"] = idx["discarded_invalid"]
            rep.extra["random_world_sizes"] = {
                "interfaces_min": min([w["interfaces"] for w in idx["worlds"]] or [0]),
                "interfaces_max": max([w["interfaces"] for w in idx["worlds"]] or [0]),
                "types_max": max([w["types"] for w in idx["worlds"]] or [0]),
                "packages_max": max([w["packages"] for w in idx["worlds"]] or [0]),
            }
            inputs = [{"src": w["path"], "world": None, "key": w["shape"], "input": "random:" + os.path.basename(w["path"]), "wit": True}
                      for w in idx["worlds"]]
            # directed hash-order-sensitive worlds: every seed, every backend, default + every variant crates/test uses
            hdir = os.path.join(scratch, "ho")
            hidx_p = os.path.join(scratch, "ho.json")
            _tool(bindir, ["hash-order-worlds", "--dir", hdir, "--out", hidx_p], "genrun-tool hash-order-worlds")
            with open(hidx_p) as f:
                hidx = json.load(f)
            directed = []
            for w in hidx["worlds"]:
                if not w.get("valid"):
                    rep.inconc("directed world %s is not valid: %s" % (w["name"], str(w.get("error"))[:200]))
                    continue
                directed.append({"src": w["path"], "world": None, "key": "directed:" + w["name"], "input": "directed:" + w["name"], "wit": True,
                                 "directed": True})
            rep.extra["directed_worlds"] = len(directed)
            inputs = directed + inputs
            corpus = [c for c in table["corpus"] if c.get("world")]
            big = [c for c in corpus if c["is_dir"] or (c.get("interfaces") or 0) >= 4]
            small = [c for c in corpus if c not in big]
            pick = list(big)
            n_small = len(small) if thorough else 4
            while small and n_small > 0:
                pick.append(small.pop(rng.below(len(small))))
                n_small -= 1
            for c in pick:
                inputs.append({"src": c["path"], "world": c["world"], "key": "corpus:" + c["name"], "input": "corpus:" + c["name"]})
            rep.extra["corpus_inputs"] = len(pick)
            for inp in inputs:
                for backend, vs in sorted(variants.items()):
                    chosen = [vs[0]]
                    if inp.get("directed"):
                        chosen = [v for v in vs if v["tested"]] if not thorough else list(vs)
                        for v in chosen:
                            cases.append({"backend": backend, "variant": v["name"], "flags": v["flags"], "src": inp["src"],
                                          "world": inp["world"], "key": inp["key"], "input": inp["input"], "is_wit": True})
                        continue
                    extra = 1 if (thorough or rng.chance(1, 2)) else 0
                    while extra > 0 and len(chosen) < len(vs):
                        v = vs[1 + rng.below(len(vs) - 1)]
                        if v not in chosen:
                            chosen.append(v)
                            extra -= 1
                    for v in chosen:
                        cases.append({"backend": backend, "variant": v["name"], "flags": v["flags"], "src": inp["src"],
                                      "world": inp["world"], "key": inp["key"], "input": inp["input"], "is_wit": inp.get("wit", False)})
        stats = {"processes_spawned": 0, "files_compared": 0, "bytes_compared": 0, "cases_compared": 0, "check_runs_ok": 0}
        skipped = {}
        per_backend = {}

        def one(kc):
            k, c = kc
            try:
                return c, _run_case(c, os.path.join(scratch, "case%d" % k), nruns)
            except Exception as e:  # harness trouble: never a verdict
                return c, {"processes": 0, "files": 0, "bytes": 0, "violations": [], "skipped": "harness: %r" % (e,), "check_rc": None}

        with concurrent.futures.ThreadPoolExecutor(max(2, vcommon.NPROC)) as ex:
            for c, res in ex.map(one, enumerate(cases)):
                stats["processes_spawned"] += res["processes"]
                stats["cpp_template_files_provided"] = stats.get("cpp_template_files_provided", 0) + res.get("template_files_provided", 0)
                stats["files_compared"] += res["files"]
                stats["bytes_compared"] += res["bytes"]
                pb = per_backend.setdefault(c["backend"], {"compared": 0, "skipped": 0, "violations": 0})
                if res["skipped"]:
                    why = res["skipped"].split(" rc=")[0]
                    skipped[why] = skipped.get(why, 0) + 1
                    pb["skipped"] += 1
                    if why.startswith("timeout") or why.startswith("harness"):
                        rep.inconc("C15 case %s/%s on %s: %s" % (c["backend"], c["variant"], c["input"], res["skipped"]))
                    if not res["violations"]:
                        continue
                stats["cases_compared"] += 1
                pb["compared"] += 1
                if res["check_rc"] == 0:
                    stats["check_runs_ok"] += 1
                rep.add_eval("%s|%s|%s" % (c["key"], c["backend"], c["variant"]))
                for sig, what in res["violations"]:
                    pb["violations"] += 1
                    rp = {"backend": c["backend"], "variant": c["variant"], "flags": c["flags"], "world": c["world"], "input": c["input"]}
                    if c.get("is_wit"):
                        try:
                            with open(c["src"]) as f:
                                rp["wit"] = f.read()
                        except OSError:
                            pass
                    else:
                        rp["src"] = c["src"]
                    rep.violation(sig, "%s/%s on %s: %s" % (c["backend"], c["variant"], c["input"], what), rp)
                if len(rep.samples) < 4:
                    rep.samples.append({"input": c["input"], "backend": c["backend"], "variant": c["variant"], "flags": c["flags"],
                                        "processes": res["processes"], "files": res["files"], "bytes": res["bytes"]})
        rep.extra.update(stats)
        rep.extra["processes_per_case"] = nruns + 1
        rep.extra["skipped"] = skipped
        rep.extra["per_backend"] = per_backend
        rep.assumptions += ["every process gets its own std RandomState keys and ASLR layout (kernel defaults), plus a different environment size and cwd depth",
                            "the Rust backend is run with the verification hooks compiled in and VERIF_WASM_IMPORTS unset in every process (same setting for all runs)"]
        if replay is not None:
            # a replay is one case: the floors do not apply
            rep.evaluations += FLOORS[tier][0]
            rep.distinct_extra += FLOORS[tier][1]
        t1 = os.times()
        rep.extra["children_cpu_s"] = round((t1.children_user - t0.children_user) + (t1.children_system - t0.children_system), 1)
        return rep
    finally:
        vcommon.rm_scratch(scratch)
