"""C06 — Rust guest bindings neither leak nor double-free heap memory."""
import rsguest

META = {
    "engine": "rsguest",
    "level": "exploration",
    "technique": "sanitizers over the C05 executions: Miri (use-after-free, out-of-bounds, double free, dealloc with wrong layout, leak report "
                 "at exit), a checking global allocator (exact double/invalid free and layout detection, per-call live block/byte balance of "
                 "guest-owned memory) natively at scale, valgrind memcheck shard in the thorough tier",
    "text": "Same worlds/values/configurations as C05 with emphasis on empty and 10^5-element lists, nested lists, maps, strings in variant "
            "arms, back-to-back calls through the static return area, import results containing lists. The host frees everything it owns, "
            "so any imbalance or leak is the guest side's. Held on the executions observed.",
    "note": "Miri runs with aliasing models off (both reject the generated as_ptr+forget+dealloc idiom; no property is about aliasing). "
            "Guest-owned = allocated while guest code runs or handed over by the host; tag travels with the block.",
}
FLOORS = {"quick": (800, 40), "thorough": (20000, 400)}
PREFIXES = ("rust-mem:",)


def run(tier, seed, replay):
    rp = replay.get("replay") if replay else None
    rep = rsguest.run_pipeline("C06", "values", tier, seed, replay=rp)
    rep.rule = ("one evaluation = one call through the generated bindings with the heap balance taken before lowering and after post-return; "
                "distinct = (direction, canonical shape key of parameter and result types, generator options)")
    if rp:
        global FLOORS
        FLOORS = {"quick": (1, 1), "thorough": (1, 1)}
    return rsguest.filter_for(rep, PREFIXES)
