"""C04 — variant payload slot joining is lossless and matches the spec.

Parts (1), (2) and (4) of DESIGN C04: `abi::cast` for all 49 ordered pairs of flat
types, the resulting `Bitcast` trees executed by the abstract machine over large
sets of source bit patterns against the spec's coercions, and the casts the real
generator emits while lowering / lifting enumerated and random variant shapes."""
import os
import sys
import vcommon
sys.path.insert(0, os.path.join(vcommon.VERIF, "crates", "abi-interp", "py"))
import abiinterp_driver as _abiinterp  # noqa: E402
import c04_backends as _backends  # noqa: E402

META = {
    "engine": "abi-interp + exprsem",
    "level": "exploration",
    "technique": "exhaustive/sampled execution of the generator's Bitcast choices by a typed abstract machine, and of every backend's emitted cast expressions (compiled with UBSan or interpreted), against the canonical ABI's lower_flat_variant / lift_flat_variant coercions; differential lowering/lifting of variant shapes",
    "text": "cast(from,to) for the 49 ordered pairs: the 10 pairs join can never produce must panic through unreachable!(), the other 39 are executed on boundary x exhaustive-16-bit patterns (quick) or all 2^32 patterns of 32-bit sources (thorough) and structured + random 64-bit patterns, at pointer widths 4 and 8: result must equal the spec coercion and into-slot followed by out-of-slot must be bit-exact. All 2-case and 3-case variants over 12 payload shapes (every joinable ordered pair arises; checked) plus boundary and random worlds: the casts found in the recorded lower/lift arms must connect exactly the payload's and the joined slot's core types, are swept likewise, and values are lowered/lifted end to end against cabi-ref. 64-bit domains are sampled, not exhausted.",
    "note": "Part (3) of DESIGN C04 — every backend's perform_cast / Bitcast expression strings obtained through hook H4 — is judged in the same check by lib/c04_backends.py (engine exprsem: Rust/C/C++ strings compiled with UBSan and executed, C#/Go/MoonBit/D strings evaluated by typed interpreters that model those languages' conversion rules, listed in coverage.backend_casts_trusted_base). Sign- versus zero-extension into a wider joined slot is accepted (the receiving side wraps), and recorded in coverage.backend_casts_slot_high_bits. Trusted: cabi-ref coercions; the machine's Bitcast semantics (equal size reinterpret, 32->64 zero-extend, 64->32 wrap, each primitive type-checked). 64-bit domains are sampled.",
}
FLOORS = {"quick": (100000000, 500), "thorough": (10000000000, 500)}


def run(tier, seed, replay):
    if replay is not None:
        # a replay re-executes one case: the coverage floors do not apply
        global FLOORS
        FLOORS = {"quick": (1, 1), "thorough": (1, 1)}
    rep = vcommon.Report("C04", level="exploration",
                         rule="evaluation = one (cast, source bit pattern) execution or one (variant shape, case, slot, width) check; distinct = cast pairs x widths, emitted cast trees, variant shapes")
    is_backend_replay = replay is not None and str(replay.get("signature", "")).startswith("cast:")
    if not is_backend_replay:
        _abiinterp.run_bin(rep, "c04", tier, seed, replay, timeout=900 if tier == "quick" else 5400, miri_shard=(tier == "thorough"))
    if replay is None or is_backend_replay:
        # part (3): the backends' own cast expressions (a failure of this part to
        # run is inconclusive for it, never a verdict)
        try:
            _backends.run_backend_casts(rep, tier, seed, replay)
        except vcommon.HarnessFailure as e:
            rep.inconc("backend cast part could not run: %s" % str(e)[-300:])
    return rep
