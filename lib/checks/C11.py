"""C11 — C guest bindings release exactly the memory and handles they own."""
import cguest

META = {
    "engine": "cguest",
    "level": "exploration",
    "technique": "allocation ledger (interposed malloc/free/realloc/calloc) snapshotted around every call phase + ASan/LSan, "
                 "and reference resource tables with destructor lookup by emitted export name; ownership rules of crates/c/README.md as the oracle",
    "text": "On every sampled call the blocks live after each phase were exactly those the documented ownership rules allow: export arguments "
            "released by the generated *_free helpers, results released by post-return, import arguments untouched, import results released by "
            "the helpers; host create/borrow/drop histories over imported and exported resources ended with every handle dropped once and every "
            "exported object destroyed once. Sampling, not proof.",
    "note": "Trusted: the ledger shim, cabi-ref, the echo machine (doubt => inconclusive). Lists of borrows of exported resources are out of "
            "reach natively (pointer-sized in C, 4 bytes canonically) and are skipped.",
}
FLOORS = {"quick": (300, 30), "thorough": (20000, 300)}


def run(tier, seed, replay):
    if replay:
        FLOORS[tier] = (1, 1)  # a replay re-executes one case
    return cguest.run_check("C11", "c11", tier, seed, replay, resources=True)
