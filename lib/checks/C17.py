"""C17 - async directives select exactly the documented functions (reference-model monitor + end-to-end output scan)."""
import os
import vcommon

META = {
    "engine": "corelib-mon",
    "level": "exploration",
    "technique": "reference-model monitor over seeded random directive lists against the real AsyncFilterSet, plus a scan of the core import/export names emitted by the real Rust, C and MoonBit generators run in-process",
    "text": "is_async is compared query by query with a reference (first matching directive in order wins, else the WIT async); ensure_all_used must fail when a non-all directive matches no query and pass when every one decided a query; printed directives re-parse to an equivalent set. End to end, the functions whose core names carry [async-lower]/[async-lift] in Rust, C and MoonBit output must be exactly the reference's set and the Rust generator must reject a directive matching no function. Holds on the K lists/worlds observed.",
    "note": "Function names come from wit-parser (name_world_key). ensure_all_used is unjudged for directives that name-match only behind an earlier directive. e2e worlds exclude error-context and fixed-length lists (declared unsupported by the C/MoonBit/Rust test drivers); generator panics/errors are inconclusive.",
}
FLOORS = {"quick": (5000, 500), "thorough": (200000, 2000)}
BIN = "c17"
FEATURES = ["e2e"]
RULE = "model case = world x directive list x shuffled queries; e2e case = encodable world x directive list through 3 backends; distinct = model: (directive kind/sign/used pattern, #functions, #queries) with >= 2 directives incl. a deciding non-all one; e2e: (directives, world) with some but not all functions expected async"


def run(tier, seed, replay):
    rep = vcommon.Report("C17", level=META["level"], rule=RULE)
    bindir = vcommon.cargo_build("corelib-mon", bins=[BIN], features=FEATURES)
    d = vcommon.scratch_dir(BIN)
    out = os.path.join(d, "r.json")
    cmd = [os.path.join(bindir, BIN), "--seed", str(seed), "--tier", tier, "--out", out]
    if replay:
        # a replay file names the generator seed, the case stream and the case index; the
        # harness regenerates exactly that case (case RNGs depend on (seed, stream, index) only)
        r = replay.get("replay", {})
        cmd = [os.path.join(bindir, BIN), "--seed", str(r.get("seed", replay.get("seed", seed))),
               "--tier", replay.get("tier", tier), "--out", out,
               "--stream", str(r.get("stream", "")), "--case", str(r.get("case", 0))]
    try:
        vcommon.run_harness(rep, cmd, timeout=600 if tier == "quick" else 5400, out_json=out,
                            env=vcommon.base_env(), what="c25 harness")
    finally:
        vcommon.rm_scratch(d)
    return rep
