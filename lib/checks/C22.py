"""C22 — the export task executor answers callbacks consistently and frees tasks once."""
import os
import sys

import vcommon

sys.path.insert(0, os.path.join(vcommon.VERIF, "crates", "rt-host", "py"))
import rthost_check  # noqa: E402

META = {
    "engine": "rt-host",
    "level": "exploration",
    "technique": "real runtime (hook H2) driven by a mock component-model host through start_task/callback and through block_on, built with four feature sets {async-spawn+inter-task-wakeup, none, async-spawn, inter-task-wakeup}; task bodies are choice-driven programs that finish at once, yield, spawn children, await imports, stream reads/writes, future reads, two of them concurrently, or leave an operation registered when the body ends; the host orders events by the choice oracle and may inject EVENT_CANCEL at any suspension point; per callback return an oracle combines the host's view (context slot, membership and owner of the waitable set named by WAIT), hook H3 (sleep state, remaining Rust work, registrations) and harness instrumentation (every root/spawned future wrapped in a guard that reports polls, completion and destruction; waker wrapper reporting wake-ups during a poll); bounded-exhaustive + random schedules; Miri shards; valgrind and ASan (thorough)",
    "text": "on every observed callback return: EXIT left no registered waitable in the task's set, every root/spawned future had finished (or, after EVENT_CANCEL, been destroyed) exactly once, context slot 0 was empty and nothing of the task ran again; WAIT named the task's own, non-empty waitable set; YIELD came with the executor's waker woken during the poll (exactly: a wake-up seen by the waker wrapper during the last poll, without async-spawn); the context slot held the task state between callbacks and was empty whenever a body was polled; block_on returned only after all work finished, including a body whose first action is a yield before anything was registered. Exploration, not proof",
    "note": "bounded-progress reading of liveness: a task left suspended when the host can do nothing more is reported. With async-spawn FuturesUnordered itself wakes the executor after polling every child, so YIELD is only required to follow a poll there. Trusted base: mock host, hook H3 snapshots",
}
FLOORS = {"quick": (100000, 20000), "thorough": (1000000, 100000)}

RULE = "evaluation = one execution of a scenario (export tasks driven through start_task/callback, or block_on, with choice-driven bodies) under one choice vector (host event order incl. EVENT_CANCEL + guest actions) for one feature set of the runtime; distinct = distinct event traces per scenario; distinct callback-code sequences are reported separately"


def tune(plan, tier):
    plan.smoke_scenario = "c22_yield_import"
    plan.plain_pass_in_thorough = False
    if tier == "quick":
        plan.native_args = ["--depth", "8", "--max-exhaustive", "30000", "--random", "3000"]
        extra = ["--depth", "7", "--max-exhaustive", "15000", "--random", "1500"]
        shards = 4
    else:
        plan.native_args = ["--depth", "11", "--max-exhaustive", "400000", "--random", "120000"]
        extra = ["--depth", "10", "--max-exhaustive", "200000", "--random", "60000"]
        shards = 8
        plan.valgrind_args = ["--random", "300", "--max-exhaustive", "800", "--depth", "6"]
        plan.asan_args = ["--random", "2000", "--max-exhaustive", "10000", "--depth", "7"]
    plan.feature_passes = [
        {"tag": "plain", "features": [], "shards": shards, "args": extra},
        {"tag": "async-spawn", "features": ["async-spawn"], "shards": shards, "args": extra},
        {"tag": "inter-task-wakeup", "features": ["inter-task-wakeup"], "shards": shards, "args": extra},
    ]


def run(tier, seed, replay):
    rep = rthost_check.run("C22", "c22", tier, seed, replay, RULE, tune=tune)
    if replay is not None:
        rthost_check.replay_floor(rep, FLOORS, tier)
    return rep
