"""C13 — every backend's core imports/exports match the world's canonical ABI.

For each (world, backend, option variant): run the working-tree CLI, pull the
core import/export declarations out of the generated text (lib/extract_decls.py),
and let `componentize c13` judge them: every export name must be one the world
assigns (else the component encoder silently ignores it), every required export
must be present, every import must be one the world offers, signatures must equal
cabi-ref's, and a synthetic core module with exactly these imports/exports must
be accepted by wit-component's ComponentEncoder."""
import concurrent.futures
import json
import os
import re

import compz
import extract_decls
import vcommon

META = {
    "engine": "componentize",
    "level": "exploration",
    "technique": "per-backend declaration extractors over real generator output + expected-name oracle (wit-parser names, cabi-ref "
                 "signatures) + synthetic core module through wit-component's ComponentEncoder",
    "text": "For every observed (world, backend, options) triple the declared core imports/exports were extracted from the generated "
            "source and judged against the world: names assigned/offered by the component model, required exports present, signatures "
            "equal to an independent canonical-ABI implementation, and acceptance of a synthetic module by the real encoder. "
            "Exploration: held on the worlds generated for this seed.",
    "note": "For C#, Go, MoonBit and D this judges the declarations the generator wrote, not what those compilers would emit; "
            "C# imports that are declared but never referenced in the generated text are skipped (trimmed by the .NET linker). "
            "An extractor finding nothing in a non-empty world is inconclusive. Exclusions mirror crates/test/src/<backend>.rs.",
}
FLOORS = {"quick": (150, 100), "thorough": (1500, 800)}

# (backend, variant key, args); first variant of each backend is the default
BACKENDS = {
    "c": [("default", []), ("no-sig-flattening", ["--no-sig-flattening"]), ("autodrop", ["--autodrop-borrows=yes"]), ("async", ["--async=all"])],
    "cpp": [("default", [])],
    "rust": [("default", ["--stubs"]), ("async", ["--stubs", "--async=all"])],
    "csharp": [("default", ["--runtime=native-aot", "--generate-stub"])],
    "go": [("default", ["--generate-stubs"])],
    "moonbit": [("default", ["--derive-debug", "--derive-show", "--derive-eq", "--derive-error"]),
                ("async", ["--derive-debug", "--derive-show", "--derive-eq", "--derive-error", "--async=all"])],
    "d": [("default", ["--emit-export-stubs"])],
}
PROFILES = [
    dict(names="simple"),
    dict(names="simple", **{"async": 1}),
    dict(names="adversarial", **{"async": 1}, types=8),
    dict(names="simple", **{"async": 1}, funcs=6, max_depth=4),
]
# one hand-written world per named finding of the pinned tree (exhibited at every seed)
DIRECTED = [
    ("kebab-world-export-with-post-return", "w", "package a:b;\nworld w { export foo-bar: func() -> string; export baz-qux: func(a: list<u8>) -> list<string>; }\n"),
    ("futures-in-several-functions", "w", "package a:b;\ninterface i { f1: func(x: future<u8>); f2: func(x: future<u16>) -> stream<u8>; f3: func(x: stream<string>); }\nworld w { import i; export i; }\n"),
    ("async-export-returning-string", "w", "package a:b;\nworld w { export run-it: async func() -> string; }\n"),
    ("world-level-resource", "w", "package a:b;\nworld w { resource x; export f: func() -> x; }\n"),
    compz.PAYLOAD_INDEX_STRESS,
]
ASYNC_TYPE_RULE = "requires an async function type"


def classify(backend, issue):
    """Stable signature for one issue reported by `componentize c13`."""
    kind = issue["kind"]
    name = issue.get("name", "")
    if backend == "c" and kind == "export-unassigned" and "#[dtor]" in name:
        # the C backend names the destructor export after the snake_case form of the
        # resource (`my-thing` -> `my_thing`, `TEST` -> `test`)
        return "c:dtor-export-name:snake-case-resource"
    if kind == "encoder-reject":
        msg = re.sub(r"\(at offset 0x[0-9a-f]+\)", "", issue.get("detail", ""))
        msg = msg.split(": ")[-1] if len(msg) > 120 else msg
        return "%s:encoder-reject:%s" % (backend, compz.normalise(msg))
    if backend == "csharp" and kind in ("payload-index-kind", "payload-index-duplicate-type"):
        # same root cause as the listed finding: C# numbers payload types per interface, not per function
        return "csharp:import-unoffered:payload-intrinsic"
    if kind == "payload-index-kind":
        return "%s:payload-intrinsic-index:kind-mismatch" % backend
    if kind == "payload-index-duplicate-type":
        return "%s:payload-intrinsic-index:duplicate-type" % backend
    if kind.startswith("import"):
        module, _, n = name.partition("::")
        if kind == "import-unoffered" and re.search(r"\[(future|stream)-[a-z-]+-(\d+|unit)\]", n):
            # one root cause per backend: the per-function payload type index / intrinsic spelling
            return "%s:import-unoffered:payload-intrinsic" % backend
        where = "[export]" if module.startswith("[export]") else ""
        where += "$root" if module.endswith("$root") else "iface"
        return "%s:%s:%s:%s" % (backend, kind, where, extract_decls.shape(n))
    return "%s:%s:%s" % (backend, kind, extract_decls.shape(name))


def run_job(job, workroot):
    backend = job["backend"]
    d = os.path.join(workroot, "out-" + vcommon.stable_hash(job["id"]))
    info = compz.world_info(job["wit"])
    world = job["world"] or info.get("world")
    if not world or "sync_funcs" not in info:
        return {"status": "inconclusive", "why": "cannot select a world: %s" % info.get("error", "")[:100]}
    st, detail = compz.run_generator(backend, job["wit"], world, d, job["args"], wasm_imports=True)
    if st != "ok":
        return {"status": "inconclusive", "why": "%s generator %s (C16's business)" % (backend, st), "detail": detail[-300:]}
    try:
        decls = extract_decls.EXTRACTORS[backend](d)
    except Exception as e:  # extractor bug: never a verdict
        return {"status": "inconclusive", "why": "%s extractor crashed: %s" % (backend, type(e).__name__), "detail": str(e)[:200]}
    nfuncs = info["import_funcs"] + info["export_funcs"]
    if nfuncs > 0 and not decls["imports"] and not decls["exports"]:
        return {"status": "inconclusive", "why": "%s extractor found no declarations in a non-empty world" % backend}
    if info["export_funcs"] > 0 and not [e for e in decls["exports"] if e["name"] != "cabi_realloc"]:
        return {"status": "inconclusive", "why": "%s extractor found no export declarations although the world exports functions" % backend}
    dpath = os.path.join(d, "verif_decls.json")
    with open(dpath, "w") as f:
        json.dump(decls, f)
    r = compz.cz(["c13", "--decls", dpath, "--wit", job["wit"], "--world", world])
    if "issues" not in r:
        return {"status": "inconclusive", "why": "componentize c13: %s" % compz.normalise(r.get("error", "no result"))}
    issues = []
    async_over_sync = "--async=all" in job["args"] and info["sync_funcs"] > 0
    for i in r["issues"]:
        if i["kind"] == "encoder-reject" and ASYNC_TYPE_RULE in i.get("detail", "") and async_over_sync:
            continue  # `--async=all` over sync-typed functions: not componentizable by anyone
        issues.append(i)
    c = r.get("counts", {})
    res = {"status": "violation" if issues else "ok", "world": world, "issues": issues, "counts": c, "unsure": r.get("unsure", []),
           "encoder_ok": bool(r.get("encoder", {}).get("ok")), "unreferenced": decls.get("unreferenced", 0),
           "decl_sample": {"imports": decls["imports"][:2], "exports": decls["exports"][:2]}}
    return res


def plan(tier, seed, work):
    rng = vcommon.Rng(seed * 104729 + 7)
    jobs = []
    stats = {"excluded": 0, "random_worlds": 0, "corpus_entries": 0}
    backends = list(BACKENDS)

    def add(source, name, wit, world, tags, cfg, which):
        for backend, vkey in which:
            args = dict(BACKENDS[backend])[vkey]
            if compz.excluded(backend, name if source == "corpus" else "", cfg, vkey if vkey != "default" else "", tags):
                stats["excluded"] += 1
                continue
            if backend in ("cpp", "d") and (cfg.get("async") or set(tags) & {"future", "stream", "async-func"}):
                stats["excluded"] += 1
                continue
            jobs.append({"id": "%s/%s/%s/%s" % (source, name, backend, vkey), "source": source, "name": name, "wit": wit, "world": world,
                         "backend": backend, "variant": vkey, "args": list(args), "tags": sorted(tags)})

    every = [(b, v) for b in backends for v, _ in BACKENDS[b]]
    for name, world, text in compz.FIXED_WORLDS:
        p = compz.materialise(work, "fixed-" + name, text)
        add("fixed", name, p, world, (), {"async": False, "error-context": False}, every)
    for name, world, text in DIRECTED:
        p = compz.materialise(work, "directed-" + name, text)
        info = compz.cz(["validate", "--wit", p])
        add("directed", name, p, world, info.get("tags", []), compz.random_config(info.get("tags", [])), [(b, "default") for b in backends])
    entries = compz.corpus()
    stats["corpus_entries"] = len(entries)
    for i, (name, path, cfg) in enumerate(entries):
        if tier == "thorough":
            which = every
        else:
            # quick: every backend's default on a rotating third of the corpus, plus one rotating variant
            if (i + seed) % 3 != 0:
                continue
            which = [(b, "default") for b in backends]
            extra = [(b, v) for b in backends for v, _ in BACKENDS[b][1:]]
            which.append(extra[(i + seed) % len(extra)])
        add("corpus", name, path, None, (), cfg, which)
    n = compz.thorough_scale(tier, 24 if tier == "quick" else 160)
    per = max(1, n // len(PROFILES))
    for pi, prof in enumerate(PROFILES):
        worlds, summary = compz.gen_worlds(seed * 1000 + 500 + pi, per, **prof)
        for w in worlds:
            stats["random_worlds"] += 1
            tag = "rand-%d-%d" % (pi, w["index"])
            p = compz.materialise(work, tag, w["wit"])
            cfg = compz.random_config(w["tags"])
            if tier == "thorough":
                which = every
            else:
                which = [(b, "default") for b in backends] + [rng.pick([(b, v) for b in backends for v, _ in BACKENDS[b][1:]])]
            add("random", tag, p, w["world"], w["tags"], cfg, which)
    return jobs, stats


def run(tier, seed, replay):
    rep = vcommon.Report("C13", level="exploration",
                         rule="one evaluation = one (world, backend, option variant) whose extracted declarations were judged; distinct = distinct "
                              "(WIT text, backend, variant) with at least one judged declaration")
    work = vcommon.scratch_dir("c13")
    try:
        compz.componentize_bin()
        import cli
        cli.build_cli()
        if replay:
            r = replay.get("replay", replay)
            p = compz.materialise(work, "replay", r["wit_text"])
            jobs = [{"id": "replay", "source": r.get("source", "replay"), "name": r.get("name", "replay"), "wit": p, "world": r.get("world"),
                     "backend": r["backend"], "variant": r.get("variant", "default"), "args": r.get("args", []), "tags": r.get("tags", [])}]
            stats = {}
        else:
            jobs, stats = plan(tier, seed, work)
        counts = {"ok": 0, "violation": 0, "inconclusive": 0}
        per_backend = {}
        totals = {"imports": 0, "exports": 0, "sig_checked": 0, "sig_unread": 0, "encoder_accepted": 0, "csharp_unreferenced_imports": 0}
        with concurrent.futures.ThreadPoolExecutor(max_workers=vcommon.NPROC) as ex:
            futs = {ex.submit(run_job, j, work): j for j in jobs}
            for fut in concurrent.futures.as_completed(futs):
                j = futs[fut]
                try:
                    r = fut.result()
                except Exception as e:
                    r = {"status": "inconclusive", "why": "harness exception %s" % type(e).__name__, "detail": str(e)[:200]}
                counts[r["status"]] += 1
                if r["status"] == "inconclusive":
                    rep.inconc(r["why"])
                    continue
                c = r["counts"]
                b = per_backend.setdefault(j["backend"], {"judged": 0, "imports": 0, "exports": 0, "sig_checked": 0, "with_issues": 0})
                b["judged"] += 1
                b["imports"] += c.get("imports", 0)
                b["exports"] += c.get("exports", 0)
                b["sig_checked"] += c.get("sig_checked", 0)
                for k in ("imports", "exports", "sig_checked", "sig_unread"):
                    totals[k] += c.get(k, 0)
                totals["encoder_accepted"] += 1 if r["encoder_ok"] else 0
                totals["csharp_unreferenced_imports"] += r["unreferenced"] if j["backend"] == "csharp" else 0
                key = vcommon.stable_hash([compz.read_wit(j["wit"]), j["backend"], j["variant"]]) if c.get("imports", 0) + c.get("exports", 0) > 0 else None
                rep.add_eval(key)
                for u in r.get("unsure", []):
                    rep.inconc("%s: %s" % (j["backend"], compz.normalise(u.get("why", ""))))
                if r["status"] == "ok":
                    if len(rep.samples) < 8 and r["decl_sample"]["imports"]:
                        rep.samples.append({"job": j["id"], "args": j["args"], "world": r["world"], "counts": c, "declarations": r["decl_sample"]})
                    continue
                b["with_issues"] += 1
                for i in r["issues"]:
                    sig = classify(j["backend"], i)
                    rep.violation(sig, "%s: %s [job %s args %s]" % (i["kind"], i["detail"][:500], j["id"], " ".join(j["args"])),
                                  {"name": j["name"], "world": r["world"], "backend": j["backend"], "variant": j["variant"], "args": j["args"],
                                   "tags": j["tags"], "source": j["source"], "wit_text": compz.read_wit(j["wit"]), "issue": i})
        rep.extra.update({"jobs": len(jobs), "outcomes": counts, "per_backend": per_backend, "totals": totals, "plan": stats})
        rep.assumptions += ["declaration extractors read what the generator wrote (attributes, link names, FFI declarations), not a compiled module",
                            "`--async=all` over sync-typed functions: the encoder's `async option requires an async function type` complaint is not counted",
                            "generator errors/panics are C16's business and counted as inconclusive here"]
        if replay:
            compz.replay_floor(rep, FLOORS, tier)
    finally:
        vcommon.rm_scratch(work)
    return rep


# ---- development helpers (ad-hoc debugging drivers only)
def dbg_plan(tier, seed, work):
    return plan(tier, seed, work)


def dbg_run(job, work, ctx):
    r = run_job(job, work)
    if r["status"] == "violation":
        sigs = sorted({classify(job["backend"], i) for i in r["issues"]})
        r["sig"] = " | ".join(sigs)
        r["what"] = "; ".join(i["detail"][:200] for i in r["issues"][:3])
    return r
