"""C01 — the shared ABI generator encodes/decodes every WIT value per the spec.

The real `wit_bindgen_core::abi::{lower_flat, lower_to_memory, lift_from_memory,
call}` are driven with an interpreting `Bindgen` (crate abi-interp); the recorded
instruction stream is executed by an abstract machine on concrete values and
compared with the reference canonical ABI (crate cabi-ref)."""
import os
import sys
import vcommon
sys.path.insert(0, os.path.join(vcommon.VERIF, "crates", "abi-interp", "py"))
import abiinterp_driver as _abiinterp  # noqa: E402

META = {
    "engine": "abi-interp",
    "level": "exploration",
    "technique": "differential execution: instruction stream of the real generator run by an abstract machine (checked memory, poison, typed core values) vs an independent reference canonical ABI",
    "text": "Every (type, value, pointer width 4|8, list policy never|scalars|rust-like) case lowers flat and to memory, lifts from memory and from flat parameters; flat values and all non-padding bytes must equal the reference, reference-lifting of the machine's output and machine-lifting of reference output (canonical, garbage in padding, garbage above narrow ints / in unused variant slots) must return the value. Held = on the cases run; nothing is proved.",
    "note": "Trusted: cabi-ref (reference written from CanonicalABI.md), wit-parser's SizeAlign (layout mismatches between the two are routed to inconclusive), the machine's reading of the Instruction doc comments. flags with 0 or >32 members are outside the component-encodable domain: mismatches there are inconclusive. A narrow integer loaded with the other signedness than its type (I32Load16S for u16 etc.) changes no lifted value because every narrow lift truncates: it is only counted (coverage.load_extension_mismatches, with samples), never a violation.",
}
FLOORS = {"quick": (100000, 300), "thorough": (2000000, 2000)}


def run(tier, seed, replay):
    if replay is not None:
        # a replay re-executes one case: the coverage floors do not apply
        global FLOORS
        FLOORS = {"quick": (1, 1), "thorough": (1, 1)}
    rep = vcommon.Report("C01", level="exploration",
                         rule="case = (type, value, pointer width, list policy, path); distinct = structural shape keys of the types exercised")
    _abiinterp.run_bin(rep, "c01", tier, seed, replay, timeout=900 if tier == "quick" else 3600, miri_shard=(tier == "thorough"))
    return rep
