"""C31 — generated C++ bindings are well-formed C++20.

Working-tree CLI `cpp` on the tests/codegen corpus (minus crates/test/src/cpp.rs
exclusions) and adversarially named random worlds, then
`g++ -std=c++20 -fsyntax-only` with the repository's helper headers."""
import concurrent.futures
import os
import re

import compz
import vcommon

META = {
    "engine": "componentize",
    "level": "exploration",
    "technique": "run the real C++ generator on corpus + adversarial random worlds and type-check its output with g++ -std=c++20 -fsyntax-only",
    "text": "Every observed world's generated .cpp (which includes all generated headers) was accepted by g++ 12 in C++20 mode together with "
            "crates/cpp/test_headers and helper-types. Exploration: held on the worlds generated for this seed.",
    "note": "Trusted: g++/libstdc++ 12 on x86_64 (pointer-size warnings ignored; -D_GLIBCXX_USE_DEPRECATED=0 avoids a libstdc++/polyfill clash). "
            "Generator panics/errors are C16's business (inconclusive here). Async worlds and the files cpp.rs excludes are skipped.",
}
FLOORS = {"quick": (40, 30), "thorough": (500, 300)}

VARIANTS = [("default", [])]
PROFILES = [
    dict(names="adversarial"),
    dict(names="adversarial", ifaces=4, types=8),
    dict(names="adversarial", resources=0, funcs=6),
]


def _first_error(text):
    for line in text.splitlines():
        m = re.search(r"(?:fatal )?error: (.*)$", line)
        if m:
            return m.group(1)
    return ""


# coarse root-cause buckets for g++'s first error (checked before the keyword classifier)
BUCKETS = [
    (r"conversion from .*span.* to non-scalar type", "span-to-owned-conversion"),
    (r"shadows a parameter", "local-shadows-parameter"),
    (r"redeclared as different kind of entity", "name-collides-with-libc-symbol"),
    (r"(is not a member of|has not been declared|does not name a type)", "undeclared-name"),
    (r"invalid use of ‘this’ in non-member function", "free-function-parameter-named-self"),
]
# sharp gate (passes on the pinned tree): IMPORTED resources whose constructor / static functions take, as FIRST
# parameter, a record / enum / variant declared later in the interface, methods with later types in 1st/2nd
# position, free functions with later types, in interfaces and at world level
TYPE_ORDER = """package test:order;
interface db {
  resource conn {
    constructor(cfg: config);
    open: static func(mode: open-mode) -> conn;
    pick: static func(c: choice, n: u32) -> u32;
    run: func(q: query, lvl: level) -> u32;
    tune: func(n: u32, o: opts) -> u32;
  }
  resource other {
    constructor(first: early-only-here);
    make: static func(v: shape-v) -> u8;
  }
  free-a: func(x: late-rec) -> late-enum;
  free-b: func(n: u8, y: late-var) -> u8;
  record config { name: string, retries: u8 }
  enum open-mode { ro, rw }
  variant choice { a(u8), b(string), c }
  record query { text: string }
  enum level { low, high }
  record opts { x: u8 }
  record early-only-here { z: u64 }
  variant shape-v { circle(f32), square(f32) }
  record late-rec { a: u8 }
  enum late-enum { p, q }
  variant late-var { m(u8), n }
}
world order {
  import db;
  import wf: func(c: wcfg) -> wkind;
  record wcfg { a: u8 }
  enum wkind { k1, k2 }
}
"""
DIRECTED = [
    ("type-order", "order", TYPE_ORDER, None),
    ("span-in-option", "w", "package a:b;\nworld w { import f: func(a: option<list<s32>>, b: tuple<u8, option<map<u64, u16>>>); }\n", None),
    ("resource-uses-later-type", "w", "package a:b;\ninterface i { resource res { constructor(x: later); m: func() -> later; } record later { a: u8 } }\nworld w { export i; }\n", None),
    ("libc-name", "w", "package uint8-t:b;\ninterface i { f: func(); }\nworld w { import i; export i; }\n", None),
    ("param-named-self", "w", "package a:b;\nworld w { import f: func(self: option<u32>) -> u32; }\n", None),
]
GXX_FLAGS = ["-std=c++20", "-D_GLIBCXX_USE_DEPRECATED=0", "-fsyntax-only", "-Wno-attributes"]


def gxx_command(work):
    """g++ with 32-bit pointers (as on wasm32) if the multiarch-header shim
    works on this machine, else plain x86_64 with -fpermissive (pointer/int
    width complaints are then toolchain artefacts, not generator defects)."""
    gxx = compz.tool("g++", "g++-12")
    if not gxx:
        raise vcommon.HarnessFailure("g++ not found")
    probe = os.path.join(work, "probe.cpp")
    with open(probe, "w") as f:
        f.write("#include <cstdint>\n#include <string>\n#include <memory>\nstatic_assert(sizeof(void*) == 4);\n")
    m32 = [gxx, "-m32", "-isystem", "/usr/include/x86_64-linux-gnu/c++/12", "-isystem", "/usr/include/x86_64-linux-gnu",
           "-isystem", os.path.join(vcommon.VERIF, "support", "c-stubs", "gxx32")] + GXX_FLAGS
    rc, out, err = vcommon.sh(m32 + [probe], timeout=300)
    if rc == 0:
        return m32, "m32"
    return [gxx, "-fpermissive"] + GXX_FLAGS, "x86_64-permissive"


def run_job(job, workroot, gxx):
    d = os.path.join(workroot, "out-" + vcommon.stable_hash(job["id"]))
    world = job["world"]
    info = compz.world_info(job["wit"])
    if world is None:
        world = info.get("world")
        if not world:
            return {"status": "inconclusive", "why": "cannot select a world: %s" % info.get("error", "")[:100]}
    tags = set(info.get("tags", []))
    if job["source"] != "corpus" and tags & {"future", "stream", "async-func", "error-context", "named-fixed-list"}:
        return {"status": "skipped"}
    st, detail = compz.run_generator("cpp", job["wit"], world, d, job["args"])
    if st != "ok":
        return {"status": "inconclusive", "why": "cpp generator %s (C16's business)" % st, "detail": detail[-300:]}
    cpps = [f for f in os.listdir(d) if f.endswith(".cpp")]
    if len(cpps) != 1:
        return {"status": "violation", "sig": "cpp:files:unexpected-output-set", "what": "expected exactly one .cpp, got %s" % sorted(os.listdir(d))}
    cmd = list(gxx) + ["-I", d,
           "-I", os.path.join(vcommon.REPO, "crates", "cpp", "test_headers"), "-I", os.path.join(vcommon.REPO, "crates", "cpp", "helper-types"),
           os.path.join(d, cpps[0])]
    rc, out, err = vcommon.sh(cmd, timeout=600)
    if rc is None:
        return {"status": "inconclusive", "why": "g++ watchdog timeout"}
    if rc == 0:
        return {"status": "ok", "world": world, "funcs": info.get("import_funcs", 0) + info.get("export_funcs", 0), "files": len(os.listdir(d))}
    e = _first_error(err)
    if not e or rc < 0 or "internal compiler error" in err:
        return {"status": "inconclusive", "why": "g++ crashed (rc=%s)" % rc, "detail": err[-300:]}
    wit_text = compz.read_wit(job["wit"])
    first3 = " ;; ".join(re.findall(r"(?:fatal )?error: (.*)", err)[:3])
    root = compz.bucket(e, BUCKETS) or compz.keyword_root_cause(err, wit_text, compz.C_KEYWORDS) or compz.bucket(first3, BUCKETS)
    if not root and job["source"] == "random" and compz.confirmed_temporary_collision(err, wit_text):
        root = "generator-temporary-collision"
    if job["name"] == "type-order" and root == "undeclared-name":
        # this world only has IMPORTED resources, which are ordered correctly on the pinned tree: not the
        # listed exported-resource finding
        root = "type-used-before-declaration"
    sig = compz.signature(job, "cpp:syntax:", root, named=True) if root else compz.signature(job, "cpp:syntax:", compz.normalise(e))
    return {"status": "violation" if sig else "unclassified", "stage": "g++", "sig": sig, "what": "g++ rejects the generated C++: " + e, "detail": err[:2000]}

def run(tier, seed, replay):
    rep = vcommon.Report("C31", level="exploration",
                         rule="one evaluation = one world whose generated C++ went through g++ -fsyntax-only; distinct = distinct WIT texts with at least one function")
    work = vcommon.scratch_dir("c31")
    try:
        gxx, gxx_mode = gxx_command(work)
        compz.componentize_bin()
        import cli
        cli.build_cli()
        if replay:
            jobs, stats = compz.replay_job(replay, work, VARIANTS), {}
        else:
            jobs, stats = compz.plan("cpp", tier, seed, work, VARIANTS, 36 if tier == "quick" else 1500, PROFILES, directed=DIRECTED)
        counts = {"ok": 0, "violation": 0, "inconclusive": 0, "skipped": 0, "unclassified": 0}
        with concurrent.futures.ThreadPoolExecutor(max_workers=vcommon.NPROC) as ex:
            futs = {ex.submit(compz.retry_lowercased, j, work, lambda jj: run_job(jj, work, gxx)): j for j in jobs}
            results = []
            for fut in concurrent.futures.as_completed(futs):
                try:
                    results += fut.result()
                except Exception as e:
                    results.append((futs[fut], {"status": "inconclusive", "why": "harness exception %s" % type(e).__name__, "detail": str(e)[:200]}))
            for j, r in results:
                counts[r["status"]] += 1
                if r["status"] == "ok":
                    rep.add_eval(vcommon.stable_hash(compz.read_wit(j["wit"])) if r["funcs"] else None)
                    if len(rep.samples) < 6:
                        rep.samples.append({"job": j["id"], "world": r["world"], "functions": r["funcs"], "generated_files": r["files"]})
                elif r["status"] == "unclassified":
                    rep.add_eval(vcommon.stable_hash(compz.read_wit(j["wit"])))
                    compz.unclassified(rep, j, r["stage"], r["what"], r.get("detail", ""))
                elif r["status"] == "violation":
                    tally = rep.extra.setdefault("violation_tally", {})
                    k = "%s | %s" % (r["sig"], compz.normalise(r["what"].split(": ", 1)[-1]))
                    tally[k] = tally.get(k, 0) + 1
                    rep.add_eval(vcommon.stable_hash(compz.read_wit(j["wit"])))
                    rep.violation(r["sig"], "%s [job %s]" % (r["what"], j["id"]), compz.job_replay(j, {"detail": r.get("detail", "")}))
                elif r["status"] == "inconclusive":
                    rep.inconc(r["why"])
        rep.extra.update({"jobs": len(jobs), "outcomes": counts, "plan": stats, "compiler": " ".join(gxx), "pointer_mode": gxx_mode})
        rep.assumptions += ["g++ 12 -fsyntax-only on x86_64 stands in for the wasi-sdk clang++ crates/test uses",
                            "generator errors/panics are C16's business and counted as inconclusive here"]
        if replay:
            compz.replay_floor(rep, FLOORS, tier)
    finally:
        vcommon.rm_scratch(work)
    return rep


# ---- development helpers (ad-hoc debugging drivers only)
def dbg_ctx(work):
    return gxx_command(work)[0]


def dbg_plan(tier, seed, work):
    return compz.plan("cpp", tier, seed, work, VARIANTS, 36 if tier == "quick" else 1500, PROFILES, directed=DIRECTED)


def dbg_run(job, work, ctx):
    return compz.retry_lowercased(job, work, lambda jj: run_job(jj, work, ctx))
