"""C28 - type analysis identifies exactly the structurally equal types (independent equality relation + fact recomputation)."""
import os
import vcommon

META = {
    "engine": "corelib-mon",
    "level": "exploration",
    "technique": "reference-model monitor over seeded random worlds rich in equal / near-equal types against the real wit_bindgen_core::Types (analyze, collect_equal_types, get_representative_type, get), plus a syn-parsed count of definitions emitted by the real Rust generator with merge_structurally_equal_types",
    "text": "For every pair of live types the real equivalence classes must coincide with an independently computed canonical form (dealiased tree with field/case/flag names in order, resources equal only to themselves); every type's content facts and every named type's usage facts must lie between the weakest and the most generous reading of the statement; after merging every live type carries the union of its class. End to end the Rust generator must emit one struct/enum per class of used record/variant/enum types. Holds on the K worlds observed.",
    "note": "Type AST and live set come from wit-parser. Facts are judged as lo <= real <= hi (maps / fixed-length lists as lists, future/stream/error-context as handles, payload contents and indirect error positions are accepted either way); usage facts only for named types; e2e skipped when an interface is both imported and exported or a nominal type is used only through a stream/future payload.",
}
FLOORS = {"quick": (3000, 1000), "thorough": (100000, 10000)}
BIN = "c28"
FEATURES = ["e2e"]
RULE = "case = one world (4/5 equal-rich generator, 1/5 witgen); distinct = (multiset of non-singleton class kinds and sizes, #live types) of worlds with >= 1 pair of structurally equal live types"


def run(tier, seed, replay):
    rep = vcommon.Report("C28", level=META["level"], rule=RULE)
    bindir = vcommon.cargo_build("corelib-mon", bins=[BIN], features=FEATURES)
    d = vcommon.scratch_dir(BIN)
    out = os.path.join(d, "r.json")
    cmd = [os.path.join(bindir, BIN), "--seed", str(seed), "--tier", tier, "--out", out]
    if replay:
        # a replay file names the generator seed, the case stream and the case index; the
        # harness regenerates exactly that case (case RNGs depend on (seed, stream, index) only)
        r = replay.get("replay", {})
        cmd = [os.path.join(bindir, BIN), "--seed", str(r.get("seed", replay.get("seed", seed))),
               "--tier", replay.get("tier", tier), "--out", out,
               "--stream", str(r.get("stream", "")), "--case", str(r.get("case", 0))]
    try:
        vcommon.run_harness(rep, cmd, timeout=600 if tier == "quick" else 5400, out_json=out,
                            env=vcommon.base_env(), what="c25 harness")
    finally:
        vcommon.rm_scratch(d)
    return rep
