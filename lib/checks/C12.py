"""C12 — generated C builds for wasm32 and componentizes as exactly the requested world.

Pipeline per (world, option variant): working-tree CLI `c` -> clang
--target=wasm32-unknown-unknown with the warning flags crates/test/src/c.rs
uses -> trivial user file (scraped from the generated header) -> wasm-ld ->
wit-component ComponentEncoder (validating) -> decode -> compare worlds."""
import concurrent.futures
import os
import re

import compz
import cscrape
import vcommon

META = {
    "engine": "componentize",
    "level": "exploration",
    "technique": "compile + link generated C for wasm32 (clang/wasm-ld), then wit-component ComponentEncoder/decode as oracle; "
                 "adversarial random worlds + tests/codegen corpus x option variants",
    "text": "Every observed (world, option set) pair was compiled with clang -Wall -Wextra -Werror for wasm32, linked with a trapping "
            "user file and its component-type object, accepted by the validating component encoder, and the decoded world's "
            "imports and exports were compared with the requested world. Exploration: held on the worlds generated for this seed.",
    "note": "Trusted: clang-14/wasm-ld-14 (not wasi-sdk's newer clang), stub libc headers, wit-component 0.257 encoder/decoder, "
            "the header scraper (a scrape failure is inconclusive). Exclusions mirror crates/test/src/c.rs.",
}
FLOORS = {"quick": (60, 40), "thorough": (600, 400)}

VARIANTS = [
    ("default", []),
    ("no-sig-flattening", ["--no-sig-flattening"]),
    ("autodrop", ["--autodrop-borrows=yes"]),
    ("async", ["--async=all"]),
    ("utf16", ["--string-encoding=utf16"]),
]
# crates/test/src/c.rs `verify`
CFLAGS_STRICT = ["-Wall", "-Wextra", "-Werror", "-Wc++-compat", "-Wno-unused-parameter"]
PROFILES = [
    dict(names="adversarial"),
    dict(names="adversarial", **{"async": 1}),
    dict(names="adversarial", ifaces=4),
    dict(names="adversarial", **{"async": 1}, types=8, funcs=6),
]
# one hand-written world per named root cause observed on the pinned tree (exhibited at every seed)
DIRECTED = [
    compz.PAYLOAD_INDEX_STRESS + (["default", "no-sig-flattening", "autodrop"],),
    ("stdint-names", "w", "package a:b;\nworld w { import f: func(int32-t: u8, size-t: u8) -> u8; export g: func(uint8-t: u8) -> u8; }\n", ["default"]),
]
STUBS = os.path.join(vcommon.VERIF, "support", "c-stubs")


def _first_error(text):
    for line in text.splitlines():
        m = re.search(r"\berror: (.*)$", line)
        if m:
            return m.group(1)
    return text.strip().splitlines()[-1] if text.strip() else "no diagnostics"


def run_job(job, workroot, tools, support_o):
    """Returns dict(status=ok|violation|inconclusive, ...)."""
    clang, wasm_ld = tools
    d = os.path.join(workroot, "out-" + vcommon.stable_hash(job["id"]))
    info = compz.world_info(job["wit"])
    world = job["world"] or info.get("world")
    if not world or "sync_funcs" not in info:
        return {"status": "inconclusive", "why": "cannot select a world: %s" % info.get("error", "")[:100]}
    # wasmparser: "the `async` canonical option requires an async function type";
    # `--async=all` over sync-typed functions can be compiled and linked but
    # never componentized, whatever the generator does.
    link_only = "--async=all" in job["args"] and info["sync_funcs"] > 0
    st, detail = compz.run_generator("c", job["wit"], world, d, job["args"])
    if st != "ok":
        return {"status": "inconclusive", "why": "c generator %s (C16's business)" % st, "detail": detail[-300:]}
    cs = [f for f in os.listdir(d) if f.endswith(".c")]
    hs = [f for f in os.listdir(d) if f.endswith(".h")]
    objs = [f for f in os.listdir(d) if f.endswith("_component_type.o")]
    if len(cs) != 1 or len(hs) != 1 or len(objs) != 1:
        return {"status": "violation", "stage": "files", "sig": "c:files:unexpected-output-set",
                "what": "expected one .c, one .h and one *_component_type.o, got %s" % sorted(os.listdir(d))}
    base = ["--target=wasm32-unknown-unknown", "-nostdlib", "-ffreestanding", "-O1", "-I", os.path.join(STUBS, "include"), "-I", d]
    rc, out, err = vcommon.sh([clang] + base + CFLAGS_STRICT + ["-c", os.path.join(d, cs[0]), "-o", os.path.join(d, "bindings.o")], timeout=300)
    if rc is None or rc < 0 or (rc != 0 and "error:" not in err):
        return {"status": "inconclusive", "why": "clang crashed or timed out (rc=%s)" % rc, "detail": err[-300:]}
    if rc != 0:
        e = _first_error(err)
        wit_text = compz.read_wit(job["wit"])
        root = compz.keyword_root_cause(err, wit_text, compz.C_KEYWORDS)
        if not root and re.search(r"(?<![\w-])(u?int(8|16|32|64)-t|size-t)(?![\w-])", wit_text) and \
                re.search(r"expected ';' after expression|undeclared identifier|redefinition of|expected identifier|unknown type name '(u?int\d+_t|size_t)'", e):
            root = "stdint-typename-as-identifier"
        if not root:
            clash = compz.confirmed_temporary_collision(err, wit_text)
            if clash and job["source"] == "random":
                root = "generator-temporary-collision"
        sig = compz.signature(job, "c:clang:", root, named=True) if root else compz.signature(job, "c:clang:", compz.normalise(e))
        return {"status": "violation" if sig else "unclassified", "stage": "clang", "sig": sig, "what": "clang rejects the generated C: " + e,
                "detail": err[:1500]}
    with open(os.path.join(d, hs[0])) as f:
        scraped = cscrape.scrape_header(f.read())
    if not scraped["ok"]:
        return {"status": "inconclusive", "why": "header scraper unsure: " + scraped["why"][:120]}
    with open(os.path.join(d, "verif_user.c"), "w") as f:
        f.write(cscrape.user_file(hs[0], scraped))
    rc, out, err = vcommon.sh([clang] + base + ["-w", "-c", os.path.join(d, "verif_user.c"), "-o", os.path.join(d, "user.o")], timeout=300)
    if rc != 0:
        return {"status": "inconclusive", "why": "harness user file does not compile: " + compz.normalise(_first_error(err)), "detail": err[-600:]}
    module = os.path.join(d, "module.wasm")
    rc, out, err = vcommon.sh([wasm_ld, "--no-entry", "--export=verif_keep", os.path.join(d, "bindings.o"), os.path.join(d, "user.o"),
                               os.path.join(d, objs[0]), support_o, "-o", module], timeout=300)
    if rc is None or rc < 0:
        return {"status": "inconclusive", "why": "wasm-ld crashed or timed out (rc=%s)" % rc}
    if rc != 0:
        m = re.search(r"undefined symbol: (\S+)", err)
        if m:
            sym = m.group(1)
            declared = any(p["name"] == sym for k in ("exports", "destructors", "helpers", "imports") for p in scraped[k])
            if declared or sym.startswith("exports_"):
                return {"status": "inconclusive", "why": "user file misses a declared function (scraper limitation)", "detail": sym}
            return {"status": "violation", "stage": "link", "sig": compz.signature(job, "c:link:", "undefined-symbol"), "what": "wasm-ld: undefined symbol %s (neither declared for the user nor imported)" % sym,
                    "detail": err[:1000]}
        e = _first_error(err)
        return {"status": "violation", "stage": "link", "sig": compz.signature(job, "c:link:", compz.normalise(e)), "what": "wasm-ld fails: " + e, "detail": err[:1000]}
    enc = "utf16" if "--string-encoding=utf16" in job["args"] else "utf8"
    if link_only:
        return {"status": "ok", "world": world, "imports": info["import_funcs"], "exports": info["export_funcs"], "link_only": True,
                "scraped_exports": len(scraped["exports"]), "scraped_imports": len(scraped["imports"]), "encoding": enc}
    r = compz.cz(["encode-check", "--module", module, "--wit", job["wit"], "--world", world, "--imports", "equal"])
    res = {"status": "ok", "world": world, "imports": r.get("got_import_funcs", 0), "exports": r.get("got_export_funcs", 0), "link_only": False,
           "scraped_exports": len(scraped["exports"]), "scraped_imports": len(scraped["imports"]), "encoding": enc}
    if r.get("ok"):
        return res
    stage = r.get("stage")
    if stage in ("harness", "encoder-panic", "decode"):
        return {"status": "inconclusive", "why": "componentize %s: %s" % (stage, compz.normalise(r.get("error", "")))}
    if stage == "encode":
        if re.search(r"requires a (stream|future) type|(future|stream)\.[a-z.-]+` requires", r.get("error", "")):
            return {"status": "violation", "stage": "encode", "sig": "c:encode:payload-intrinsic-index",
                    "what": "component encoder rejects a future/stream intrinsic (payload type index points at the wrong kind): " + r.get("error", "")[:500]}
        return {"status": "violation", "stage": "encode", "sig": compz.signature(job, "c:encode:", compz.normalise(re.sub(r"\(at offset 0x[0-9a-f]+\)", "", r.get("error", "").split(": ")[-1]))),
                "what": "component encoder rejects the linked module: " + r.get("error", "")[:600]}
    kinds = sorted({k for k, _ in r.get("diff", [])})
    if set(kinds) <= {"import-missing", "import-func-missing"} and len(scraped["imports"]) != r.get("want_import_funcs"):
        return {"status": "inconclusive", "why": "import wrappers scraped (%d) != imported functions (%s); cannot keep all imports alive"
                % (len(scraped["imports"]), r.get("want_import_funcs"))}
    return {"status": "violation", "stage": "world-mismatch", "sig": compz.signature(job, "c:world-mismatch:", "+".join(kinds)),
            "what": "decoded world differs from the requested one: " + "; ".join(d for _, d in r.get("diff", [])[:4])}


def run(tier, seed, replay):
    rep = vcommon.Report("C12", level="exploration",
                         rule="one evaluation = one (world, C option variant) pair taken through clang, wasm-ld, ComponentEncoder and decode; "
                              "distinct = distinct (WIT text, variant) pairs with at least one function")
    clang = compz.tool("clang", "clang-14")
    wasm_ld = compz.tool("wasm-ld", "wasm-ld-14")
    if not clang or not wasm_ld:
        raise vcommon.HarnessFailure("clang / wasm-ld not found")
    work = vcommon.scratch_dir("c12")
    try:
        support_o = os.path.join(work, "support.o")
        vcommon.sh([clang, "--target=wasm32-unknown-unknown", "-nostdlib", "-ffreestanding", "-O1", "-I", os.path.join(STUBS, "include"),
                    "-c", os.path.join(STUBS, "support.c"), "-o", support_o], timeout=120, check=True)
        compz.componentize_bin()
        import cli
        cli.build_cli()
        if replay:
            jobs, stats = compz.replay_job(replay, work, VARIANTS), {}
        else:
            n = 48 if tier == "quick" else 2000
            jobs, stats = compz.plan("c", tier, seed, work, VARIANTS, n, PROFILES, directed=DIRECTED)
        counts = {"ok": 0, "violation": 0, "inconclusive": 0, "unclassified": 0}
        per_variant = {}
        with concurrent.futures.ThreadPoolExecutor(max_workers=vcommon.NPROC) as ex:
            futs = {ex.submit(compz.retry_lowercased, j, work, lambda jj: run_job(jj, work, (clang, wasm_ld), support_o)): j for j in jobs}
            results = []
            for fut in concurrent.futures.as_completed(futs):
                try:
                    results += fut.result()
                except Exception as e:  # harness bug: never a verdict
                    results.append((futs[fut], {"status": "inconclusive", "why": "harness exception %s" % type(e).__name__, "detail": str(e)[:200]}))
            for j, r in results:
                counts[r["status"]] += 1
                if r["status"] == "ok":
                    per_variant[j["variant"]] = per_variant.get(j["variant"], 0) + 1
                    counts["link_only"] = counts.get("link_only", 0) + (1 if r["link_only"] else 0)
                    key = None
                    if r["imports"] + r["exports"] > 0:
                        key = vcommon.stable_hash([compz.read_wit(j["wit"]), j["variant"]])
                    rep.add_eval(key)
                    if len(rep.samples) < 6:
                        rep.samples.append({"job": j["id"], "args": j["args"], "world": r["world"], "import_funcs": r["imports"], "export_funcs": r["exports"]})
                elif r["status"] == "unclassified":
                    rep.add_eval(vcommon.stable_hash([compz.read_wit(j["wit"]), j["variant"]]))
                    compz.unclassified(rep, j, r["stage"], r["what"], r.get("detail", ""))
                elif r["status"] == "violation":
                    tally = rep.extra.setdefault("violation_tally", {})
                    k = "%s | %s" % (r["sig"], compz.normalise(r["what"].split(": ", 1)[-1]))
                    tally[k] = tally.get(k, 0) + 1
                    rep.add_eval(vcommon.stable_hash([compz.read_wit(j["wit"]), j["variant"]]))
                    rep.violation(r["sig"], "%s [job %s args %s]" % (r["what"], j["id"], " ".join(j["args"])),
                                  compz.job_replay(j, {"stage": r.get("stage"), "detail": r.get("detail", "")}))
                else:
                    rep.inconc(r["why"])
        rep.extra.update({"jobs": len(jobs), "outcomes": counts, "ok_per_variant": per_variant, "plan": stats,
                          "cflags": CFLAGS_STRICT, "tools": {"clang": clang, "wasm-ld": wasm_ld}})
        rep.assumptions += ["`--async=all` over a world with sync-typed functions is compiled and linked only: wasmparser rejects the `async` "
                            "canonical option on a non-async function type, so such a module cannot be componentized by any generator",
                            "clang-14 diagnostics stand in for the wasi-sdk clang crates/test uses",
                            "generator errors/panics are C16's business and counted as inconclusive here"]
        if replay:
            compz.replay_floor(rep, FLOORS, tier)
    finally:
        vcommon.rm_scratch(work)
    return rep


# ---- development helpers (used by ad-hoc debugging drivers only)
def dbg_ctx(work):
    clang = compz.tool("clang", "clang-14")
    support_o = os.path.join(work, "support.o")
    vcommon.sh([clang, "--target=wasm32-unknown-unknown", "-nostdlib", "-ffreestanding", "-O1", "-I", os.path.join(STUBS, "include"),
                "-c", os.path.join(STUBS, "support.c"), "-o", support_o], timeout=120, check=True)
    return ((clang, compz.tool("wasm-ld", "wasm-ld-14")), support_o)


def dbg_plan(tier, seed, work):
    return compz.plan("c", tier, seed, work, VARIANTS, 48 if tier == "quick" else 2000, PROFILES, directed=DIRECTED)


def dbg_run(job, work, ctx):
    return compz.retry_lowercased(job, work, lambda jj: run_job(jj, work, ctx[0], ctx[1]))
