"""C10 — C guest bindings carry every value across the boundary unchanged."""
import cguest

META = {
    "engine": "cguest",
    "level": "exploration",
    "technique": "generated C bindings compiled natively under ASan+UBSan and run against an independent reference "
                 "canonical-ABI host (cabi-ref, 8-byte pointers); per-world generated echo machine; four-direction value-equality oracle",
    "text": "Every sampled call (random worlds x random/boundary values x option variants) moved its arguments and results through the "
            "real generated C in all four directions and the reference host saw the same canonical value text; sanitizers stayed silent. "
            "Sampling, not proof: assurance is bounded by the worlds/values observed (counts in coverage).",
    "note": "Trusted: cabi-ref (the reference ABI), the header-learning parser and echo-machine generator (any doubt there is reported "
            "as inconclusive, never as a violation), native x86-64 C ABI standing in for wasm32 (layout-equivalent for the constructs exercised).",
}
FLOORS = {"quick": (300, 40), "thorough": (20000, 400)}


def run(tier, seed, replay):
    if replay:
        FLOORS[tier] = (1, 1)  # a replay re-executes one case
    return cguest.run_check("C10", "c10", tier, seed, replay, resources=False)
