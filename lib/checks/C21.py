"""C21 — async import calls release parameters and results exactly once."""
import os
import sys

import vcommon

sys.path.insert(0, os.path.join(vcommon.VERIF, "crates", "rt-host", "py"))
import rthost_check  # noqa: E402

META = {
    "engine": "rt-host",
    "level": "exploration",
    "technique": "real runtime (hook H2) linked against a mock component-model host; a harness implementation of the runtime's `Subtask` trait (what the Rust generator emits for an async import: flat <=4 / indirect parameters, abi_layout = indirect params + result, results_offset) with every callback instrumented; schedules = choice vectors (host status sequence: RETURNED at once, STARTING/STARTED then events, synchronous subtask.cancel answered STARTED_CANCELLED / RETURNED_CANCELLED / RETURNED; guest polls, suspends or drops the call future at every point; EVENT_CANCEL injection) enumerated bounded-exhaustively and at random; the host lifts the lowered parameters from guest memory when the callee starts and lowers the result when it returns; per-call event-log oracle + allocator ledger; Miri shards; valgrind and ASan (thorough)",
    "text": "on every observed execution params_dealloc_lists ran exactly once and only after the host had lifted the parameters, params_dealloc_lists_and_own ran exactly once iff the cancel was answered STARTED_CANCELLED (and then instead), results_lift ran exactly once iff the guest was told RETURNED, subtask.drop ran exactly once per subtask handle, subtask.cancel was never issued on a resolved subtask, the parameter/result block was still allocated at each host access (ledger natively, Miri/ASan/valgrind otherwise) and the guest heap returned to its baseline. Exploration, not proof: five parameter shapes x three result shapes, at most three calls per task, bounded depth",
    "note": "the Subtask implementation is the harness's (generated ones are exercised end to end by C05-C08); native pointer width; host state changes happen only at suspension points and inside the blocking subtask.cancel, as in the canonical ABI's cooperative model. Trusted base: mock host subtask state machine written from the canonical ABI (status codes 0-4, EVENT_SUBTASK payload, synchronous cancel)",
}
FLOORS = {"quick": (40000, 8000), "thorough": (300000, 20000)}

RULE = "evaluation = one execution of a scenario (task body that starts, polls and drops async import calls through an instrumented Subtask implementation, in an export task or under block_on) under one choice vector (host status sequence + guest actions); distinct = distinct event traces (calls, deliveries, host status changes, Subtask callbacks, results) per scenario"


def tune(plan, tier):
    plan.smoke_scenario = "c21_flat_scalar_u32"
    plan.plain_pass_in_thorough = False
    if tier == "quick":
        plan.native_args = ["--depth", "9", "--max-exhaustive", "60000", "--random", "6000"]
    else:
        plan.native_args = ["--depth", "12", "--max-exhaustive", "400000", "--random", "120000"]
        plan.valgrind_args = ["--random", "400", "--max-exhaustive", "1500", "--depth", "7"]
        plan.asan_args = ["--random", "2000", "--max-exhaustive", "20000", "--depth", "8"]
        # the runtime without async-spawn / inter-task-wakeup (own target directory)
        plan.feature_passes = [{"tag": "plain", "features": [], "shards": 8, "args": ["--depth", "10", "--max-exhaustive", "100000", "--random", "40000"]}]


def run(tier, seed, replay):
    rep = rthost_check.run("C21", "c21", tier, seed, replay, RULE, tune=tune)
    if replay is not None:
        rthost_check.replay_floor(rep, FLOORS, tier)
    return rep
