"""C03 — cleanup code frees exactly the heap data the lowering allocated.

Values are lowered with realloc by the real generator code (export result through
abi::call, payloads through lower_to_memory / lower_flat, async-import parameter
lists), then post_return / deallocate_lists_in_types /
deallocate_lists_and_own_in_types (direct and indirect operand forms) are executed
by the abstract machine (crate abi-interp) and the allocator ledger, the DropHandle
multiset and guest_export_needs_post_return are judged."""
import os
import sys
import vcommon
sys.path.insert(0, os.path.join(vcommon.VERIF, "crates", "abi-interp", "py"))
import abiinterp_driver as _abiinterp  # noqa: E402

META = {
    "engine": "abi-interp",
    "level": "exploration",
    "technique": "allocator-ledger monitor: every block the lowering allocates through realloc is recorded with size/align; cleanup instruction streams are executed and each free is checked (exactly once, same size/align, nothing else, no read of freed memory); DropHandle operands are compared with the owned handles of the value",
    "text": "Held = on the (type, value, entry point, mode, width) cases run: all blocks freed exactly once with the allocated size and alignment, zero-length lists allocate and free nothing, in lists-and-own mode exactly the own/future/stream handles are dropped (borrows never), and guest_export_needs_post_return(f) <=> the result type contains a string/list/map (by type).",
    "note": "Known genuine defects exhibited by this check have the fixed signatures dealloc-indirect:fixed-length-list-contents-not-released, dealloc-direct:fixed-length-list:todo-panic, needs-post-return:error-context-result-without-heap-buffer, post_return:error-context-result:assert-retptr. Buffers lifted by a callee (ListLift / ListCanonLift) are owned by the callee and not tracked.",
}
FLOORS = {"quick": (30000, 300), "thorough": (500000, 2000)}


def run(tier, seed, replay):
    if replay is not None:
        # a replay re-executes one case: the coverage floors do not apply
        global FLOORS
        FLOORS = {"quick": (1, 1), "thorough": (1, 1)}
    rep = vcommon.Report("C03", level="exploration",
                         rule="case = (type or function, value, cleanup entry point, lists|lists-and-own, direct|indirect, pointer width, list policy); distinct = shape keys of the types / signatures")
    _abiinterp.run_bin(rep, "c03", tier, seed, replay, timeout=900 if tier == "quick" else 3600, miri_shard=(tier == "thorough"))
    return rep
