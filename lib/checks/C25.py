"""C25 - Source preserves text and tracks indentation (runtime monitor over random op sequences)."""
import os
import vcommon

META = {
    "engine": "corelib-mon",
    "level": "exploration",
    "technique": "reference-oracle monitor over seeded random op sequences against the real wit_bindgen_core::Source",
    "text": "Every sequence of push_str / push_str_literal / indent / deindent / write! / append_src calls is judged by an oracle written from the statement: text equal up to line-leading whitespace; indentation 2*depth with depth from whole-line brace nesting (only while fragment cuts keep brace/comment tokens at their line edge); literal lines neutral; depth at the end equals the oracle depth. Holds on the K sequences observed, nothing more.",
    "note": "Oracle trusts only std string functions. Not judged: \\r, deindent below zero, append_src of partial lines, indentation after a cut that separates a brace/comment token from its line edge.",
}
FLOORS = {"quick": (30000, 5000), "thorough": (1000000, 50000)}
BIN = "c25"
FEATURES = None
RULE = "case = one op sequence on a fresh Source; distinct = sequences (op kinds + fragment token-class skeleton) with >= 2 output lines judged for indentation"


def run(tier, seed, replay):
    rep = vcommon.Report("C25", level=META["level"], rule=RULE)
    bindir = vcommon.cargo_build("corelib-mon", bins=[BIN], features=FEATURES)
    d = vcommon.scratch_dir(BIN)
    out = os.path.join(d, "r.json")
    cmd = [os.path.join(bindir, BIN), "--seed", str(seed), "--tier", tier, "--out", out]
    if replay:
        # a replay file names the generator seed, the case stream and the case index; the
        # harness regenerates exactly that case (case RNGs depend on (seed, stream, index) only)
        r = replay.get("replay", {})
        cmd = [os.path.join(bindir, BIN), "--seed", str(r.get("seed", replay.get("seed", seed))),
               "--tier", replay.get("tier", tier), "--out", out,
               "--stream", str(r.get("stream", "")), "--case", str(r.get("case", 0))]
    try:
        vcommon.run_harness(rep, cmd, timeout=600 if tier == "quick" else 5400, out_json=out,
                            env=vcommon.base_env(), what="c25 harness")
    finally:
        vcommon.rm_scratch(d)
    return rep
